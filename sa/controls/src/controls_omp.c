/* Controls for the OpenMP effect rules (compiled with -fopenmp). */
#include <stdint.h>
#include <stdlib.h>
#include <string.h>

typedef struct { int16_t* levels; int32_t* values; } omp_col_t;

static long omp_fill(const int32_t* src, int32_t* dst, int16_t* levels, long n) {
    for (long i = 0; i < n; i++) { dst[i] = src[i]; if (levels) levels[i] = (int16_t)(src[i] & 1); }
    return n;
}

/* one scratch buffer for every worker: the callee writes through it concurrently */
long omp_args_bad(const int32_t* src, omp_col_t* cols, int ncols, long n) {
    long total = 0;
    int16_t* scratch = (int16_t*)malloc(sizeof(int16_t) * (size_t)n);
    int i;
    #pragma omp parallel for
    for (i = 0; i < ncols; i++) {
        int16_t* lv = (n > 0) ? scratch : NULL;
        omp_fill(src, cols[i].values, lv, n);
    }
    free(scratch);
    return total;
}

/* per-iteration scratch, per-iteration destination, shared source only read */
long omp_args_good(const int32_t* src, omp_col_t* cols, int ncols, long n) {
    long total = 0;
    int i;
    #pragma omp parallel for
    for (i = 0; i < ncols; i++) {
        int16_t* lv = (int16_t*)malloc(sizeof(int16_t) * (size_t)n);
        omp_col_t* c = &cols[i];
        omp_fill(src, c->values, lv, n);
        free(lv);
    }
    return total;
}

/* ---- R37 the thread count selects a schedule, not the work (rules/threadcount.py; own member table) */
typedef struct { int threads; int n; int* cells; } ctl_cfg_t;
void ctl_touch(int* cell);
static void ctl_warm(ctl_cfg_t* c, int threads) {
    if (threads <= 1) return;                   /* bad: the warm-up below changes state and is skipped for 1 thread */
    int i;
    #pragma omp parallel for num_threads(threads)
    for (i = 0; i < c->n; i++) ctl_touch(&c->cells[i]);
}
void threadcount_caller(ctl_cfg_t* c) {
    int threads = c->threads;
    if (threads <= 0) threads = omp_get_max_threads();
    ctl_warm(c, threads);
}
void threadcount_good(ctl_cfg_t* c) {
    int threads = c->threads;
    if (threads <= 0) threads = omp_get_max_threads();
    if (threads > 64) { threads = 64; }
    int i;
    if (threads > 1) {
        #pragma omp parallel for num_threads(threads)
        for (i = 0; i < c->n; i++) ctl_touch(&c->cells[i]);
    } else {
        for (i = 0; i < c->n; i++) ctl_touch(&c->cells[i]);
    }
}
