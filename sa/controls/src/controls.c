/* Positive/negative controls for the generic rule engines. Every *_bad function must make its
 * rule fire, every *_good twin must stay silent. Extracted with the same plugin on every run. */
#include <stdint.h>
#include <stddef.h>
#include <stdlib.h>
#include <string.h>

typedef enum { CTL_OK = 0, CTL_ERR = 1 } ctl_status_t;
typedef struct { uint8_t* data; size_t n; } ctl_buf_t;

ctl_status_t ctl_may_fail(ctl_buf_t* b, size_t n) {
    uint8_t* p = (uint8_t*)malloc(n);
    if (!p) return CTL_ERR;
    b->data = p; b->n = n;
    return CTL_OK;
}

/* ---- R1.alloc */
int alloc_bad(size_t n) {
    int* p = (int*)malloc(n * sizeof(int));
    p[0] = 1;
    int r = p[0];
    free(p);
    return r;
}
int alloc_good(size_t n) {
    int* p = (int*)malloc(n * sizeof(int));
    if (!p) return -1;
    p[0] = 1;
    int r = p[0];
    free(p);
    return r;
}

/* ---- R1.status */
ctl_status_t status_bad_dropped(ctl_buf_t* b) {
    ctl_may_fail(b, 8);
    return CTL_OK;
}
ctl_status_t status_bad_overwritten(ctl_buf_t* b) {
    ctl_status_t st = ctl_may_fail(b, 8);
    st = ctl_may_fail(b, 16);
    return st;
}
ctl_status_t status_good(ctl_buf_t* b) {
    ctl_status_t st = ctl_may_fail(b, 8);
    if (st != CTL_OK) return st;
    return ctl_may_fail(b, 16);
}

/* ---- R2 ownership */
int own_leak_bad(size_t n, int flag) {
    char* a = (char*)malloc(n);
    if (!a) return -1;
    char* b = (char*)malloc(n);
    if (!b) return -1;           /* leaks a */
    a[0] = b[0] = (char)flag;
    free(b);
    free(a);
    return 0;
}
int own_double_bad(size_t n, int flag) {
    char* a = (char*)malloc(n);
    if (!a) return -1;
    if (flag) free(a);
    free(a);
    return 0;
}
int own_realloc_bad(ctl_buf_t* b, size_t n) {
    b->data = (uint8_t*)realloc(b->data, n);
    if (!b->data) return -1;
    b->n = n;
    return 0;
}
int own_good(size_t n, int flag) {
    char* a = (char*)malloc(n);
    if (!a) return -1;
    char* b = (char*)malloc(n);
    if (!b) { free(a); return -1; }
    a[0] = b[0] = (char)flag;
    free(b);
    free(a);
    return 0;
}

/* a scratch buffer that lives on the stack when small and on the heap otherwise: the heap arm is released by the
   `!= stack object` test (good); the bad twin releases only when the pointer EQUALS the stack buffer, i.e. never */
int own_stack_or_heap_good(size_t n, int flag) {
    char small[64];
    char* t = small;
    if (n > sizeof small) {
        t = (char*)malloc(n);
        if (!t) return -1;
    }
    t[0] = (char)flag;
    if (t != small) free(t);
    return 0;
}
int own_stack_or_heap_bad(size_t n, int flag) {
    char small[64];
    char* t = small;
    if (n > sizeof small) {
        t = (char*)malloc(n);
        if (!t) return -1;
    }
    t[0] = (char)flag;
    if (t == small) return 1;     /* fine */
    return 0;                     /* leaks the heap arm */
}

/* ---- R4.cursor */
int cursor_decode_bad(const uint8_t* src, size_t src_size, uint32_t* out) {
    const uint8_t* ip = src;
    const uint8_t* iend = src + src_size;
    if (ip >= iend) return -1;
    uint32_t tag = *ip++;
    uint32_t lo = *ip++;         /* not covered */
    *out = tag | (lo << 8);
    return 0;
}
int cursor_decode_good(const uint8_t* src, size_t src_size, uint32_t* out) {
    const uint8_t* ip = src;
    const uint8_t* iend = src + src_size;
    if (ip + 2 > iend) return -1;
    uint32_t tag = *ip++;
    uint32_t lo = *ip++;
    *out = tag | (lo << 8);
    return 0;
}

/* ---- R4.array */
typedef struct { int32_t stack[16]; int32_t depth; } ctl_dec_t;
int array_decode_bad(ctl_dec_t* d, int v) {
    d->stack[d->depth++] = v;
    return 0;
}
int array_decode_good(ctl_dec_t* d, int v) {
    if (d->depth >= 16) return -1;
    d->stack[d->depth++] = v;
    return 0;
}

/* ---- R8 recursion */
int rec_bad(const uint8_t* p, int depth) {
    if (*p == 0) return depth;
    return rec_bad(p + 1, depth + 1);
}
int rec_good(const uint8_t* p, int depth) {
    if (depth > 64) return -1;
    if (*p == 0) return depth;
    return rec_good(p + 1, depth + 1);
}

/* ---- R5.narrow */
uint32_t narrow_bad(uint64_t x) {
    uint32_t y = x + 1;
    return y;
}
uint32_t narrow_good(uint64_t x) {
    uint32_t y = (uint32_t)(x + 1);
    return y;
}

/* ---- R4.skeleton / R10.extent */
void kernel_bad(const int32_t* in, int32_t* out, int64_t count) {
    int64_t i = 0;
    for (; i + 4 <= count; i += 4) {
        out[i] = in[i]; out[i + 1] = in[i + 1]; out[i + 2] = in[i + 2]; out[i + 3] = in[i + 3];
    }
    for (; i <= count; i++) out[i] = in[i];   /* one past the end */
}
void kernel_good(const int32_t* in, int32_t* out, int64_t count) {
    int64_t i = 0;
    for (; i + 4 <= count; i += 4) {
        out[i] = in[i]; out[i + 1] = in[i + 1]; out[i + 2] = in[i + 2]; out[i + 3] = in[i + 3];
    }
    for (; i < count; i++) out[i] = in[i];
}

/* ---- R6 must-pass */
extern int ctl_sync(int fd);
int commit_bad(int fd, int fast) {
    if (fast) return 0;          /* success without the sync */
    if (ctl_sync(fd) != 0) return -1;
    return 0;
}
int commit_good(int fd, int fast) {
    (void)fast;
    if (ctl_sync(fd) != 0) return -1;
    return 0;
}

/* ---- R19 units */
void grow_bad(int16_t* levels, size_t old_cap, size_t new_cap) {
    memset((uint8_t*)levels + old_cap, 0, (new_cap - old_cap) * sizeof(int16_t));   /* element count as byte offset */
}
void grow_good(int16_t* levels, size_t old_cap, size_t new_cap) {
    memset((uint8_t*)levels + old_cap * sizeof(int16_t), 0, (new_cap - old_cap) * sizeof(int16_t));
}

/* ---- R20 endian */
uint32_t assemble_bad(const uint8_t* p, int nbytes) {
    uint32_t v = 0;
    for (int i = 0; i < nbytes; i++) v = (v << 8) | p[i];
    return v;
}
uint32_t assemble_good(const uint8_t* p, int nbytes) {
    uint32_t v = 0;
    for (int i = 0; i < nbytes; i++) v |= (uint32_t)p[i] << (i * 8);
    return v;
}

/* ---- R21 progress: a refill step that gives up records an error or has nothing owed */
typedef struct { const uint8_t* data; size_t size; size_t pos; long run_remaining; int status; } ctl_rle_t;
static _Bool ctl_refill_bad(ctl_rle_t* dec) {
    if (dec->run_remaining <= 0) return 0;
    if (dec->pos + 4 > dec->size) {
        if (dec->pos < dec->size) dec->status = CTL_ERR;
        return 0;                       /* values still owed, nothing recorded */
    }
    dec->pos += 4;
    return 1;
}
static _Bool ctl_refill_good(ctl_rle_t* dec) {
    if (dec->run_remaining <= 0) return 0;
    if (dec->pos + 4 > dec->size) {
        dec->status = CTL_ERR;
        return 0;
    }
    dec->pos += 4;
    return 1;
}
long ctl_drive(ctl_rle_t* dec, long want) {
    long got = 0;
    while (got < want && dec->status == CTL_OK && dec->run_remaining > 0) {
        if (!ctl_refill_bad(dec)) break;
        if (!ctl_refill_good(dec)) break;
        got++; dec->run_remaining--;
    }
    return got;
}

/* ---- R22 lazy-init: tables are built before they are read */
static uint32_t ctl_table[256];
static int ctl_table_ready;
static void ctl_table_init(void) {
    for (int i = 0; i < 256; i++) ctl_table[i] = (uint32_t)i * 2654435761u;
    ctl_table_ready = 1;
}
uint32_t lazy_bad(const uint8_t* p, size_t n) {
    uint32_t h = 0;
    if (n >= 8 && !ctl_table_ready) ctl_table_init();
    while (n--) h = ctl_table[(h ^ *p++) & 0xFF] ^ (h >> 8);     /* n < 8: table may still be zeros */
    return h;
}
uint32_t lazy_good(const uint8_t* p, size_t n) {
    uint32_t h = 0;
    if (!ctl_table_ready) ctl_table_init();
    while (n--) h = ctl_table[(h ^ *p++) & 0xFF] ^ (h >> 8);
    return h;
}

/* ---- R1.atomic: a failed growth leaves counts and capacities unchanged */
typedef struct { uint8_t* data; size_t size; size_t capacity; } ctl_vec_t;
ctl_status_t grow_atomic_bad(ctl_vec_t* v, size_t need) {
    if (need <= v->capacity) return CTL_OK;
    v->capacity = need * 2;
    uint8_t* p = (uint8_t*)realloc(v->data, v->capacity);
    if (!p) return CTL_ERR;             /* capacity already claims the room */
    v->data = p;
    return CTL_OK;
}
ctl_status_t grow_atomic_good(ctl_vec_t* v, size_t need) {
    if (need <= v->capacity) return CTL_OK;
    size_t cap = need * 2;
    uint8_t* p = (uint8_t*)realloc(v->data, cap);
    if (!p) return CTL_ERR;
    v->data = p;
    v->capacity = cap;
    return CTL_OK;
}

/* ---- feasible-path pruning of R1.alloc: `n > 0` false and `i < n` true (i == 0) exclude each other */
int alloc_infeasible_good(int n) {
    int* a = (int*)calloc((size_t)n, sizeof(int));
    if (n > 0 && !a) return -1;
    for (int i = 0; i < n; i++) a[i] = i;
    free(a);
    return 0;
}

/* ---- R24 narrow-guard: a bounds guard is not computed in fewer bits than the bound */
static uint32_t ctl_le32(const uint8_t* p) { return (uint32_t)p[0] | ((uint32_t)p[1] << 8) | ((uint32_t)p[2] << 16) | ((uint32_t)p[3] << 24); }
long narrow_guard_bad(const uint8_t* in, size_t in_size) {
    if (in_size < 4) return -1;
    uint32_t len = ctl_le32(in);
    if (4 + len > in_size) return -1;           /* 4 + len wraps in 32 bits */
    return (long)in[4 + len - 1];
}
long narrow_guard_good(const uint8_t* in, size_t in_size) {
    if (in_size < 4) return -1;
    uint32_t len = ctl_le32(in);
    if (len > in_size - 4) return -1;
    uint8_t w = in[3];
    if (w + 7u > in_size) return -1;            /* narrow operand: cannot wrap */
    if (len > 1000) return -1;
    if (len + 16 > in_size) return -1;          /* tested on every path */
    return (long)in[4 + len - 1];
}
uint64_t signext_bad(const uint8_t* p) {
    return p[0] | (p[1] << 8) | (p[2] << 16) | (p[3] << 24) | ((uint64_t)p[4] << 32);   /* p[3] >= 0x80 sets bits 32..63 */
}
uint64_t signext_good(const uint8_t* p) {
    uint64_t lo = p[0] | (p[1] << 8) | (p[2] << 16);
    return lo | ((uint64_t)p[3] << 24) | ((uint64_t)p[4] << 32);
}
long narrow_guard_local_bad(const uint8_t* in, size_t in_size) {
    if (in_size < 4) return -1;
    uint32_t len = ctl_le32(in);
    size_t entry = 4 + len;                     /* wraps before it is widened */
    if (in_size < entry) return -1;
    return (long)entry;
}

/* ---- R26 hidden state: a call's output depends on its arguments only */
size_t hidden_bad(const uint8_t* in, size_t n, uint8_t* out) {
    static uint16_t table[256];                 /* candidates left by the previous call steer this one */
    size_t o = 0;
    for (size_t i = 0; i + 1 < n; i++) {
        uint8_t h = (uint8_t)(in[i] * 31u + in[i + 1]);
        if (table[h] < i && in[table[h]] == in[i]) out[o++] = 1; else out[o++] = in[i];
        table[h] = (uint16_t)i;
    }
    return o;
}
size_t hidden_good(const uint8_t* in, size_t n, uint8_t* out) {
    static uint16_t table[256];
    size_t o = 0;
    memset(table, 0, sizeof(table));
    for (size_t i = 0; i + 1 < n; i++) {
        uint8_t h = (uint8_t)(in[i] * 31u + in[i + 1]);
        if (table[h] < i && in[table[h]] == in[i]) out[o++] = 1; else out[o++] = in[i];
        table[h] = (uint16_t)i;
    }
    return o;
}

/* ---- R27 stale member: a freed member of a live heap object is reset */
typedef struct { uint8_t* dict; uint32_t* offsets; int n; } ctl_rd_t;
void ctl_rd_free(ctl_rd_t* r) { if (!r) return; free(r->dict); free(r->offsets); free(r); }
int stale_bad(ctl_rd_t* r, int n) {
    if (n < 0) {
        free(r->dict); free(r->offsets);
        r->dict = NULL;                         /* offsets keeps the freed pointer: ctl_rd_free frees it again */
        return -1;
    }
    r->n = n;
    return 0;
}
int stale_good(ctl_rd_t* r, int n) {
    if (n < 0) {
        free(r->dict); free(r->offsets);
        r->dict = NULL; r->offsets = NULL;
        return -1;
    }
    r->n = n;
    return 0;
}
long narrow_guard_local32_bad(const uint8_t* in, size_t in_size) {
    uint32_t len, framed;
    if (in_size < 4) return -1;
    len = ctl_le32(in);
    framed = 4 + len;                           /* 32-bit sum kept in a 32-bit local */
    if (framed > in_size) return -1;
    return (long)in[framed - 1];
}

/* ---- R25 field fit: packed tag bytes hold every value the guards admit */
uint8_t* fieldfit_bad(uint8_t* op, size_t offset, size_t len) {
    if (len > 11 || offset > 2048) {            /* offset == 2048 reaches the 11-bit form */
        *op++ = (uint8_t)(((len - 1) << 2) | 2);
        *op++ = (uint8_t)(offset & 0xFF);
        *op++ = (uint8_t)(offset >> 8);
    } else {
        *op++ = (uint8_t)(((offset >> 8) << 5) | ((len - 4) << 2) | 1);
        *op++ = (uint8_t)(offset & 0xFF);
    }
    return op;
}
uint8_t* fieldfit_good(uint8_t* op, size_t offset, size_t len) {
    if (len >= 12 || offset >= 2048) {
        if (len > 64) return op;
        *op++ = (uint8_t)(((len - 1) << 2) | 2);
        *op++ = (uint8_t)(offset & 0xFF);
        *op++ = (uint8_t)(offset >> 8);
    } else {
        *op++ = (uint8_t)(((offset >> 8) << 5) | ((len - 4) << 2) | 1);
        *op++ = (uint8_t)(offset & 0xFF);
    }
    return op;
}

/* ---- R32 request fits: a reader is not asked for more than its buffer holds */
typedef struct carquet_column_reader carquet_column_reader_t;
long carquet_column_read_batch(carquet_column_reader_t* r, void* values, long max_values, int16_t* def, int16_t* rep);
long request_bad(carquet_column_reader_t* r, long remaining, long batch) {
    long rows = remaining;
    if (rows > batch) rows = batch;
    int32_t* buf = (int32_t*)malloc(sizeof(int32_t) * (size_t)rows);
    if (!buf) return -1;
    long got = carquet_column_read_batch(r, buf, batch, NULL, NULL);     /* rows < batch: the callee may store batch values */
    free(buf);
    return got;
}
long request_good(carquet_column_reader_t* r, long remaining, long batch) {
    long rows = remaining;
    if (rows > batch) rows = batch;
    int32_t* buf = (int32_t*)malloc(sizeof(int32_t) * (size_t)rows);
    if (!buf) return -1;
    long got = carquet_column_read_batch(r, buf, rows, NULL, NULL);
    free(buf);
    return got;
}

/* ---- R33 signed offset: decoded lengths are sign-checked before they move a pointer */
int ctl_decode_i32(const uint8_t* in, size_t n, int32_t* out, int count);
int signed_off_bad(const uint8_t* in, size_t n, uint8_t* work, int count) {
    int32_t* pre = (int32_t*)malloc(sizeof(int32_t) * (size_t)count);
    int32_t* suf = (int32_t*)malloc(sizeof(int32_t) * (size_t)count);
    if (!pre || !suf) { free(pre); free(suf); return -1; }
    ctl_decode_i32(in, n, pre, count);
    ctl_decode_i32(in, n, suf, count);
    for (int i = 0; i < count; i++) {
        if (suf[i] < 0 || (long)pre[i] + suf[i] < 0) { free(pre); free(suf); return -1; }   /* pre[i] alone is never tested */
    }
    for (int i = 0; i < count; i++) {
        int32_t p = pre[i], s = suf[i];
        if (s > 0) memcpy(work + p, in, (size_t)s);
    }
    free(pre); free(suf);
    return 0;
}
int signed_off_good(const uint8_t* in, size_t n, uint8_t* work, int count) {
    int32_t* pre = (int32_t*)malloc(sizeof(int32_t) * (size_t)count);
    int32_t* suf = (int32_t*)malloc(sizeof(int32_t) * (size_t)count);
    if (!pre || !suf) { free(pre); free(suf); return -1; }
    ctl_decode_i32(in, n, pre, count);
    ctl_decode_i32(in, n, suf, count);
    for (int i = 0; i < count; i++) {
        if (suf[i] < 0 || pre[i] < 0) { free(pre); free(suf); return -1; }
    }
    for (int i = 0; i < count; i++) {
        int32_t p = pre[i], s = suf[i];
        if (s > 0) memcpy(work + p, in, (size_t)s);
    }
    free(pre); free(suf);
    return 0;
}

/* ---- XXH64 formula rule (rules/xxh.py): a correct variant in an unusual arrangement (lane array, rotation
 * table, word loads through memcpy, pre-added constants) and a twin whose 8-byte tail step rotates by 28. */
#define CTL_P1 0x9E3779B185EBCA87ULL
#define CTL_P2 0xC2B2AE3D27D4EB4FULL
#define CTL_P3 0x165667B19E3779F9ULL
#define CTL_P4 0x85EBCA77C2B2AE63ULL
#define CTL_P5 0x27D4EB2F165667C5ULL
static inline uint64_t ctl_rotl(uint64_t x, int r) { return (x << r) | (x >> (64 - r)); }
static inline uint64_t ctl_rd64(const uint8_t* p) { uint64_t v; memcpy(&v, p, 8); return v; }
static inline uint32_t ctl_rd32(const uint8_t* p) {
    return (uint32_t)p[0] | ((uint32_t)p[1] << 8) | ((uint32_t)p[2] << 16) | ((uint32_t)p[3] << 24);
}
static inline uint64_t ctl_round(uint64_t acc, uint64_t in) { return ctl_rotl(acc + in * CTL_P2, 31) * CTL_P1; }
static uint64_t ctl_xxh(const void* data, size_t length, uint64_t seed, int tail_rot) {
    const uint8_t* p = (const uint8_t*)data;
    size_t left = length;
    uint64_t h;
    if (length < 32) {
        h = CTL_P5 + seed;
    } else {
        static const int rot[4] = {1, 7, 12, 18};
        uint64_t lane[4];
        lane[0] = seed + (CTL_P1 + CTL_P2);
        lane[1] = CTL_P2 + seed;
        lane[2] = seed;
        lane[3] = seed - CTL_P1;
        for (; left >= 32; left -= 32) {
            for (int k = 0; k < 4; k++, p += 8) lane[k] = ctl_round(lane[k], ctl_rd64(p));
        }
        h = 0;
        for (int k = 0; k < 4; k++) h += ctl_rotl(lane[k], rot[k]);
        for (int k = 0; k < 4; k++) h = (h ^ ctl_round(0, lane[k])) * CTL_P1 + CTL_P4;
    }
    h += (uint64_t)length;
    for (; left >= 8; left -= 8, p += 8) {
        h ^= ctl_round(0, ctl_rd64(p));
        h = CTL_P4 + ctl_rotl(h, tail_rot) * CTL_P1;
    }
    if (left >= 4) {
        h ^= CTL_P1 * (uint64_t)ctl_rd32(p);
        h = ctl_rotl(h, 23) * CTL_P2 + CTL_P3;
        p += 4; left -= 4;
    }
    while (left--) {
        h ^= *p++ * CTL_P5;
        h = ctl_rotl(h, 11) * CTL_P1;
    }
    h = (h ^ (h >> 33)) * CTL_P2;
    h = (h ^ (h >> 29)) * CTL_P3;
    return h ^ (h >> 32);
}
uint64_t xxh_formula_good(const void* data, size_t length, uint64_t seed) { return ctl_xxh(data, length, seed, 27); }
uint64_t xxh_formula_bad(const void* data, size_t length, uint64_t seed) { return ctl_xxh(data, length, seed, 28); }

/* ---- R35 length-extension bytes (rules/lenext.py) */
size_t lenext_bad(uint8_t* op, size_t n) {
    uint8_t* s = op; size_t rem = n;
    while (rem > 255) { *op++ = 255; rem -= 255; }
    *op++ = (uint8_t)rem;
    return (size_t)(op - s);
}
size_t lenext_good(uint8_t* op, size_t n) {
    uint8_t* s = op; size_t rem = n;
    for (; !(rem < 255); rem -= 255) { *op++ = 255; }
    *op++ = (uint8_t)rem;
    return (size_t)(op - s);
}
size_t lenext_read_bad(const uint8_t* ip) {
    size_t len = 15; uint8_t s;
    do { s = *ip++; len += s; } while (s >= 254);
    return len;
}
size_t lenext_read_good(const uint8_t* ip) {
    size_t len = 15; uint8_t s;
    do { s = *ip++; len += s; } while (255 == s);
    return len;
}

/* ---- R27, destructor form: a member handed to its destructor through a local copy, after a helper that
 * may or may not have replaced it */
typedef struct { int* pages; } ctl_grp_t;
void ctl_grp_destroy(ctl_grp_t* g) { if (!g) return; free(g->pages); free(g); }
typedef struct { ctl_grp_t* cur; int rows; } ctl_wr_t;
void ctl_wr_close(ctl_wr_t* w) { if (!w) return; ctl_grp_destroy(w->cur); free(w); }
static int ctl_wr_flush(ctl_wr_t* w, int fail) {
    if (fail) return -5;
    ctl_grp_destroy(w->cur);
    w->cur = NULL;
    return 0;
}
int stale_alias_bad(ctl_wr_t* w, int fail) {
    ctl_grp_t* g = w->cur;
    int st = ctl_wr_flush(w, fail);
    if (st == -5 && g) {
        ctl_grp_destroy(g);
        g = NULL;                               /* only the local forgets it: ctl_wr_close destroys it again */
        w->rows = 0;
    }
    return st;
}
int stale_alias_good(ctl_wr_t* w, int fail) {
    ctl_grp_t* g = w->cur;
    int st = ctl_wr_flush(w, fail);
    if (st == -5 && g) {
        ctl_grp_destroy(g);
        w->cur = NULL;
        w->rows = 0;
    }
    return st;
}

/* ---- R36 stored bytes vs uncompressed bytes (rules/sizekind.py; the control passes its own member table) */
typedef struct { long total_stored; long total_plain; long pos; int page_stored; int page_hdr; } ctl_chunk_t;
int sizekind_bad(const ctl_chunk_t* c) {
    long consumed = c->pos;
    consumed += c->page_hdr + c->page_stored;
    return consumed < c->total_plain;
}
int sizekind_good(const ctl_chunk_t* c) {
    long consumed = c->pos;
    consumed += c->page_hdr + c->page_stored;
    long widest = c->total_stored > c->total_plain ? c->total_stored : c->total_plain;
    return consumed < c->total_stored && widest > 0;
}
size_t lenext_closed_bad(uint8_t* op, size_t rem) {
    uint8_t* s = op; const size_t full = rem / 255;
    memset(op, 255, full); op += full;
    *op++ = (uint8_t)(rem % 256);               /* 255 stays 255: reads back as a continuing length */
    return (size_t)(op - s);
}
size_t lenext_closed_good(uint8_t* op, size_t rem) {
    uint8_t* s = op; const size_t full = rem / 255;
    memset(op, 255, full); op += full;
    *op++ = (uint8_t)(rem % 255);
    return (size_t)(op - s);
}
size_t lenext_read_break_good(const uint8_t* ip) {
    size_t len = 15;
    for (;;) { uint8_t s = *ip++; len += s; if (s != 255) break; }
    return len;
}
size_t lenext_read_break_bad(const uint8_t* ip) {
    size_t len = 15;
    for (;;) { uint8_t s = *ip++; len += s; if (s < 255) break; if (len > 100000) break; }
    return len;
}

/* ---- R38 varint writers / readers (rules/varint.py) */
size_t ctl_write_varint_good(uint8_t* p, uint32_t value) {
    uint8_t* s = p;
    if (value < 0x80) { *p = (uint8_t)value; return 1; }          /* one-byte fast path, right bound */
    while (value >= 0x80) { *p++ = (uint8_t)(value | 0x80); value >>= 7; }
    *p++ = (uint8_t)value;
    return (size_t)(p - s);
}
size_t ctl_write_varint_bad(uint8_t* p, uint32_t value) {
    uint8_t* s = p;
    if (value <= 0x80) { *p = (uint8_t)value; return 1; }         /* 128 needs two bytes */
    while (value >= 0x80) { *p++ = (uint8_t)(value | 0x80); value >>= 7; }
    *p++ = (uint8_t)value;
    return (size_t)(p - s);
}
size_t ctl_read_varint_good(const uint8_t* p, const uint8_t* end, uint32_t* value) {
    uint32_t r = 0; int shift = 0; const uint8_t* s = p;
    while (p < end && shift < 35) { uint8_t b = *p++; r |= (uint32_t)(b & 0x7F) << shift; if (!(b & 0x80)) { *value = r; return (size_t)(p - s); } shift += 7; }
    return 0;
}
size_t ctl_read_varint_bad(const uint8_t* p, const uint8_t* end, uint32_t* value) {
    uint32_t r = 0; int shift = 0; const uint8_t* s = p;
    while (p < end && shift < 28) { uint8_t b = *p++; r |= (uint32_t)(b & 0x7F) << shift; if (!(b & 0x80)) { *value = r; return (size_t)(p - s); } shift += 7; }
    return 0;                                                     /* gives up before the fifth byte of a 32-bit value */
}

/* ---- R39 scaled extent (rules/scaledext.py) */
static inline double carquet_read_f64_le(const uint8_t* p) { double d; memcpy(&d, p, 8); return d; }
int scaledext_bad(const uint8_t* table, size_t table_size, int32_t count, const uint32_t* idx, double* out, int n) {
    if (count <= 0 || table_size < (size_t)count * sizeof(float)) return -1;      /* promises 4 bytes per entry */
    for (int i = 0; i < n; i++) {
        if (idx[i] >= (uint32_t)count) return -1;
        out[i] = carquet_read_f64_le(table + idx[i] * sizeof(double));
    }
    return 0;
}
int scaledext_good(const uint8_t* table, size_t table_size, int32_t count, const uint32_t* idx, double* out, int n) {
    if (count <= 0 || table_size < (size_t)count * sizeof(double)) return -1;
    for (int i = 0; i < n; i++) {
        if (idx[i] >= (uint32_t)count) return -1;
        out[i] = carquet_read_f64_le(table + idx[i] * sizeof(double));
    }
    return 0;
}

/* ---- R40 loop cursor (rules/loopcursor.py) */
void ctl_unpack8(const uint8_t* in, int w, uint32_t* out) { for (int i = 0; i < 8; i++) out[i] = in[(i * w) / 8]; }
int loopcursor_bad(const uint8_t* in, int groups, int w, int16_t* out, int fast) {
    const uint8_t* packed = in;
    int n = 0;
    for (int g = 0; g < groups; g++) {
        uint32_t tmp[8];
        ctl_unpack8(packed, w, tmp);
        if (fast) { for (int i = 0; i < 8; i++) out[n++] = (int16_t)tmp[i]; continue; }   /* skips the advance below */
        for (int i = 0; i < 8; i++) out[n++] = (int16_t)(tmp[i] & 0xFFFF);
        packed += w;
    }
    return n;
}
int loopcursor_good(const uint8_t* in, int groups, int w, int16_t* out, int fast) {
    const uint8_t* packed = in;
    int n = 0;
    for (int g = 0; g < groups; g++) {
        uint32_t tmp[8];
        if (w == 0) { for (int i = 0; i < 8; i++) out[n++] = 0; continue; }       /* nothing read: nothing to step over */
        ctl_unpack8(packed, w, tmp);
        packed += w;
        if (fast) { for (int i = 0; i < 8; i++) out[n++] = (int16_t)tmp[i]; continue; }
        for (int i = 0; i < 8; i++) out[n++] = (int16_t)(tmp[i] & 0xFFFF);
    }
    return n;
}

/* ---- R43 bit-addressed helpers (rules/bitfield.py) */
typedef struct { const uint8_t* data; size_t size; size_t pos; uint64_t out[32]; } ctl_bits_t;
static uint64_t ctl_get_bits_good(const uint8_t* base, size_t bit_off, int width) {
    uint64_t v = 0;
    int got = 0;
    while (got < width) {
        int shift = (int)(bit_off & 7);
        int n = 8 - shift;
        if (n > width - got) n = width - got;
        v |= (uint64_t)((base[bit_off >> 3] >> shift) & ((1u << n) - 1u)) << got;
        got += n;
        bit_off += (size_t)n;
    }
    return v;
}
static uint64_t ctl_get_bits_bad(const uint8_t* base, size_t bit_off, int width) {
    /* reads whole bytes up to and including the one after the field when the field ends on a byte boundary */
    uint64_t v = 0;
    size_t first = bit_off >> 3, last = (bit_off + (size_t)width) >> 3;
    for (size_t k = first; k <= last && k < first + 8; k++) v |= (uint64_t)base[k] << (8 * (k - first));
    return (v >> (bit_off & 7)) & (width >= 64 ? ~0ull : ((1ull << width) - 1));
}
int bitfield_good(ctl_bits_t* d, int n, int w) {
    size_t need = ((size_t)n * (size_t)w + 7) / 8;
    if (d->pos + need > d->size) return -1;
    for (int i = 0; i < n; i++) d->out[i] = ctl_get_bits_good(d->data + d->pos, (size_t)i * (size_t)w, w);
    d->pos += need;
    return 0;
}
int bitfield_bad_guard(ctl_bits_t* d, int n, int w) {
    size_t need = ((size_t)n * (size_t)w) / 8;                  /* one byte short unless n * w is a multiple of 8 */
    if (d->pos + need > d->size) return -1;
    for (int i = 0; i < n; i++) d->out[i] = ctl_get_bits_good(d->data + d->pos, (size_t)i * (size_t)w, w);
    d->pos += need;
    return 0;
}
int bitfield_bad_helper(ctl_bits_t* d, int n, int w) {
    size_t need = ((size_t)n * (size_t)w + 7) / 8;
    if (d->pos + need > d->size) return -1;
    for (int i = 0; i < n; i++) d->out[i] = ctl_get_bits_bad(d->data + d->pos, (size_t)i * (size_t)w, w);
    d->pos += need;
    return 0;
}

/* ---- R44 wrap sum (rules/wrapsum.py) */
typedef struct { const uint8_t* data; size_t size; size_t pos; } ctl_wrd_t;
static int ctl_wrd_has(const ctl_wrd_t* r, size_t n) { return r->pos + n <= r->size; }
static int ctl_wrd_has2(const ctl_wrd_t* r, size_t n) { return ctl_wrd_has(r, n); }
uint64_t ctl_read_varint64(ctl_wrd_t* r);
const uint8_t* wrapsum_bad(ctl_wrd_t* r, int32_t* len_out) {
    uint64_t len = ctl_read_varint64(r);
    if (!ctl_wrd_has2(r, len)) return 0;              /* len = 2^64 - pos passes */
    *len_out = (int32_t)len;
    const uint8_t* p = r->data + r->pos;
    r->pos += len;
    return p;
}
const uint8_t* wrapsum_good(ctl_wrd_t* r, int32_t* len_out) {
    uint64_t len = ctl_read_varint64(r);
    if (len > 0x7fffffffu) return 0;
    if (!ctl_wrd_has2(r, len)) return 0;
    *len_out = (int32_t)len;
    const uint8_t* p = r->data + r->pos;
    r->pos += len;
    return p;
}

/* ---- R45 borrowed input (rules/borrowed.py) */
typedef struct { const uint8_t* data; size_t size; size_t pos; } ctl_brd_t;
typedef struct { uint8_t* min_value; int32_t min_len; } ctl_meta_t;
void* ctl_arena_dup(void* arena, const void* p, size_t n);
static const uint8_t* ctl_peek(const ctl_brd_t* r) { return r->data + r->pos; }
static const uint8_t* ctl_read_bin(ctl_brd_t* r, int32_t* len) { const uint8_t* p = ctl_peek(r); *len = (int32_t)p[0]; r->pos += 1 + (size_t)p[0]; return p + 1; }
static uint8_t* ctl_bindup_good(void* arena, ctl_brd_t* r, int32_t* len) {
    const uint8_t* d = ctl_read_bin(r, len);
    if (!d || *len == 0) return 0;
    return ctl_arena_dup(arena, d, (size_t)*len);
}
static uint8_t* ctl_bindup_bad(void* arena, ctl_brd_t* r, int32_t* len) {
    const uint8_t* d = ctl_read_bin(r, len);
    if (!d || *len == 0) return 0;
    if (*len > 16) return (uint8_t*)d;                /* long values referenced in place */
    return ctl_arena_dup(arena, d, (size_t)*len);
}
void borrowed_good(void* arena, ctl_brd_t* r, ctl_meta_t* m) { m->min_value = ctl_bindup_good(arena, r, &m->min_len); }
void borrowed_bad(void* arena, ctl_brd_t* r, ctl_meta_t* m) { m->min_value = ctl_bindup_bad(arena, r, &m->min_len); }

/* ---- R46 growth covers the request (rules/growth.py) */
typedef struct { uint8_t* buf; size_t cap; } ctl_grow_t;
uint8_t* growth_bad(ctl_grow_t* g, size_t need) {
    if (need > g->cap) {
        size_t new_cap = g->cap ? g->cap * 2 : need;       /* a request above twice the capacity gets too little */
        uint8_t* p = realloc(g->buf, new_cap);
        if (!p) return 0;
        g->buf = p;
        g->cap = new_cap;
    }
    return g->buf;
}
uint8_t* growth_good(ctl_grow_t* g, size_t need) {
    if (need > g->cap) {
        size_t new_cap = g->cap ? g->cap * 2 : 64;
        while (new_cap < need) new_cap *= 2;
        uint8_t* p = realloc(g->buf, new_cap);
        if (!p) return 0;
        g->buf = p;
        g->cap = new_cap;
    }
    return g->buf;
}

/* ---- R47 per-call reset of tables that outlive the call (rules/callstate.py) */
static __thread const uint8_t* ctl_match_table[64];
static __thread const uint8_t* ctl_match_table2[64];
static __thread uintptr_t ctl_table_lo;
static void ctl_table_begin_bad(const uint8_t* src) {
    if (ctl_table_lo < (uintptr_t)src) memset(ctl_match_table, 0, sizeof(ctl_match_table));     /* cleared on one path only */
    ctl_table_lo = (uintptr_t)src;
}
static void ctl_table_begin_good(void) { memset(ctl_match_table2, 0, sizeof(ctl_match_table2)); }
size_t callstate_bad(const uint8_t* src, size_t n) {
    size_t hits = 0;
    ctl_table_begin_bad(src);
    for (size_t i = 0; i + 1 < n; i++) { unsigned h = src[i] & 63; if (ctl_match_table[h]) hits++; ctl_match_table[h] = src + i; }
    return hits;
}
size_t callstate_good(const uint8_t* src, size_t n) {
    size_t hits = 0;
    ctl_table_begin_good();
    for (size_t i = 0; i + 1 < n; i++) { unsigned h = src[i] & 63; if (ctl_match_table2[h]) hits++; ctl_match_table2[h] = src + i; }
    return hits;
}
