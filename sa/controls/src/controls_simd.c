/* Controls for R23 (lane width). Compiled with -mavx2. */
#include <stdint.h>
#include <immintrin.h>

int64_t lanes_bad(const int64_t* v) {
    __m128i x = _mm_loadu_si128((const __m128i*)v);
    __m128i s = _mm_add_epi64(x, _mm_srli_si128(x, 8));
    return _mm_cvtsi128_si32(_mm_unpackhi_epi64(s, s));      /* 32 bits of a 64-bit lane */
}
int64_t lanes_good(const int64_t* v) {
    __m128i x = _mm_loadu_si128((const __m128i*)v);
    __m128i s = _mm_add_epi64(x, _mm_srli_si128(x, 8));
    return _mm_cvtsi128_si64(_mm_unpackhi_epi64(s, s));
}
