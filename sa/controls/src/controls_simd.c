/* Controls for R23 (lane width). Compiled with -mavx2. */
#include <stdint.h>
#include <immintrin.h>

int64_t lanes_bad(const int64_t* v) {
    __m128i x = _mm_loadu_si128((const __m128i*)v);
    __m128i s = _mm_add_epi64(x, _mm_srli_si128(x, 8));
    return _mm_cvtsi128_si32(_mm_unpackhi_epi64(s, s));      /* 32 bits of a 64-bit lane */
}
int64_t lanes_good(const int64_t* v) {
    __m128i x = _mm_loadu_si128((const __m128i*)v);
    __m128i s = _mm_add_epi64(x, _mm_srli_si128(x, 8));
    return _mm_cvtsi128_si64(_mm_unpackhi_epi64(s, s));
}

/* ---- R23 signed bit test: the sign-bit lane of a mask under a signed compare */
void bit_test_bad(const uint8_t* in, uint8_t* out) {
    __m128i bits = _mm_set1_epi8((char)in[0]);
    __m128i mask = _mm_set_epi8((char)0x80, 0x40, 0x20, 0x10, 0x08, 0x04, 0x02, 0x01,
                                (char)0x80, 0x40, 0x20, 0x10, 0x08, 0x04, 0x02, 0x01);
    __m128i masked = _mm_and_si128(bits, mask);
    __m128i zero = _mm_setzero_si128();
    _mm_storeu_si128((__m128i*)out, _mm_sub_epi8(zero, _mm_cmpgt_epi8(masked, zero)));   /* lane 0x80 is negative */
}
void bit_test_good(const uint8_t* in, uint8_t* out) {
    __m128i bits = _mm_set1_epi8((char)in[0]);
    __m128i mask = _mm_set_epi8(0x40, 0x40, 0x20, 0x10, 0x08, 0x04, 0x02, 0x01,
                                0x40, 0x40, 0x20, 0x10, 0x08, 0x04, 0x02, 0x01);
    __m128i masked = _mm_and_si128(bits, mask);
    __m128i zero = _mm_setzero_si128();
    _mm_storeu_si128((__m128i*)out, _mm_sub_epi8(zero, _mm_cmpgt_epi8(masked, zero)));
}

/* ---- R23 lane counter: 16-bit per-lane counters flushed with a signed multiply-add */
int64_t lane_counter_bad(const int16_t* v, int64_t count, int16_t key) {
    int64_t total = 0, i = 0;
    __m128i k = _mm_set1_epi16(key);
    const __m128i ones = _mm_set1_epi16(1);
    while (i + 8 <= count) {
        int64_t end = i + 8 * (int64_t)65535;           /* 65535 increments: fine unsigned, wraps signed at 32768 */
        if (end > count) end = count;
        __m128i acc = _mm_setzero_si128();
        for (; i + 8 <= end; i += 8) {
            __m128i x = _mm_loadu_si128((const __m128i*)(v + i));
            acc = _mm_sub_epi16(acc, _mm_cmpeq_epi16(x, k));
        }
        __m128i s = _mm_madd_epi16(acc, ones);
        s = _mm_add_epi32(s, _mm_srli_si128(s, 8));
        s = _mm_add_epi32(s, _mm_srli_si128(s, 4));
        total += _mm_cvtsi128_si32(s);
    }
    return total;
}
int64_t lane_counter_good(const int16_t* v, int64_t count, int16_t key) {
    int64_t total = 0, i = 0;
    __m128i k = _mm_set1_epi16(key);
    const __m128i ones = _mm_set1_epi16(1);
    while (i + 8 <= count) {
        int64_t end = i + 8 * (int64_t)32767;
        if (end > count) end = count;
        __m128i acc = _mm_setzero_si128();
        for (; i + 8 <= end; i += 8) {
            __m128i x = _mm_loadu_si128((const __m128i*)(v + i));
            acc = _mm_sub_epi16(acc, _mm_cmpeq_epi16(x, k));
        }
        __m128i s = _mm_madd_epi16(acc, ones);
        s = _mm_add_epi32(s, _mm_srli_si128(s, 8));
        s = _mm_add_epi32(s, _mm_srli_si128(s, 4));
        total += _mm_cvtsi128_si32(s);
    }
    return total;
}

/* ---- R23 masked tail: an unmasked compare on a zero-masked load lets the empty lanes answer */
__attribute__((target("avx512f,avx512bw,avx512vl")))
long masked_tail_bad(const int32_t* values, long count, int32_t first) {
    __m512i target = _mm512_set1_epi32(first);
    __mmask16 tail = (__mmask16)((1u << count) - 1);
    __m512i v = _mm512_maskz_loadu_epi32(tail, values);
    __mmask16 cmp = _mm512_cmpeq_epi32_mask(v, target);
    if (cmp != tail) return __builtin_ctz(~(unsigned)cmp);
    return count;
}
__attribute__((target("avx512f,avx512bw,avx512vl")))
long masked_tail_good(const int32_t* values, long count, int32_t first) {
    __m512i target = _mm512_set1_epi32(first);
    __mmask16 tail = (__mmask16)((1u << count) - 1);
    __m512i v = _mm512_maskz_loadu_epi32(tail, values);
    __mmask16 cmp = _mm512_cmpeq_epi32_mask(v, target);
    cmp &= tail;
    if ((cmp & tail) != tail) return __builtin_ctz(~(unsigned)(cmp & tail));
    return count;
}

/* ---- R10.aligned: alignment-requiring vector loads (props/C15.py run_kernel) */
void prefix_aligned_bad(int32_t* v, long n) {
    long i = 0;
    for (; i + 4 <= n; i += 4) {
        __m128i x = _mm_load_si128((const __m128i*)(v + i));      /* faults unless v is 16-byte aligned */
        _mm_storeu_si128((__m128i*)(v + i), _mm_add_epi32(x, x));
    }
    for (; i < n; i++) v[i] += v[i];
}
void prefix_aligned_good(int32_t* v, long n) {
    long i = 0;
    for (; i < n && (((uintptr_t)(v + i)) & 15) != 0; i++) v[i] += v[i];      /* scalar until the address is aligned */
    for (; i + 4 <= n; i += 4) {
        __m128i x = _mm_load_si128((const __m128i*)(v + i));
        _mm_storeu_si128((__m128i*)(v + i), _mm_add_epi32(x, x));
    }
    for (; i < n; i++) v[i] += v[i];
}
