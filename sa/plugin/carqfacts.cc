// carqfacts: clang-14 frontend plugin that dumps, for one translation unit, a
// compact JSON description of the type-resolved program restricted to files
// under a given root: records, enums, file-scope variables, function
// declarations, and for every function definition the full statement tree
// plus clang::CFG (built with setAllAlwaysAdd) of the body and of every OpenMP
// captured region.
//
// Usage:
//   clang-14 -fsyntax-only -fplugin=carqfacts.so -Xclang -plugin -Xclang carqfacts \
//      -Xclang -plugin-arg-carqfacts -Xclang root=/repo \
//      -Xclang -plugin-arg-carqfacts -Xclang out=/tmp/x.json  <flags> file.c
#include <algorithm>
#include "clang/AST/ASTConsumer.h"
#include "clang/AST/ASTContext.h"
#include "clang/AST/Attr.h"
#include "clang/AST/Decl.h"
#include "clang/AST/Expr.h"
#include "clang/AST/Stmt.h"
#include "clang/AST/StmtOpenMP.h"
#include "clang/AST/OpenMPClause.h"
#include "clang/AST/RecordLayout.h"
#include "clang/Analysis/CFG.h"
#include "clang/Basic/SourceManager.h"
#include "clang/Frontend/CompilerInstance.h"
#include "clang/Frontend/FrontendPluginRegistry.h"
#include "clang/Lex/Lexer.h"
#include "llvm/Support/raw_ostream.h"
#include <map>
#include <string>
#include <vector>

using namespace clang;

namespace {

static std::string jesc(llvm::StringRef s) {
  std::string o;
  o.reserve(s.size() + 2);
  for (unsigned char c : s) {
    switch (c) {
    case '"': o += "\\\""; break;
    case '\\': o += "\\\\"; break;
    case '\n': o += "\\n"; break;
    case '\r': o += "\\r"; break;
    case '\t': o += "\\t"; break;
    default:
      if (c < 0x20 || c >= 0x7f) {
        char buf[8];
        snprintf(buf, sizeof buf, "\\u%04x", c);
        o += buf;
      } else
        o += (char)c;
    }
  }
  return o;
}

struct Emitter {
  ASTContext &Ctx;
  SourceManager &SM;
  std::string Root;
  llvm::raw_ostream &OS;
  // per-function state
  std::map<const Stmt *, int> StmtIds;
  std::map<const Decl *, int> DeclIds;
  int NextId = 0;
  std::vector<const OMPExecutableDirective *> OmpDirs;
  // records defined outside the root (library headers: z_stream, ...) whose members the code touches
  std::vector<const RecordDecl *> ExtRecs;

  Emitter(ASTContext &C, std::string R, llvm::raw_ostream &O)
      : Ctx(C), SM(C.getSourceManager()), Root(std::move(R)), OS(O) {}

  std::string fileOf(SourceLocation L) {
    if (L.isInvalid()) return "";
    SourceLocation E = SM.getExpansionLoc(L);
    return SM.getFilename(E).str();
  }
  bool inRoot(SourceLocation L) {
    std::string f = fileOf(L);
    return !f.empty() && f.compare(0, Root.size(), Root) == 0;
  }
  unsigned lineOf(SourceLocation L) {
    if (L.isInvalid()) return 0;
    return SM.getExpansionLineNumber(L);
  }
  unsigned colOf(SourceLocation L) {
    if (L.isInvalid()) return 0;
    return SM.getExpansionColumnNumber(L);
  }
  // name of the outermost macro whose expansion contains L (empty if none)
  std::string macroOf(SourceLocation L) {
    if (L.isInvalid() || !L.isMacroID()) return "";
    SourceLocation Cur = L;
    // walk up to the outermost expansion
    while (true) {
      SourceLocation Up = SM.getImmediateMacroCallerLoc(Cur);
      if (Up.isInvalid() || !Up.isMacroID()) break;
      Cur = Up;
    }
    return Lexer::getImmediateMacroName(Cur, SM, Ctx.getLangOpts()).str();
  }
  // innermost macro name
  std::string macroInner(SourceLocation L) {
    if (L.isInvalid() || !L.isMacroID()) return "";
    return Lexer::getImmediateMacroName(L, SM, Ctx.getLangOpts()).str();
  }

  std::string recordName(const RecordDecl *RD) {
    if (!RD) return "";
    if (RD->getIdentifier()) return RD->getName().str();
    if (const TypedefNameDecl *T = RD->getTypedefNameForAnonDecl())
      return T->getName().str();
    // anonymous record nested in another
    if (const auto *P = dyn_cast_or_null<RecordDecl>(RD->getDeclContext()))
      return recordName(P) + "::<anon>";
    return "<anon>";
  }

  int declId(const Decl *D) {
    auto It = DeclIds.find(D);
    if (It != DeclIds.end()) return It->second;
    int id = (int)DeclIds.size();
    DeclIds[D] = id;
    return id;
  }

  void emitType(QualType T) {
    OS << "\"" << jesc(T.getAsString()) << "\"";
  }

  // ---------------------------------------------------------------- stmts
  void emitStmt(const Stmt *S) {
    if (!S) { OS << "null"; return; }
    int id = NextId++;
    StmtIds[S] = id;
    OS << "{\"i\":" << id << ",\"k\":\"" << S->getStmtClassName() << "\"";
    SourceLocation B = S->getBeginLoc();
    OS << ",\"l\":" << lineOf(B) << ",\"col\":" << colOf(B);
    if (B.isMacroID()) {
      OS << ",\"m\":\"" << jesc(macroOf(B)) << "\"";
      std::string in = macroInner(B);
      OS << ",\"mi\":\"" << jesc(in) << "\"";
    }
    if (const auto *E = dyn_cast<Expr>(S)) {
      OS << ",\"t\":";
      emitType(E->getType());
      if (E->isLValue()) OS << ",\"lv\":1";
      // constant value for integral rvalues
      if (!E->isValueDependent() && E->getType()->isIntegralOrEnumerationType() &&
          !E->isLValue()) {
        Expr::EvalResult R;
        if (E->EvaluateAsInt(R, Ctx, Expr::SE_NoSideEffects)) {
          llvm::SmallString<32> str;
          R.Val.getInt().toString(str, 10);
          OS << ",\"cv\":" << str;
        }
      }
    }
    if (const auto *DR = dyn_cast<DeclRefExpr>(S)) {
      const ValueDecl *D = DR->getDecl();
      OS << ",\"n\":\"" << jesc(D->getNameAsString()) << "\"";
      if (const auto *VD = dyn_cast<VarDecl>(D)) {
        const char *kind = isa<ParmVarDecl>(VD) ? "param"
                           : VD->isFileVarDecl() ? "global"
                           : VD->isStaticLocal() ? "slocal"
                                                 : "local";
        OS << ",\"dk\":\"" << kind << "\",\"d\":" << declId(VD);
      } else if (isa<FunctionDecl>(D)) {
        OS << ",\"dk\":\"func\"";
      } else if (isa<EnumConstantDecl>(D)) {
        OS << ",\"dk\":\"enum\"";
      }
    } else if (const auto *ME = dyn_cast<MemberExpr>(S)) {
      const ValueDecl *D = ME->getMemberDecl();
      OS << ",\"n\":\"" << jesc(D->getNameAsString()) << "\"";
      if (const auto *FD = dyn_cast<FieldDecl>(D)) {
        OS << ",\"rec\":\"" << jesc(recordName(FD->getParent())) << "\"";
        if (FD->isAnonymousStructOrUnion()) OS << ",\"anon\":1";
        {
          const RecordDecl *PR = FD->getParent();
          if (PR && PR->isCompleteDefinition() && !inRoot(PR->getLocation()) &&
              std::find(ExtRecs.begin(), ExtRecs.end(), PR) == ExtRecs.end())
            ExtRecs.push_back(PR);
        }
      }
      if (ME->isArrow()) OS << ",\"arrow\":1";
    } else if (const auto *IL = dyn_cast<IntegerLiteral>(S)) {
      llvm::SmallString<32> str;
      IL->getValue().toString(str, 10, IL->getType()->isSignedIntegerType());
      OS << ",\"v\":" << str;
    } else if (const auto *CL = dyn_cast<CharacterLiteral>(S)) {
      OS << ",\"v\":" << CL->getValue();
    } else if (const auto *FL = dyn_cast<FloatingLiteral>(S)) {
      llvm::SmallString<32> str;
      FL->getValue().toString(str);
      OS << ",\"v\":\"" << jesc(str) << "\"";
    } else if (const auto *SL = dyn_cast<StringLiteral>(S)) {
      if (SL->isAscii() || SL->isUTF8())
        OS << ",\"v\":\"" << jesc(SL->getString()) << "\"";
    } else if (const auto *BO = dyn_cast<BinaryOperator>(S)) {
      OS << ",\"op\":\"" << jesc(BO->getOpcodeStr()) << "\"";
    } else if (const auto *UO = dyn_cast<UnaryOperator>(S)) {
      OS << ",\"op\":\"" << jesc(UnaryOperator::getOpcodeStr(UO->getOpcode())) << "\"";
      if (UO->isPostfix()) OS << ",\"post\":1";
    } else if (const auto *CE = dyn_cast<CallExpr>(S)) {
      if (const FunctionDecl *FD = CE->getDirectCallee()) {
        OS << ",\"callee\":\"" << jesc(FD->getNameAsString()) << "\"";
        if (FD->getBuiltinID()) OS << ",\"builtin\":1";
      }
    } else if (const auto *AE = dyn_cast<AtomicExpr>(S)) {
      // __atomic_* / __c11_atomic_* builtins: first child is the object's address
      auto op = AE->getOp();
      bool isLoad = op == AtomicExpr::AO__atomic_load_n || op == AtomicExpr::AO__atomic_load ||
                    op == AtomicExpr::AO__c11_atomic_load;
      OS << ",\"atomic\":\"" << (isLoad ? "load" : "rmw") << "\"";
    } else if (const auto *CA = dyn_cast<CastExpr>(S)) {
      OS << ",\"ck\":\"" << CA->getCastKindName() << "\"";
    } else if (const auto *UE = dyn_cast<UnaryExprOrTypeTraitExpr>(S)) {
      OS << ",\"trait\":\"" << getTraitSpelling(UE->getKind()) << "\"";
      if (UE->isArgumentType()) {
        OS << ",\"argt\":";
        emitType(UE->getArgumentType());
      }
    } else if (const auto *DS = dyn_cast<DeclStmt>(S)) {
      OS << ",\"decls\":[";
      bool first = true;
      for (const Decl *D : DS->decls()) {
        if (!first) OS << ",";
        first = false;
        if (const auto *VD = dyn_cast<VarDecl>(D)) {
          OS << "{\"n\":\"" << jesc(VD->getNameAsString()) << "\",\"d\":" << declId(VD)
             << ",\"t\":";
          emitType(VD->getType());
          if (VD->isStaticLocal()) OS << ",\"static\":1";
          if (VD->getTLSKind() != VarDecl::TLS_None) OS << ",\"tls\":1";
          if (VD->hasInit()) OS << ",\"hasinit\":1";
          OS << "}";
        } else {
          OS << "{\"other\":\"" << D->getDeclKindName() << "\"}";
        }
      }
      OS << "]";
    } else if (const auto *GS = dyn_cast<GotoStmt>(S)) {
      OS << ",\"label\":\"" << jesc(GS->getLabel()->getName()) << "\"";
    } else if (const auto *LS = dyn_cast<LabelStmt>(S)) {
      OS << ",\"label\":\"" << jesc(LS->getName()) << "\"";
    } else if (const auto *IE = dyn_cast<InitListExpr>(S)) {
      (void)IE;
    } else if (const auto *OD = dyn_cast<OMPExecutableDirective>(S)) {
      OmpDirs.push_back(OD);
      OS << ",\"omp\":\"" << jesc(getOpenMPDirectiveName(OD->getDirectiveKind())) << "\"";
      OS << ",\"clauses\":[";
      bool first = true;
      for (const OMPClause *C : OD->clauses()) {
        if (!C) continue;
        if (!first) OS << ",";
        first = false;
        OS << "\"" << jesc(getOpenMPClauseName(C->getClauseKind())) << "\"";
      }
      OS << "]";
    }
    // children
    OS << ",\"c\":[";
    bool first = true;
    if (const auto *OD = dyn_cast<OMPExecutableDirective>(S)) {
      // clause expressions first (num_threads(...), if(...)), then the body
      for (const OMPClause *C : OD->clauses()) {
        if (!C) continue;
        for (const Stmt *Ch : C->children()) {
          if (!Ch) continue;
          if (!first) OS << ",";
          first = false;
          emitStmt(Ch);
        }
      }
      if (OD->hasAssociatedStmt()) {
        // parallel/for/... capture their body; critical/atomic/master do not
        const Stmt *Body = OD->getAssociatedStmt();
        while (const auto *CS = dyn_cast_or_null<CapturedStmt>(Body))
          Body = CS->getCapturedStmt();
        if (!first) OS << ",";
        first = false;
        emitStmt(Body);
      }
    } else if (const auto *DS = dyn_cast<DeclStmt>(S)) {
      // children = initialisers in declaration order (null when absent)
      for (const Decl *D : DS->decls()) {
        if (!first) OS << ",";
        first = false;
        if (const auto *VD = dyn_cast<VarDecl>(D)) {
          if (VD->hasInit()) emitStmt(VD->getInit());
          else OS << "null";
        } else
          OS << "null";
      }
    } else {
      for (const Stmt *Ch : S->children()) {
        if (!first) OS << ",";
        first = false;
        emitStmt(Ch);
      }
    }
    OS << "]}";
  }

  // ---------------------------------------------------------------- CFG
  int idOf(const Stmt *S) {
    if (!S) return -1;
    auto It = StmtIds.find(S);
    if (It != StmtIds.end()) return It->second;
    return -1;
  }

  void emitCFG(const Decl *D, const Stmt *Body) {
    CFG::BuildOptions BO;
    BO.setAllAlwaysAdd();
    BO.PruneTriviallyFalseEdges = false;
    std::unique_ptr<CFG> G = CFG::buildCFG(D, const_cast<Stmt *>(Body), &Ctx, BO);
    if (!G) { OS << "null"; return; }
    OS << "{\"entry\":" << G->getEntry().getBlockID() << ",\"exit\":"
       << G->getExit().getBlockID() << ",\"blocks\":[";
    bool firstB = true;
    for (const CFGBlock *B : *G) {
      if (!firstB) OS << ",";
      firstB = false;
      OS << "{\"id\":" << B->getBlockID() << ",\"e\":[";
      bool first = true;
      for (const CFGElement &El : *B) {
        if (auto CS = El.getAs<CFGStmt>()) {
          const Stmt *S = CS->getStmt();
          int sid = idOf(S);
          if (sid < 0) {
            // synthesised DeclStmt for "int a, b;" -> map to the VarDecl's init owner
            if (const auto *DS = dyn_cast<DeclStmt>(S)) {
              if (DS->isSingleDecl()) {
                if (const auto *VD = dyn_cast<VarDecl>(DS->getSingleDecl())) {
                  if (!first) OS << ",";
                  first = false;
                  OS << "{\"synthdecl\":" << declId(VD) << ",\"init\":"
                     << (VD->hasInit() ? idOf(VD->getInit()) : -1) << "}";
                  continue;
                }
              }
            }
            continue;
          }
          if (!first) OS << ",";
          first = false;
          OS << sid;
        }
      }
      OS << "]";
      if (const Stmt *T = B->getTerminatorStmt()) {
        OS << ",\"term\":" << idOf(T);
        OS << ",\"tk\":\"" << T->getStmtClassName() << "\"";
        if (const Stmt *C = B->getTerminatorCondition(false))
          OS << ",\"cond\":" << idOf(C);
      }
      if (const Stmt *L = B->getLabel()) OS << ",\"label\":" << idOf(L);
      if (const Stmt *LT = B->getLoopTarget()) OS << ",\"loop\":" << idOf(LT);
      if (B->hasNoReturnElement()) OS << ",\"noreturn\":1";
      OS << ",\"s\":[";
      first = true;
      for (auto I = B->succ_begin(), E = B->succ_end(); I != E; ++I) {
        if (!first) OS << ",";
        first = false;
        const CFGBlock *SB = I->getReachableBlock();
        if (!SB) SB = I->getPossiblyUnreachableBlock();
        if (SB) OS << SB->getBlockID();
        else OS << "null";
      }
      OS << "]}";
    }
    OS << "]}";
  }

  // ---------------------------------------------------------------- decls
  void emitFunction(const FunctionDecl *FD) {
    StmtIds.clear();
    DeclIds.clear();
    OmpDirs.clear();
    NextId = 0;
    OS << "{\"name\":\"" << jesc(FD->getNameAsString()) << "\",\"file\":\""
       << jesc(fileOf(FD->getLocation())) << "\",\"line\":" << lineOf(FD->getLocation())
       << ",\"endline\":" << lineOf(FD->getEndLoc())
       << ",\"static\":" << (FD->getStorageClass() == SC_Static ? 1 : 0)
       << ",\"inline\":" << (FD->isInlineSpecified() ? 1 : 0) << ",\"ret\":";
    emitType(FD->getReturnType());
    OS << ",\"type\":";
    emitType(FD->getType());
    OS << ",\"params\":[";
    bool first = true;
    for (const ParmVarDecl *P : FD->parameters()) {
      if (!first) OS << ",";
      first = false;
      OS << "{\"n\":\"" << jesc(P->getNameAsString()) << "\",\"d\":" << declId(P) << ",\"t\":";
      emitType(P->getType());
      OS << "}";
    }
    OS << "],\"body\":";
    emitStmt(FD->getBody());
    OS << ",\"cfg\":";
    emitCFG(FD, FD->getBody());
    OS << ",\"ompcfgs\":[";
    first = true;
    // copy: emitCFG does not add directives
    std::vector<const OMPExecutableDirective *> Dirs = OmpDirs;
    for (const OMPExecutableDirective *OD : Dirs) {
      if (!OD->hasAssociatedStmt()) continue;
      if (!isa<CapturedStmt>(OD->getAssociatedStmt())) continue;
      const CapturedStmt *CS = OD->getInnermostCapturedStmt();
      if (!first) OS << ",";
      first = false;
      OS << "{\"dir\":" << idOf(OD) << ",\"cfg\":";
      emitCFG(CS->getCapturedDecl(), CS->getCapturedStmt());
      OS << "}";
    }
    OS << "]}";
  }

  void emitRecord(const RecordDecl *RD) {
    OS << "{\"name\":\"" << jesc(recordName(RD)) << "\",\"kind\":\""
       << (RD->isUnion() ? "union" : "struct") << "\",\"file\":\""
       << jesc(fileOf(RD->getLocation())) << "\",\"line\":" << lineOf(RD->getLocation())
       << ",\"fields\":[";
    bool first = true;
    const ASTRecordLayout *Layout = nullptr;
    if (!RD->isInvalidDecl() && RD->isCompleteDefinition() && !RD->isDependentType())
      Layout = &Ctx.getASTRecordLayout(RD);
    unsigned idx = 0;
    for (const FieldDecl *F : RD->fields()) {
      if (!first) OS << ",";
      first = false;
      OS << "{\"n\":\"" << jesc(F->getNameAsString()) << "\",\"t\":";
      emitType(F->getType());
      if (Layout) OS << ",\"off\":" << Layout->getFieldOffset(idx);
      if (F->isAnonymousStructOrUnion()) {
        OS << ",\"anon\":1";
        if (const RecordType *RT = F->getType()->getAs<RecordType>())
          OS << ",\"anonrec\":\"" << jesc(recordName(RT->getDecl())) << "\"";
      }
      if (const auto *AT = Ctx.getAsConstantArrayType(F->getType())) {
        llvm::SmallString<32> str;
        AT->getSize().toString(str, 10, false);
        OS << ",\"alen\":" << str;
      }
      OS << "}";
      idx++;
    }
    OS << "]";
    if (Layout) OS << ",\"size\":" << Layout->getSize().getQuantity();
    OS << "}";
  }

  void emitEnum(const EnumDecl *ED) {
    std::string name = ED->getIdentifier() ? ED->getName().str() : "";
    if (name.empty())
      if (const TypedefNameDecl *T = ED->getTypedefNameForAnonDecl()) name = T->getName().str();
    OS << "{\"name\":\"" << jesc(name) << "\",\"file\":\"" << jesc(fileOf(ED->getLocation()))
       << "\",\"line\":" << lineOf(ED->getLocation()) << ",\"consts\":[";
    bool first = true;
    for (const EnumConstantDecl *C : ED->enumerators()) {
      if (!first) OS << ",";
      first = false;
      llvm::SmallString<32> str;
      C->getInitVal().toString(str, 10);
      OS << "[\"" << jesc(C->getNameAsString()) << "\"," << str << "]";
    }
    OS << "]}";
  }

  void emitGlobal(const VarDecl *VD) {
    StmtIds.clear();
    DeclIds.clear();
    NextId = 0;
    OS << "{\"name\":\"" << jesc(VD->getNameAsString()) << "\",\"file\":\""
       << jesc(fileOf(VD->getLocation())) << "\",\"line\":" << lineOf(VD->getLocation())
       << ",\"t\":";
    emitType(VD->getType());
    OS << ",\"static\":" << (VD->getStorageClass() == SC_Static ? 1 : 0)
       << ",\"extern\":" << (VD->getStorageClass() == SC_Extern ? 1 : 0)
       << ",\"tls\":" << (VD->getTLSKind() != VarDecl::TLS_None ? 1 : 0)
       << ",\"const\":" << (VD->getType().isConstQualified() ||
                                    (VD->getType()->isArrayType() &&
                                     Ctx.getBaseElementType(VD->getType()).isConstQualified())
                                ? 1 : 0)
       << ",\"volatile\":" << (VD->getType().isVolatileQualified() ? 1 : 0)
       << ",\"def\":" << (VD->isThisDeclarationADefinition() != VarDecl::DeclarationOnly ? 1 : 0);
    if (VD->hasInit()) {
      OS << ",\"init\":";
      emitStmt(VD->getInit());
    }
    OS << "}";
  }

  void emitFuncDecl(const FunctionDecl *FD) {
    OS << "{\"name\":\"" << jesc(FD->getNameAsString()) << "\",\"file\":\""
       << jesc(fileOf(FD->getLocation())) << "\",\"line\":" << lineOf(FD->getLocation())
       << ",\"type\":";
    emitType(FD->getType());
    OS << ",\"ctype\":";
    emitType(FD->getType().getCanonicalType());
    OS << ",\"def\":" << (FD->isThisDeclarationADefinition() ? 1 : 0)
       << ",\"static\":" << (FD->getStorageClass() == SC_Static ? 1 : 0)
       << ",\"extern\":" << (FD->getStorageClass() == SC_Extern ? 1 : 0);
    OS << ",\"attrs\":[";
    bool first = true;
    for (const Attr *A : FD->attrs()) {
      if (!first) OS << ",";
      first = false;
      OS << "\"" << jesc(A->getSpelling()) << "\"";
    }
    OS << "]}";
  }
};

class FactsConsumer : public ASTConsumer {
  std::string Root, Out;

public:
  FactsConsumer(std::string R, std::string O) : Root(std::move(R)), Out(std::move(O)) {}

  void HandleTranslationUnit(ASTContext &Ctx) override {
    std::error_code EC;
    llvm::raw_fd_ostream OS(Out, EC);
    if (EC) {
      llvm::errs() << "carqfacts: cannot open " << Out << ": " << EC.message() << "\n";
      return;
    }
    Emitter E(Ctx, Root, OS);
    SourceManager &SM = Ctx.getSourceManager();
    std::string Main = SM.getFileEntryForID(SM.getMainFileID())
                           ? SM.getFileEntryForID(SM.getMainFileID())->getName().str()
                           : "";
    OS << "{\"main\":\"" << jesc(Main) << "\"";
    std::vector<const RecordDecl *> Recs;
    std::vector<const EnumDecl *> Enums;
    std::vector<const VarDecl *> Vars;
    std::vector<const FunctionDecl *> FDecls, FDefs;
    collect(Ctx.getTranslationUnitDecl(), E, Recs, Enums, Vars, FDecls, FDefs);
    OS << ",\"records\":[";
    for (size_t i = 0; i < Recs.size(); i++) { if (i) OS << ","; E.emitRecord(Recs[i]); }
    OS << "],\"enums\":[";
    for (size_t i = 0; i < Enums.size(); i++) { if (i) OS << ","; E.emitEnum(Enums[i]); }
    OS << "],\"globals\":[";
    for (size_t i = 0; i < Vars.size(); i++) { if (i) OS << ","; E.emitGlobal(Vars[i]); }
    OS << "],\"funcdecls\":[";
    for (size_t i = 0; i < FDecls.size(); i++) { if (i) OS << ","; E.emitFuncDecl(FDecls[i]); }
    OS << "],\"functions\":[";
    for (size_t i = 0; i < FDefs.size(); i++) { if (i) OS << ",\n"; E.emitFunction(FDefs[i]); }
    OS << "],\"extrecords\":[";
    {
      std::vector<const RecordDecl *> Ext = E.ExtRecs;      // emitRecord may not add to it, but copy anyway
      for (size_t i = 0; i < Ext.size(); i++) { if (i) OS << ","; E.emitRecord(Ext[i]); }
    }
    OS << "]}\n";
  }

  void collect(const DeclContext *DC, Emitter &E, std::vector<const RecordDecl *> &Recs,
               std::vector<const EnumDecl *> &Enums, std::vector<const VarDecl *> &Vars,
               std::vector<const FunctionDecl *> &FDecls,
               std::vector<const FunctionDecl *> &FDefs) {
    for (const Decl *D : DC->decls()) {
      if (!E.inRoot(D->getLocation())) continue;
      if (const auto *RD = dyn_cast<RecordDecl>(D)) {
        if (RD->isCompleteDefinition()) {
          Recs.push_back(RD);
          collectNested(RD, E, Recs, Enums);
        }
      } else if (const auto *ED = dyn_cast<EnumDecl>(D)) {
        if (ED->isCompleteDefinition()) Enums.push_back(ED);
      } else if (const auto *VD = dyn_cast<VarDecl>(D)) {
        Vars.push_back(VD);
      } else if (const auto *FD = dyn_cast<FunctionDecl>(D)) {
        FDecls.push_back(FD);
        if (FD->isThisDeclarationADefinition() && FD->hasBody()) FDefs.push_back(FD);
      }
    }
  }
  void collectNested(const RecordDecl *RD, Emitter &E, std::vector<const RecordDecl *> &Recs,
                     std::vector<const EnumDecl *> &Enums) {
    for (const Decl *D : RD->decls()) {
      if (const auto *N = dyn_cast<RecordDecl>(D)) {
        if (N->isCompleteDefinition()) {
          Recs.push_back(N);
          collectNested(N, E, Recs, Enums);
        }
      } else if (const auto *ED = dyn_cast<EnumDecl>(D)) {
        if (ED->isCompleteDefinition()) Enums.push_back(ED);
      }
    }
  }
};

class FactsAction : public PluginASTAction {
  std::string Root = "/repo", Out = "/dev/stdout";

protected:
  std::unique_ptr<ASTConsumer> CreateASTConsumer(CompilerInstance &, llvm::StringRef) override {
    return std::make_unique<FactsConsumer>(Root, Out);
  }
  bool ParseArgs(const CompilerInstance &, const std::vector<std::string> &Args) override {
    for (const std::string &A : Args) {
      if (A.compare(0, 5, "root=") == 0) Root = A.substr(5);
      else if (A.compare(0, 4, "out=") == 0) Out = A.substr(4);
    }
    return true;
  }
  PluginASTAction::ActionType getActionType() override { return ReplaceAction; }
};

} // namespace

static FrontendPluginRegistry::Add<FactsAction> X("carqfacts", "dump carquet facts as JSON");
