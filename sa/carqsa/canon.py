"""Canonical (alpha-normalised, definition-inlined) expression trees.

canon(expr) turns an expression of a function into a nested tuple in which
  * parentheses and implicit casts are gone, explicit casts are kept as ('cast', type, x)
    unless they do not change the canonical type,
  * a local variable with exactly one definition (initialiser or one plain assignment),
    never otherwise modified and whose address is not taken, is replaced by the canonical
    form of its definition (so introducing or renaming temporaries changes nothing),
  * parameters are named by position, remaining locals by order of first appearance,
  * operands of commutative operators are sorted,
  * integer constant expressions (macros, enum constants, sizeof) are folded to ('int', v).
Two expressions from different functions with the same canonical tree compute the
same value from corresponding inputs.
"""
from .facts import Node

COMMUTATIVE = {"*", "+", "&", "|", "^", "==", "!=", "&&", "||"}


class LocalInfo:
    """Per-function summary of how each local/param is defined and modified."""

    def __init__(self, fn):
        self.fn = fn
        self.defs = {}      # decl id -> list of defining expr nodes (init or rhs of '=')
        self.modified = set()   # decl ids modified by ++/--/compound assign or address taken
        self.types = {}
        self.names = {}
        self.param_index = {}
        for idx, p in enumerate(fn.params):
            self.param_index[p["d"]] = idx
            self.types[p["d"]] = p["t"]
            self.names[p["d"]] = p["n"]
        for n in fn.body.walk():
            if n.k == "DeclStmt":
                for d, init in zip(n.get("decls", []), n.c):
                    if "d" in d:
                        self.types[d["d"]] = d["t"]
                        self.names[d["d"]] = d["n"]
                        if init is not None:
                            self.defs.setdefault(d["d"], []).append(init)
                        else:
                            self.defs.setdefault(d["d"], [])
            elif n.k == "BinaryOperator" and n.op == "=":
                lhs = n.c[0].strip()
                if lhs.k == "DeclRefExpr" and lhs.get("d") is not None:
                    self.defs.setdefault(lhs.get("d"), []).append(n.c[1])
            elif n.k == "CompoundAssignOperator":
                lhs = n.c[0].strip()
                if lhs.k == "DeclRefExpr" and lhs.get("d") is not None:
                    self.modified.add(lhs.get("d"))
            elif n.k == "UnaryOperator" and n.op in ("++", "--", "&"):
                tgt = n.c[0].strip()
                if tgt.k == "DeclRefExpr" and tgt.get("d") is not None:
                    # taking the address of an array/struct local for a call is a modification
                    self.modified.add(tgt.get("d"))

    def single_def(self, d):
        if d in self.param_index:
            # a parameter re-assigned in the body is not substitutable either way
            return None
        if d in self.modified:
            return None
        ds = self.defs.get(d)
        if ds is not None and len(ds) == 1:
            return ds[0]
        return None

    def param_reassigned(self, d):
        return d in self.modified or bool(self.defs.get(d))


_info_cache = {}


def info(fn):
    li = fn.__dict__.get("_local_info")
    if li is None:
        li = fn.__dict__["_local_info"] = LocalInfo(fn)
    return li


def _ctype(t):
    if t is None:
        return None
    t = t.replace("const ", "").replace("volatile ", "").strip()
    return t


class Canon:
    def __init__(self, fn, inline=True, keep_local_names=False, max_depth=12):
        self.fn = fn
        self.li = info(fn) if fn is not None else None
        self.inline = inline
        self.alpha = {}
        self.keep = keep_local_names
        self.max_depth = max_depth

    def __call__(self, n, depth=0):
        return self.c(n, depth)

    def c(self, n, depth=0):
        if n is None:
            return ("none",)
        k = n.k
        if k in ("ParenExpr", "ImplicitCastExpr", "ConstantExpr"):
            return self.c(n.c[0], depth) if n.c else ("none",)
        # fold integer constants (but never lvalues)
        if n.cv is not None and (k != "DeclRefExpr" or n.get("dk") == "enum"):
            return ("int", n.cv)
        if k == "CStyleCastExpr":
            inner = self.c(n.c[0], depth)
            return ("cast", _ctype(n.t), inner)
        if k == "DeclRefExpr":
            dk = n.get("dk")
            if dk in ("param", "local", "slocal"):
                d = n.get("d")
                if self.keep == "id" and dk == "param":
                    return ("local", "%s#%s" % (n.name, d), _ctype(n.t))
                if dk == "param" and d in self.li.param_index and not self.li.param_reassigned(d):
                    return ("param", self.li.param_index[d], _ctype(n.t))
                if self.inline and depth < self.max_depth and dk == "local":
                    df = self.li.single_def(d)
                    if df is not None and df.k != "InitListExpr":
                        return self.c(df, depth + 1)
                if self.keep == "id":
                    return ("local", "%s#%s" % (n.name, d), _ctype(n.t))
                if self.keep:
                    return ("local", n.name, _ctype(n.t))
                if d not in self.alpha:
                    self.alpha[d] = len(self.alpha)
                return ("local", self.alpha[d], _ctype(n.t))
            if dk == "global":
                return ("global", n.name)
            if dk == "func":
                return ("func", n.name)
            return ("ref", n.name)
        if k == "MemberExpr":
            base = self.c(n.c[0], depth) if n.c else ("none",)
            if n.get("anon"):
                return base
            return ("member", base, n.name)
        if k == "IntegerLiteral":
            return ("int", n.get("v"))
        if k == "CharacterLiteral":
            return ("int", n.get("v"))
        if k == "FloatingLiteral":
            return ("float", n.get("v"))
        if k == "StringLiteral":
            return ("str", n.get("v"))
        if k in ("BinaryOperator", "CompoundAssignOperator"):
            a = self.c(n.c[0], depth)
            b = self.c(n.c[1], depth)
            op = n.op
            if op in COMMUTATIVE and repr(b) < repr(a):
                a, b = b, a
            # normalise a > b to b < a
            if op == ">":
                op, a, b = "<", b, a
            elif op == ">=":
                op, a, b = "<=", b, a
            return ("bin", op, a, b)
        if k == "UnaryOperator":
            return ("un", n.op + ("post" if n.get("post") else ""), self.c(n.c[0], depth))
        if k == "CallExpr":
            fn = n.callee
            head = ("func", fn) if fn else self.c(n.c[0], depth)
            return ("call", head) + tuple(self.c(a, depth) for a in n.c[1:])
        if k == "ArraySubscriptExpr":
            return ("index", self.c(n.c[0], depth), self.c(n.c[1], depth))
        if k == "ConditionalOperator":
            return ("cond",) + tuple(self.c(x, depth) for x in n.c[:3])
        if k == "UnaryExprOrTypeTraitExpr":
            return ("trait", n.get("trait"), n.get("argt") or (self.c(n.c[0], depth) if n.c else None))
        if k == "InitListExpr":
            return ("initlist",) + tuple(self.c(x, depth) for x in n.kids())
        if k == "CompoundLiteralExpr":
            return ("cast", _ctype(n.t), self.c(n.c[0], depth) if n.c else ("none",))
        return (k,) + tuple(self.c(x, depth) for x in n.kids())


def canon(n, inline=True):
    return Canon(n.fn, inline)(n)


def show(t):
    """Readable rendering of a canonical tree."""
    if not isinstance(t, tuple):
        return str(t)
    h = t[0]
    if h == "int":
        return str(t[1])
    if h == "param":
        return "arg%d" % t[1]
    if h == "local":
        return "v%s" % t[1]
    if h in ("global", "func", "ref"):
        return str(t[1])
    if h == "member":
        return "%s.%s" % (show(t[1]), t[2])
    if h == "bin":
        return "(%s %s %s)" % (show(t[2]), t[1], show(t[3]))
    if h == "un":
        return "%s(%s)" % (t[1], show(t[2]))
    if h == "cast":
        return "(%s)%s" % (t[1], show(t[2]))
    if h == "index":
        return "%s[%s]" % (show(t[1]), show(t[2]))
    if h == "call":
        return "%s(%s)" % (show(t[1]), ", ".join(show(x) for x in t[2:]))
    if h == "cond":
        return "(%s ? %s : %s)" % (show(t[1]), show(t[2]), show(t[3]))
    return "%s(%s)" % (h, ", ".join(show(x) for x in t[1:]))


def subtrees(t):
    if isinstance(t, tuple):
        yield t
        for x in t[1:]:
            for s in subtrees(x):
                yield s


def strip_casts(t):
    while isinstance(t, tuple) and t and t[0] == "cast":
        t = t[2]
    return t


def fold(t):
    """Fold constants in +/- chains: (x + 32) - 1 -> (31 + x). Other nodes are rebuilt."""
    if not isinstance(t, tuple):
        return t
    if t[0] == "bin" and t[1] in ("+", "-"):
        terms = []
        const = [0]

        def gather(x, sign):
            if isinstance(x, tuple) and x[0] == "bin" and x[1] in ("+", "-"):
                gather(x[2], sign)
                gather(x[3], sign if x[1] == "+" else -sign)
            elif isinstance(x, tuple) and x[0] == "int" and isinstance(x[1], int):
                const[0] += sign * x[1]
            else:
                terms.append((sign, fold(x)))
        gather(t, 1)
        pos = sorted([x for s, x in terms if s > 0], key=repr)
        neg = sorted([x for s, x in terms if s < 0], key=repr)
        acc = None
        if const[0] != 0 or not pos:
            acc = ("int", const[0])
        for x in pos:
            acc = x if acc is None else ("bin", "+", acc, x)
        for x in neg:
            acc = ("bin", "-", acc, x)
        return acc
    return tuple(fold(x) for x in t)
