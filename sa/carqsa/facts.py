"""Loader for the JSON facts produced by the carqfacts plugin."""
import json
import os

from .extract import AnalysisBroken


class Node:
    __slots__ = ("i", "k", "l", "col", "t", "a", "c", "parent", "fn")

    def __init__(self, d, parent, fn):
        self.i = d["i"]
        self.k = d["k"]
        self.l = d.get("l", 0)
        self.col = d.get("col", 0)
        self.t = d.get("t")
        self.a = d  # raw attributes
        self.parent = parent
        self.fn = fn
        self.c = [Node(x, self, fn) if x is not None else None for x in d.get("c", [])]

    # -- attribute helpers
    def get(self, k, default=None):
        return self.a.get(k, default)

    @property
    def op(self):
        return self.a.get("op")

    @property
    def name(self):
        return self.a.get("n")

    @property
    def callee(self):
        return self.a.get("callee")

    @property
    def cv(self):
        return self.a.get("cv")

    @property
    def macro(self):
        return self.a.get("m")

    def kids(self):
        return [x for x in self.c if x is not None]

    def walk(self):
        stack = [self]
        while stack:
            n = stack.pop()
            yield n
            for ch in reversed(n.c):
                if ch is not None:
                    stack.append(ch)

    def strip(self):
        """Skip parens, implicit casts and (optionally) explicit value-preserving casts."""
        n = self
        while n is not None and n.k in ("ParenExpr", "ImplicitCastExpr", "ConstantExpr") and n.c:
            n = n.c[0]
        return n

    def strip_casts(self):
        n = self
        while n is not None and n.k in ("ParenExpr", "ImplicitCastExpr", "CStyleCastExpr",
                                        "ConstantExpr") and n.c:
            n = n.c[0]
        return n

    def ancestors(self):
        p = self.parent
        while p is not None:
            yield p
            p = p.parent

    def is_call(self, *names):
        return self.k == "CallExpr" and (not names or self.callee in names)

    def args(self):
        assert self.k == "CallExpr"
        return self.c[1:]

    def loc(self):
        f = self.fn.file if self.fn is not None else "?"
        return "%s:%d" % (f, self.l)

    def __repr__(self):
        return "<%s#%d %s @%d>" % (self.k, self.i, src(self)[:60], self.l)


_PREC = {"*": 12, "/": 12, "%": 12, "+": 11, "-": 11, "<<": 10, ">>": 10, "<": 9, "<=": 9, ">": 9,
         ">=": 9, "==": 8, "!=": 8, "&": 7, "^": 6, "|": 5, "&&": 4, "||": 3}


def src(n, keep_casts=False):
    """Normalised C-like rendering of an expression/statement subtree.

    Parentheses and implicit casts are dropped; explicit casts are dropped unless
    keep_casts. Local names are kept. Used for reports and for *structural*
    comparison of small expressions (never compared against frozen text)."""
    if n is None:
        return ""
    k = n.k
    if k in ("ParenExpr", "ImplicitCastExpr", "ConstantExpr"):
        return src(n.c[0], keep_casts) if n.c else ""
    if k == "CStyleCastExpr":
        inner = src(n.c[0], keep_casts)
        return "(%s)%s" % (n.t, inner) if keep_casts else inner
    if k == "DeclRefExpr":
        return n.name
    if k == "MemberExpr":
        base = src(n.c[0], keep_casts) if n.c else ""
        if n.get("anon"):
            return base
        return "%s%s%s" % (base, "->" if n.get("arrow") else ".", n.name)
    if k == "IntegerLiteral":
        return str(n.get("v"))
    if k == "CharacterLiteral":
        return str(n.get("v"))
    if k == "FloatingLiteral":
        return str(n.get("v"))
    if k == "StringLiteral":
        return json.dumps(n.get("v", ""))
    if k in ("BinaryOperator", "CompoundAssignOperator"):
        return "(%s %s %s)" % (src(n.c[0], keep_casts), n.op, src(n.c[1], keep_casts))
    if k == "UnaryOperator":
        if n.get("post"):
            return "%s%s" % (src(n.c[0], keep_casts), n.op)
        return "%s%s" % (n.op, src(n.c[0], keep_casts))
    if k == "CallExpr":
        fn = n.callee or src(n.c[0], keep_casts)
        return "%s(%s)" % (fn, ", ".join(src(a, keep_casts) for a in n.c[1:]))
    if k == "ArraySubscriptExpr":
        return "%s[%s]" % (src(n.c[0], keep_casts), src(n.c[1], keep_casts))
    if k == "ConditionalOperator":
        return "(%s ? %s : %s)" % tuple(src(x, keep_casts) for x in n.c[:3])
    if k == "UnaryExprOrTypeTraitExpr":
        if n.get("argt"):
            return "%s(%s)" % (n.get("trait"), n.get("argt"))
        return "%s(%s)" % (n.get("trait"), src(n.c[0], keep_casts) if n.c else "")
    if k == "ReturnStmt":
        return "return %s" % (src(n.c[0], keep_casts) if n.c and n.c[0] else "")
    if k == "DeclStmt":
        out = []
        for d, init in zip(n.get("decls", []), n.c):
            if "n" in d:
                out.append("%s %s%s" % (d["t"], d["n"], " = " + src(init, keep_casts) if init else ""))
        return "; ".join(out)
    if k == "InitListExpr":
        return "{%s}" % ", ".join(src(x, keep_casts) for x in n.kids())
    if k == "CompoundLiteralExpr":
        return "(%s)%s" % (n.t, src(n.c[0], keep_casts) if n.c else "")
    if k == "IfStmt":
        return "if (%s) ..." % src(n.c[0] if n.c else None, keep_casts)
    if k == "GotoStmt":
        return "goto %s" % n.get("label")
    if k == "ImplicitValueInitExpr":
        return "{}"
    if k == "StmtExpr":
        return "({...})"
    return "<%s>" % k


def _leaf_cond(cond, tk):
    """clang reports the whole `a && b` expression as the condition of an if/while/for block even
    though that block only evaluates the last operand; normalise to the operand decided here."""
    if cond is None or tk == "SwitchStmt":
        return cond
    n = cond
    while True:
        x = n.strip()
        if x is not None and x.k == "BinaryOperator" and x.op in ("&&", "||") and x.c[1] is not None:
            n = x.c[1]
        else:
            return n


class Block:
    __slots__ = ("id", "elems", "term", "tk", "cond", "label", "loop", "succs", "preds", "noreturn",
                 "synth")

    def __init__(self):
        self.preds = []


class CFG:
    def __init__(self, d, nodes):
        self.entry = d["entry"]
        self.exit = d["exit"]
        self.blocks = {}
        for b in d["blocks"]:
            B = Block()
            B.id = b["id"]
            B.elems = []
            B.synth = []
            for e in b["e"]:
                if isinstance(e, int):
                    if e >= 0 and e in nodes:
                        B.elems.append(nodes[e])
                elif isinstance(e, dict):
                    B.synth.append(e)
                    ini = e.get("init", -1)
                    # a synthesised single DeclStmt: keep the initialiser order fact
                    if ini is not None and ini >= 0 and ini in nodes:
                        pass
            B.term = nodes.get(b.get("term", -1))
            B.tk = b.get("tk")
            B.cond = nodes.get(b.get("cond", -1))
            B.cond = _leaf_cond(B.cond, b.get("tk"))
            B.label = nodes.get(b.get("label", -1))
            B.loop = nodes.get(b.get("loop", -1))
            B.noreturn = bool(b.get("noreturn"))
            B.succs = list(b["s"])
            self.blocks[B.id] = B
        for B in self.blocks.values():
            for s in B.succs:
                if s is not None and s in self.blocks:
                    self.blocks[s].preds.append(B.id)
        self._dom = None
        self._pdom = None
        self._where = None

    # location of every node in the CFG: node id -> (block id, index)
    def where(self):
        if self._where is None:
            w = {}
            for B in self.blocks.values():
                for idx, e in enumerate(B.elems):
                    w.setdefault(e.i, (B.id, idx))
            self._where = w
        return self._where

    def succ(self, bid):
        return [s for s in self.blocks[bid].succs if s is not None]

    def rpo(self):
        seen = set()
        order = []
        stack = [(self.entry, iter(self.succ(self.entry)))]
        seen.add(self.entry)
        while stack:
            b, it = stack[-1]
            adv = False
            for s in it:
                if s not in seen:
                    seen.add(s)
                    stack.append((s, iter(self.succ(s))))
                    adv = True
                    break
            if not adv:
                order.append(b)
                stack.pop()
        order.reverse()
        return order

    def reachable(self):
        return set(self.rpo())

    def dominators(self):
        """Immediate-dominator based dominator sets (iterative, small graphs)."""
        if self._dom is not None:
            return self._dom
        order = self.rpo()
        allb = set(order)
        dom = {b: set(allb) for b in order}
        dom[self.entry] = {self.entry}
        changed = True
        while changed:
            changed = False
            for b in order:
                if b == self.entry:
                    continue
                ps = [p for p in self.blocks[b].preds if p in dom]
                if ps:
                    new = set.intersection(*(dom[p] for p in ps)) | {b}
                else:
                    new = {b}
                if new != dom[b]:
                    dom[b] = new
                    changed = True
        self._dom = dom
        return dom

    def postdominators(self):
        if self._pdom is not None:
            return self._pdom
        # reverse graph from exit
        rsucc = {b: list(set(self.blocks[b].preds)) for b in self.blocks}
        seen = {self.exit}
        order = []
        stack = [(self.exit, iter(rsucc[self.exit]))]
        while stack:
            b, it = stack[-1]
            adv = False
            for s in it:
                if s not in seen:
                    seen.add(s)
                    stack.append((s, iter(rsucc[s])))
                    adv = True
                    break
            if not adv:
                order.append(b)
                stack.pop()
        order.reverse()
        allb = set(order)
        pdom = {b: set(allb) for b in order}
        pdom[self.exit] = {self.exit}
        changed = True
        while changed:
            changed = False
            for b in order:
                if b == self.exit:
                    continue
                ss = [s for s in self.succ(b) if s in pdom]
                new = (set.intersection(*(pdom[s] for s in ss)) if ss else set()) | {b}
                if new != pdom[b]:
                    pdom[b] = new
                    changed = True
        self._pdom = pdom
        return pdom

    def node_dominates(self, a, b):
        """True when CFG element a (Node) is executed on every path before element b."""
        w = self.where()
        if a.i not in w or b.i not in w:
            return False
        (ba, ia), (bb, ib) = w[a.i], w[b.i]
        if ba == bb:
            return ia < ib
        dom = self.dominators()
        return bb in dom and ba in dom[bb]


def _writes_params(d):
    """True when a function body assigns to / increments one of its parameters (then textual
    substitution of arguments would not be faithful)."""
    if d is None:
        return False
    k = d.get("k")
    if k in ("BinaryOperator", "CompoundAssignOperator") and d.get("op") in (
            "=", "+=", "-=", "*=", "/=", "%=", "<<=", ">>=", "&=", "|=", "^=") and d.get("c"):
        x = d["c"][0]
        while x is not None and x.get("k") in ("ParenExpr", "ImplicitCastExpr") and x.get("c"):
            x = x["c"][0]
        if x is not None and x.get("k") == "DeclRefExpr" and x.get("dk") == "param":
            return True
    if k == "UnaryOperator" and d.get("op") in ("++", "--") and d.get("c"):
        x = d["c"][0]
        while x is not None and x.get("k") in ("ParenExpr", "ImplicitCastExpr") and x.get("c"):
            x = x["c"][0]
        if x is not None and x.get("k") == "DeclRefExpr" and x.get("dk") == "param":
            return True
    return any(_writes_params(x) for x in d.get("c", []) if x is not None)


class Function:
    def __init__(self, d, unit):
        self.name = d["name"]
        self.file = d["file"]
        self.line = d["line"]
        self.endline = d.get("endline", d["line"])
        self.static = bool(d["static"])
        self.inline = bool(d.get("inline"))
        self.ret = d["ret"]
        self.type = d["type"]
        self.params = d["params"]
        self.unit = unit
        self.raw = d
        self.body = Node(d["body"], None, self)
        self.nodes = {n.i: n for n in self.body.walk()}
        self.cfg = CFG(d["cfg"], self.nodes) if d.get("cfg") else None
        self.ompcfgs = {}
        for o in d.get("ompcfgs", []):
            if o.get("cfg"):
                self.ompcfgs[o["dir"]] = CFG(o["cfg"], self.nodes)

    @property
    def relfile(self):
        return self.file

    def key(self):
        return (self.file, self.name)

    def calls(self, *names):
        return [n for n in self.body.walk() if n.k == "CallExpr" and (not names or n.callee in names)]

    def returns(self):
        return [n for n in self.body.walk() if n.k == "ReturnStmt"]

    def param_names(self):
        return [p["n"] for p in self.params]

    def __repr__(self):
        return "<fn %s %s:%d>" % (self.name, self.file, self.line)


class Program:
    def __init__(self, cdir, repo="/repo"):
        self.repo = repo
        self.cdir = cdir
        meta = json.load(open(os.path.join(cdir, "meta.json")))
        self.units = meta["units"]
        self.unit_flags = {u["file"]: u["flags"] for u in self.units}
        self.functions = {}      # (file, name) -> Function
        self.by_name = {}        # name -> [Function]
        self.records = {}        # name -> record dict (first seen) ; all in records_all
        self.records_all = []    # (unit, record)
        self.enums = {}
        self.enum_consts = {}
        self.globals = []        # (unit, global dict with 'init' Node)
        self.funcdecls = []      # (unit, decl)
        loaded = [json.load(open(os.path.join(cdir, u["facts"]))) for u in self.units]
        from . import renames
        self.renamed = renames.normalise(loaded, self.rel)
        for d in loaded:
            main = d["main"]
            for r in d["records"]:
                self.records_all.append((main, r))
                self.records.setdefault(r["name"], r)
            for r in d.get("extrecords", []):
                # records of library headers whose members the unit touches (z_stream, ...): layout only,
                # never part of records_all (the cross-unit layout comparison is about the repo's own records)
                self.records.setdefault(r["name"], r)
            for e in d["enums"]:
                self.enums.setdefault(e["name"], e)
                for cn, cvv in e["consts"]:
                    self.enum_consts[cn] = cvv
            for g in d["globals"]:
                if "init" in g and g["init"] is not None:
                    g = dict(g)
                    g["init"] = Node(g["init"], None, None)
                self.globals.append((main, g))
            for fd in d["funcdecls"]:
                self.funcdecls.append((main, fd))
            for f in d["functions"]:
                key = (f["file"], f["name"])
                if key in self.functions:
                    continue  # header inline function already loaded from another unit
                F = Function(f, main)
                self.functions[key] = F
                self.by_name.setdefault(F.name, []).append(F)

    # -- helper expansion -------------------------------------------------------------------
    def inlined(self, fn, depth=2, keep=()):
        """A view of fn in which calls to static helpers of the same file are expanded in place
        (parameters replaced by the argument expressions): what a maintainer extracts into a helper
        stays visible to the rules that read the syntax tree. Single-`return expr` helpers become the
        expression itself; other helpers become an `InlinedCall` node holding the substituted body.
        Nodes of fn itself keep their ids (so fn.cfg still locates them); the view has no CFG."""
        key = (fn.file, fn.name, depth, tuple(sorted(keep)))
        cache = self.__dict__.setdefault("_inl", {})
        if key in cache:
            return cache[key]
        counter = [10 ** 7]
        body = self._inline_dict(fn, fn.raw["body"], depth, (fn.name,) + tuple(keep), counter, None, 0)
        d2 = dict(fn.raw)
        d2["body"] = body
        d2["cfg"] = None
        d2["ompcfgs"] = []
        v = Function(d2, fn.unit)
        v.cfg = None
        v.origin = fn
        cache[key] = v
        return v

    def _helper(self, caller, name, stack):
        if name in stack:
            return None
        for g in self.by_name.get(name, []):
            if g.file == caller.file and g.static and g.raw.get("body"):
                return g
        return None

    def _inline_dict(self, caller, d, depth, stack, counter, subst, declofs):
        """Deep copy of dict d; subst = {param decl id: arg dict} while inside an expanded helper."""
        if d is None:
            return None
        if subst is not None and d.get("k") == "DeclRefExpr" and d.get("dk") == "param" and d.get("d") in subst:
            return self._fresh(subst[d["d"]], counter)
        if d.get("k") == "CallExpr" and d.get("callee") and depth > 0:
            g = self._helper(caller, d["callee"], stack)
            if g is not None and not _writes_params(g.raw["body"]):
                args = [self._inline_dict(caller, a, depth, stack, counter, subst, declofs) for a in d.get("c", [])[1:]]
                sub2 = {}
                for p_, a in zip(g.params, args):
                    if a is not None:
                        sub2[p_["d"]] = a
                ofs = counter[0]
                counter[0] += 1
                gb = self._inline_dict(caller, g.raw["body"], depth - 1, stack + (g.name,), counter, sub2, ofs * 1000)
                kids = [x for x in gb.get("c", []) if x is not None]
                if gb.get("k") == "CompoundStmt" and len(kids) == 1 and kids[0].get("k") == "ReturnStmt" and kids[0].get("c"):
                    return {"k": "ParenExpr", "i": self._id(counter), "l": d.get("l", 0), "t": d.get("t"),
                            "inl": g.name, "c": [kids[0]["c"][0]]}
                return {"k": "InlinedCall", "i": self._id(counter), "l": d.get("l", 0), "t": d.get("t"),
                        "n": g.name, "c": [gb]}
        out = dict(d)
        if subst is not None:
            out["i"] = self._id(counter)
            if out.get("dk") == "local" and out.get("d") is not None:
                out["d"] = out["d"] + declofs
            if out.get("k") == "DeclStmt" and out.get("decls"):
                out["decls"] = [dict(x, d=x["d"] + declofs) if "d" in x else x for x in out["decls"]]
        if "c" in d:
            out["c"] = [self._inline_dict(caller, x, depth, stack, counter, subst, declofs) for x in d["c"]]
            # a constant argument substituted under a cast/paren makes the cast constant too
            if subst is not None and out.get("cv") is None and out.get("k") in (
                    "ImplicitCastExpr", "ParenExpr", "CStyleCastExpr", "ConstantExpr") and out["c"] \
                    and out["c"][0] is not None and out["c"][0].get("cv") is not None:
                out["cv"] = out["c"][0]["cv"]
        return out

    def _id(self, counter):
        counter[0] += 1
        return counter[0]

    def _fresh(self, d, counter):
        if d is None:
            return None
        out = dict(d)
        out["i"] = self._id(counter)
        if "c" in d:
            out["c"] = [self._fresh(x, counter) for x in d["c"]]
        return out

    def rel(self, path):
        if path.startswith(self.repo + "/"):
            return path[len(self.repo) + 1:]
        return path

    def fn(self, name, file=None):
        """Look a function up by name (and optionally by repo-relative file). Raises
        AnalysisBroken when the anchor vanished."""
        cands = self.by_name.get(name, [])
        if file is not None:
            cands = [f for f in cands if self.rel(f.file) == file]
        if not cands:
            raise AnalysisBroken("anchor function %s%s not found"
                                 % (name, " in " + file if file else ""))
        if len(cands) > 1:
            raise AnalysisBroken("anchor function %s is ambiguous: %s"
                                 % (name, [self.rel(c.file) for c in cands]))
        return cands[0]

    def fn_opt(self, name, file=None):
        try:
            return self.fn(name, file)
        except AnalysisBroken:
            return None

    def funcs_in(self, *relfiles):
        return [f for f in self.functions.values() if self.rel(f.file) in relfiles]

    def funcs_under(self, *prefixes):
        return [f for f in self.functions.values()
                if any(self.rel(f.file).startswith(p) for p in prefixes)]

    def lib_functions(self):
        return list(self.functions.values())

    def record(self, name):
        if name not in self.records:
            raise AnalysisBroken("anchor record %s not found" % name)
        return self.records[name]

    def enum(self, name):
        if name not in self.enums:
            raise AnalysisBroken("anchor enum %s not found" % name)
        return dict((c, v) for c, v in self.enums[name]["consts"])

    def site(self, node):
        """Stable site key (no line numbers): file:function."""
        return "%s:%s" % (self.rel(node.fn.file), node.fn.name)

    def where(self, node):
        return "%s:%d" % (self.rel(node.fn.file) if node.fn else "?", node.l)


def load(repo="/repo", like=None):
    from . import extract
    cdir = extract.extract(repo, like=like)
    return Program(cdir, repo)
