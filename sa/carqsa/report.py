"""Obligation bookkeeping, known findings, evidence and verdicts."""
import json
import os
import time

VERIF = os.path.dirname(os.path.dirname(os.path.dirname(os.path.abspath(__file__))))
KNOWN = os.path.join(VERIF, "known_findings.json")
EVID = os.path.join(VERIF, "evidence")
REPLAY = os.path.join(VERIF, "out", "replay")

DISCHARGED = "discharged"
SUPPRESSED = "suppressed"      # accepted idiom / reasoned per-site exception
VIOLATION = "violation"
INCONCLUSIVE = "inconclusive"  # guard present but not understood -> analysis broken (exit 2)


class Ob:
    __slots__ = ("rule", "key", "where", "what", "status", "how", "nontrivial", "witness")

    def __init__(self, rule, key, where, what, status, how="", nontrivial=True, witness=None):
        self.rule = rule
        self.key = key
        self.where = where
        self.what = what
        self.status = status
        self.how = how
        self.nontrivial = nontrivial
        self.witness = witness

    def as_dict(self):
        d = {"rule": self.rule, "key": self.key, "where": self.where, "what": self.what,
             "status": self.status, "how": self.how}
        if self.witness is not None:
            d["witness"] = self.witness
        return d


class Ctx:
    """Collects the obligations of one property check."""

    def __init__(self, pid, tier, program):
        self.pid = pid
        self.tier = tier
        self.P = program
        self.obs = []
        self.counts = {}       # free-form measured counters
        self.floors = []       # (name, measured, floor)
        self.controls = []     # (name, fired_ok, detail)
        self.mutants = []      # (name, outcome, detail)
        self.assumptions = []
        self.clauses = []      # text of the structural clauses decided
        self.notes = []
        self.broken = []       # analysis-broken reasons
        self.t0 = time.time()
        ren = getattr(program, "renamed", None) or []
        if ren and pid != "CTL":
            self.assume("file-local symbols re-identified against the pinned tree and analysed under their baseline names: " +
                        "; ".join("%s %s %s <- %s%s" % (rf, kind, old, new, " (parameter order restored)" if perm else "")
                                  for rf, kind, old, new, perm in ren[:60]))

    # -- obligations
    def ob(self, rule, key, where, what, ok, how="", nontrivial=True, witness=None):
        if not ok and "('U',)" in (how or ""):
            # the evidence is an Unknown of the abstract execution: the code was not understood, which is
            # not a witness of a violation
            return self.inconclusive(rule, key, where, what, "abstract execution lost track of a value: " + how)
        if not ok and self.pid != "CTL":
            from . import renames
            hit = [w for w in renames.WEAK if (":" + w) in key or ("|" + w) in key or (" " + w + " ") in (" " + what + " ") or (w + "(") in (how or "")]
            if hit:
                # the function was re-identified under a new name *and* new parameter names: what its parameters mean
                # may have changed with them, so a failing obligation about it is not trusted as a violation
                return self.inconclusive(rule, key, where, what, "anchor %s was re-identified with renamed parameters; not decided: %s" % (hit[0], how))
        st = DISCHARGED if ok else VIOLATION
        o = Ob(rule, key, where, what, st, how, nontrivial, witness)
        self.obs.append(o)
        return o

    def ok(self, rule, key, where, what, how="", nontrivial=True):
        return self.ob(rule, key, where, what, True, how, nontrivial)

    def bad(self, rule, key, where, what, how="", witness=None):
        return self.ob(rule, key, where, what, False, how, True, witness)

    def suppressed(self, rule, key, where, what, reason):
        o = Ob(rule, key, where, what, SUPPRESSED, reason, True)
        self.obs.append(o)
        return o

    def inconclusive(self, rule, key, where, what, how=""):
        o = Ob(rule, key, where, what, INCONCLUSIVE, how, True)
        self.obs.append(o)
        return o

    def depth(self, quick, thorough):
        """Size of an exhaustively explored finite range: the thorough tier explores deeper."""
        v = thorough if self.tier == "thorough" else quick
        self.counts["depth:%s" % v] = self.counts.get("depth:%s" % v, 0) + 1
        return v

    def count(self, name, n=1):
        self.counts[name] = self.counts.get(name, 0) + n

    def floor(self, name, measured, baseline):
        """A rule must keep matching instances or the analysis is broken. `baseline` is the count
        confirmed on the reference tree; ordinary maintenance (merging duplicated blocks into a helper,
        rolling up unrolled code) legitimately lowers it, so the floor is half the baseline: enough to
        catch a rule that stopped matching, not so tight that a clean-up trips it."""
        floor = max(1, (baseline + 1) // 2)
        self.floors.append((name, measured, floor))
        if measured < floor:
            self.broken.append("instance floor: %s matched %d < %d" % (name, measured, floor))

    def control(self, name, ok, detail=""):
        self.controls.append((name, ok, detail))
        if not ok:
            self.broken.append("positive/negative control failed: %s %s" % (name, detail))

    def assume(self, text):
        if text not in self.assumptions:
            self.assumptions.append(text)

    def clause(self, text):
        self.clauses.append(text)


def load_known():
    if not os.path.exists(KNOWN):
        return {"findings": [], "fixed": []}
    return json.load(open(KNOWN))


def finish(ctx, explanation, seed=0):
    """Apply known findings, print verdict lines, write evidence, return exit code."""
    known = load_known()
    kf = {}
    for f in known.get("findings", []):
        if f["property"] == ctx.pid:
            kf[f["key"]] = f
    viol = []
    knownhits = []
    inconc = []
    for o in ctx.obs:
        if o.status == VIOLATION:
            if o.key in kf:
                knownhits.append(o)
            else:
                viol.append(o)
        elif o.status == INCONCLUSIVE:
            inconc.append(o)
    # known findings that no longer reproduce statically are stale -> analysis broken
    hitkeys = set(o.key for o in knownhits)
    for k, f in kf.items():
        if k not in hitkeys:
            ctx.broken.append("known finding no longer reproduces (stale entry, needs a fixed: record): " + k)
    for o in inconc:
        ctx.broken.append("inconclusive obligation %s at %s: %s (%s)" % (o.key, o.where, o.what, o.how))

    seen_kf = set()
    for o in knownhits:
        if o.key in seen_kf:
            continue
        seen_kf.add(o.key)
        print("KNOWN-FINDING: property=%s %s [%s] %s" % (ctx.pid, o.key, o.where, kf[o.key]["what"]))

    code = 0
    replay_paths = []
    if viol:
        os.makedirs(REPLAY, exist_ok=True)
        for n, o in enumerate(viol):
            path = os.path.join(REPLAY, "%s-%d.json" % (ctx.pid, n))
            json.dump({"property": ctx.pid, "obligation": o.as_dict(),
                       "show": "./check --show %s" % path}, open(path, "w"), indent=1)
            replay_paths.append(path)
            print("  violated: [%s] %s at %s: %s%s" % (o.rule, o.key, o.where, o.what,
                                                      (" -- " + o.how) if o.how else ""))
            print("VIOLATION property=%s replay=%s" % (ctx.pid, path))
        code = 1
    if ctx.broken and code == 0:
        for b in ctx.broken:
            print("ANALYSIS-BROKEN property=%s %s" % (ctx.pid, b))
        code = 2
    elif ctx.broken:
        for b in ctx.broken:
            print("  (also analysis-broken: %s)" % b)

    if os.environ.get("CARQSA_DUMP"):
        pat = os.environ["CARQSA_DUMP"]
        for o in ctx.obs:
            if pat in o.key or pat in o.rule:
                print("  [dump] %s [%s] %s at %s: %s%s" % (o.status, o.rule, o.key, o.where, o.what,
                                                         (" -- " + o.how) if o.how else ""))
    nob = len(ctx.obs)
    ndis = sum(1 for o in ctx.obs if o.status == DISCHARGED)
    nsup = sum(1 for o in ctx.obs if o.status == SUPPRESSED)
    nontriv = len(set((o.rule, o.key, o.where) for o in ctx.obs if o.nontrivial))
    # samples: a few obligations per rule, violations first
    samples = []
    per_rule = {}
    for o in sorted(ctx.obs, key=lambda o: (o.status == DISCHARGED, o.rule)):
        if per_rule.get((o.rule, o.status), 0) >= 2:
            continue
        per_rule[(o.rule, o.status)] = per_rule.get((o.rule, o.status), 0) + 1
        samples.append(o.as_dict())
        if len(samples) >= 40:
            break
    rules = {}
    for o in ctx.obs:
        r = rules.setdefault(o.rule, {"obligations": 0, "discharged": 0, "suppressed": 0,
                                      "known_findings": 0, "violations": 0})
        r["obligations"] += 1
        if o.status == DISCHARGED:
            r["discharged"] += 1
        elif o.status == SUPPRESSED:
            r["suppressed"] += 1
        elif o.status == VIOLATION:
            if o.key in kf:
                r["known_findings"] += 1
            else:
                r["violations"] += 1
    ev = {
        "property_id": ctx.pid,
        "tier": ctx.tier,
        "seed": seed,
        "level": "other",
        "coverage": {
            "explanation": explanation,
            "clauses_decided": ctx.clauses,
            "evaluations": max(nob, 1),
            "distinct_nontrivial": nontriv,
            "rule": "one evaluation = one static obligation (a call site, path family, table row or "
                    "state access) generated by a rule from /repo's current source; non-trivial = "
                    "needed a path/dominance/table argument, distinct by (rule, site key, location)",
            "obligations": nob,
            "discharged": ndis,
            "suppressed_with_reason": nsup,
            "known_findings": len(knownhits),
            "violations": len(viol),
            "per_rule": rules,
            "units": len(ctx.P.units) if ctx.P else 0,
            "functions_loaded": len(ctx.P.functions) if ctx.P else 0,
            "counters": ctx.counts,
            "instance_floors": [{"rule": n, "matched": m, "floor": f} for n, m, f in ctx.floors],
            "controls": [{"name": n, "ok": ok, "detail": d} for n, ok, d in ctx.controls],
            "mutants": [{"name": n, "outcome": oc, "detail": d} for n, oc, d in ctx.mutants],
            "samples": samples,
            "analysis_broken": ctx.broken,
            "checker_cmd": "./check %s %s" % (ctx.pid, ctx.tier),
            "trusted_base": ["clang 14 front end and clang::CFG", "carqfacts plugin",
                             "carqsa rule engine", "frozen specification tables and idiom lists"],
        },
        "assumptions": ctx.assumptions,
        "wall_s": round(time.time() - ctx.t0, 3),
        "violations": len(viol),
    }
    os.makedirs(EVID, exist_ok=True)
    tmp = os.path.join(EVID, ctx.pid + ".json.tmp")
    json.dump(ev, open(tmp, "w"), indent=1)
    os.replace(tmp, os.path.join(EVID, ctx.pid + ".json"))
    status = {0: "HOLDS", 1: "VIOLATED", 2: "ANALYSIS-BROKEN"}[code]
    print("%s %s: %d obligations, %d discharged, %d suppressed, %d known findings, %d violations, "
          "%d controls, %.1fs" % (ctx.pid, status, nob, ndis, nsup, len(knownhits), len(viol),
                                  len(ctx.controls), time.time() - ctx.t0))
    return code
