"""Compile database + fact extraction (clang plugin) with a content-hash cache.

Everything is regenerated from /repo's *current working tree*: the cache key is
a hash over every file under src/, include/ and CMakeLists.txt (+ the plugin
binary), so any edit re-extracts.
"""
import hashlib
import json
import os
import shlex
import shutil
import subprocess
import sys
import tempfile
import time
from concurrent.futures import ThreadPoolExecutor

REPO = os.environ.get("CARQSA_REPO", "/repo")
HERE = os.path.dirname(os.path.abspath(__file__))
SA = os.path.dirname(HERE)
PLUGIN = os.path.join(SA, "plugin", "carqfacts.so")
CACHE = os.environ.get("CARQSA_CACHE", os.path.join(os.path.dirname(SA), ".cache"))
CLANG = "clang-14"
MIN_UNITS = 41


class AnalysisBroken(Exception):
    """Raised when the analysis itself cannot be carried out (exit code 2)."""


def tree_hash(repo=REPO):
    h = hashlib.sha256()
    roots = [os.path.join(repo, "src"), os.path.join(repo, "include"), os.path.join(repo, "cmake")]
    files = [os.path.join(repo, "CMakeLists.txt")]
    for r in roots:
        for d, dn, fn in os.walk(r):
            dn.sort()
            for f in sorted(fn):
                files.append(os.path.join(d, f))
    for f in files:
        try:
            with open(f, "rb") as fh:
                data = fh.read()
        except OSError:
            continue
        h.update(os.path.relpath(f, repo).encode())
        h.update(b"\0")
        h.update(hashlib.sha256(data).digest())
    with open(PLUGIN, "rb") as fh:
        h.update(hashlib.sha256(fh.read()).digest())
    h.update(repo.encode())
    return h.hexdigest()[:24]


def ensure_plugin():
    if not os.path.exists(PLUGIN):
        r = subprocess.run(["make", "-C", SA], capture_output=True, text=True)
        if r.returncode != 0 or not os.path.exists(PLUGIN):
            raise AnalysisBroken("cannot build plugin: " + r.stdout[-2000:] + r.stderr[-2000:])


def compile_db(repo, scratch):
    """Configure only (no build) and return the library units with their flags."""
    bdir = os.path.join(scratch, "cfg")
    cmd = ["cmake", "-S", repo, "-B", bdir, "-G", "Ninja", "-DCMAKE_BUILD_TYPE=RelWithDebInfo",
           "-DCMAKE_EXPORT_COMPILE_COMMANDS=ON"]
    r = subprocess.run(cmd, capture_output=True, text=True)
    dbp = os.path.join(bdir, "compile_commands.json")
    if r.returncode != 0 or not os.path.exists(dbp):
        raise AnalysisBroken("cmake configure failed:\n" + r.stdout[-3000:] + r.stderr[-3000:])
    db = json.load(open(dbp))
    units = []
    seen = set()
    src_root = os.path.join(repo, "src") + os.sep
    for e in db:
        f = os.path.normpath(e["file"])
        if not f.startswith(src_root) or f in seen:
            continue
        seen.add(f)
        args = shlex.split(e["command"]) if "command" in e else list(e["arguments"])
        flags = []
        skip = False
        for a in args[1:]:
            if skip:
                skip = False
                continue
            if a == "-o":
                skip = True
                continue
            if a == "-c" or os.path.normpath(a) == f:
                continue
            flags.append(a)
        units.append({"file": f, "flags": flags, "dir": e.get("directory", bdir)})
    units.sort(key=lambda u: u["file"])
    return units


def run_plugin(unit, out, repo):
    cmd = [CLANG, "-fsyntax-only", "-fplugin=" + PLUGIN,
           "-Xclang", "-plugin", "-Xclang", "carqfacts",
           "-Xclang", "-plugin-arg-carqfacts", "-Xclang", "root=" + repo,
           "-Xclang", "-plugin-arg-carqfacts", "-Xclang", "out=" + out,
           "-UNDEBUG", "-w"] + unit["flags"] + [unit["file"]]
    r = subprocess.run(cmd, capture_output=True, text=True, cwd=unit["dir"])
    ok = r.returncode == 0 and os.path.exists(out) and os.path.getsize(out) > 0
    return ok, r.stderr[-2000:]


def units_like(base_cdir, base_repo, repo):
    """Compile units of `repo` derived from an already extracted sibling tree (same build flags,
    paths rewritten): used for scratch copies so that cmake is not configured again."""
    meta = json.load(open(os.path.join(base_cdir, "meta.json")))
    units = []
    for u in meta["units"]:
        f = u["file"].replace(base_repo, repo, 1)
        if not os.path.exists(f):
            continue
        flags = [a.replace(base_repo + "/", repo + "/") if base_repo + "/" in a else a for a in u["flags"]]
        units.append({"file": f, "flags": flags, "dir": repo})
    # new source files of the scratch tree are not in the sibling's database: fall back to cmake
    have = set(u["file"] for u in units)
    for d, dn, fn in os.walk(os.path.join(repo, "src")):
        for x in fn:
            if x.endswith(".c") and os.path.join(d, x) not in have and "/arm/" not in d:
                return None
    return units


def extract(repo=REPO, verbose=False, extra_files=None, like=None):
    """Return the cache directory holding facts for repo's current tree."""
    ensure_plugin()
    key = tree_hash(repo)
    cdir = os.path.join(CACHE, key)
    if os.path.exists(os.path.join(cdir, "DONE")):
        try:
            os.utime(cdir)          # most recently used: pruned last
        except OSError:
            pass
        return cdir
    os.makedirs(CACHE, exist_ok=True)
    t0 = time.time()
    scratch = tempfile.mkdtemp(prefix="carqsa-")
    try:
        units = None
        if like is not None:
            units = units_like(like[0], like[1], repo)
        if units is None:
            units = compile_db(repo, scratch)
        if repo == "/repo" and len(units) < MIN_UNITS:
            raise AnalysisBroken("only %d library units in the compile database (floor %d)"
                                 % (len(units), MIN_UNITS))
        tmpd = tempfile.mkdtemp(prefix="facts-", dir=CACHE)
        outs = []
        for u in units:
            rel = os.path.relpath(u["file"], repo).replace(os.sep, "__")
            outs.append(os.path.join(tmpd, rel + ".json"))
        with ThreadPoolExecutor(max_workers=min(16, os.cpu_count() or 4)) as ex:
            res = list(ex.map(lambda p: run_plugin(p[0], p[1], repo), zip(units, outs)))
        bad = [(u["file"], err) for u, (ok, err) in zip(units, res) if not ok]
        if bad:
            shutil.rmtree(tmpd, ignore_errors=True)
            raise AnalysisBroken("fact extraction failed for %d unit(s): %s\n%s"
                                 % (len(bad), ", ".join(b[0] for b in bad), bad[0][1]))
        meta = {"repo": repo, "units": [{"file": u["file"], "flags": u["flags"],
                                         "facts": os.path.basename(o)}
                                        for u, o in zip(units, outs)],
                "extract_s": round(time.time() - t0, 2)}
        json.dump(meta, open(os.path.join(tmpd, "meta.json"), "w"))
        open(os.path.join(tmpd, "DONE"), "w").write("ok\n")
        try:
            os.rename(tmpd, cdir)
        except OSError:
            shutil.rmtree(tmpd, ignore_errors=True)  # lost the race: somebody else finished
        _prune(keep=[cdir] + ([like[0]] if like else []))
    finally:
        shutil.rmtree(scratch, ignore_errors=True)
    if verbose:
        print("extracted %d units in %.1fs -> %s" % (len(units), time.time() - t0, cdir),
              file=sys.stderr)
    return cdir


def _prune(keep, maxdirs=12, min_age_s=900):
    keep = set(keep)
    for k in keep:
        try:
            os.utime(k)
        except OSError:
            pass
    try:
        ds = [os.path.join(CACHE, d) for d in os.listdir(CACHE)]
        ds = [d for d in ds if os.path.isdir(d) and os.path.exists(os.path.join(d, "DONE"))]
        ds.sort(key=lambda d: os.path.getmtime(d))
        now = time.time()
        for d in ds[:-maxdirs]:
            # never remove what a concurrently running check may be loading
            if d not in keep and now - os.path.getmtime(d) > min_age_s:
                shutil.rmtree(d, ignore_errors=True)
    except OSError:
        pass


def extract_file(path, flags, root, out):
    """Run the plugin on a single stand-alone file (controls)."""
    ensure_plugin()
    return run_plugin({"file": path, "flags": flags, "dir": os.path.dirname(path)}, out, root)


if __name__ == "__main__":
    print(extract(verbose=True))
