"""Positive/negative controls for the generic rule engines (DESIGN.md 1.2).

`/verif/sa/controls/src/controls.c` holds, per engine, a `*_bad` function that must make the
engine report and a `*_good` twin on which it must stay silent. The file is extracted with the
same plugin on every run (cached by content), the engine is run on it with a throw-away context,
and the outcome is recorded with ctx.control(): a control that does not behave makes the check
exit 2 (analysis broken), so a rule whose expected violation count on /repo is zero can never pass
because the engine stopped matching anything.
"""
import hashlib
import json
import os
import shutil
import tempfile

from . import extract, facts, report

ROOT = os.path.join(extract.SA, "controls")
SRC = os.path.join(ROOT, "src", "controls.c")
_P = None


SRC_SIMD = os.path.join(ROOT, "src", "controls_simd.c")
SRC_OMP = os.path.join(ROOT, "src", "controls_omp.c")
UNITS = [(SRC, ["-std=gnu11"], "controls.json"), (SRC_SIMD, ["-std=gnu11", "-mavx2"], "controls_simd.json"),
         (SRC_OMP, ["-std=gnu11", "-fopenmp"], "controls_omp.json")]


def program():
    global _P
    if _P is not None:
        return _P
    extract.ensure_plugin()
    h = hashlib.sha256()
    for f in [u[0] for u in UNITS] + [extract.PLUGIN]:
        h.update(open(f, "rb").read())
    cdir = os.path.join(extract.CACHE, "ctl-" + h.hexdigest()[:20])
    if not os.path.exists(os.path.join(cdir, "DONE")):
        os.makedirs(extract.CACHE, exist_ok=True)
        tmpd = tempfile.mkdtemp(prefix="ctl-", dir=extract.CACHE)
        for src_, flags, name in UNITS:
            ok, err = extract.extract_file(src_, flags, ROOT, os.path.join(tmpd, name))
            if not ok:
                shutil.rmtree(tmpd, ignore_errors=True)
                raise extract.AnalysisBroken("cannot extract the control file %s: %s" % (os.path.basename(src_), err))
        json.dump({"repo": ROOT, "units": [{"file": s_, "flags": fl, "facts": nm} for s_, fl, nm in UNITS]},
                  open(os.path.join(tmpd, "meta.json"), "w"))
        open(os.path.join(tmpd, "DONE"), "w").write("ok\n")
        try:
            os.rename(tmpd, cdir)
        except OSError:
            shutil.rmtree(tmpd, ignore_errors=True)
    _P = facts.Program(cdir, ROOT)
    return _P


def _sub():
    return report.Ctx("CTL", "quick", program())


def _fired(c, fname):
    return [o for o in c.obs if o.status in (report.VIOLATION, report.INCONCLUSIVE)
            and (":" + fname + "|") in (o.key + "|")]


def _expect(ctx, engine, c, bad, good):
    for b in bad:
        hit = _fired(c, b)
        ctx.control("%s fires on %s" % (engine, b), bool(hit), "" if hit else "no report")
    for g in good:
        hit = _fired(c, g)
        ctx.control("%s silent on %s" % (engine, g), not hit, hit[0].what if hit else "")


def alloc(ctx):
    from .rules import results
    P = program()
    c = _sub()
    fns = [P.fn(n) for n in ("alloc_bad", "alloc_good")]
    results.check_allocations(c, fns, "R1.alloc", summaries=results.param_deref_summaries(P, fns))
    _expect(ctx, "R1.alloc", c, ["alloc_bad"], ["alloc_good"])


def status(ctx):
    from .rules import results
    P = program()
    c = _sub()
    fns = [P.fn(n) for n in ("status_bad_dropped", "status_bad_overwritten", "status_good")]
    results.check_status_calls(c, fns, {"ctl_may_fail"}, "R1.status")
    _expect(ctx, "R1.status", c, ["status_bad_dropped", "status_bad_overwritten"], ["status_good"])


def ownership(ctx):
    from .rules import ownership as own
    P = program()
    c = _sub()
    names = ["own_leak_bad", "own_double_bad", "own_realloc_bad", "own_stack_or_heap_bad", "own_good", "own_stack_or_heap_good"]
    own.check(c, [P.fn(n) for n in names], "R2", "own")
    _expect(ctx, "R2.ownership", c, names[:4], names[4:])


def cursor(ctx):
    from .rules import cursor as cur
    P = program()
    res = {}
    for n in ("cursor_decode_bad", "cursor_decode_good"):
        reads, pairs = cur.analyse(P, P.fn(n))
        res[n] = (len(reads), sum(1 for r in reads if not r[4]))
    ctx.control("R4.cursor fires on cursor_decode_bad", res["cursor_decode_bad"][1] == 1,
                "accesses/unproven = %s" % (res["cursor_decode_bad"],))
    ctx.control("R4.cursor silent on cursor_decode_good",
                res["cursor_decode_good"] == (2, 0), "accesses/unproven = %s" % (res["cursor_decode_good"],))


def arrays(ctx):
    from .rules import arrays as arr
    P = program()
    c = _sub()
    arr.check(c, [P.fn("array_decode_bad"), P.fn("array_decode_good")])
    _expect(ctx, "R4.array", c, ["array_decode_bad"], ["array_decode_good"])


def recursion(ctx):
    from .rules import recursion as rec
    c = _sub()
    rec.check(c, "R8", "recursion")
    bad = [o for o in c.obs if o.status != report.DISCHARGED and o.key.endswith(":rec_bad")]
    good = [o for o in c.obs if o.status == report.DISCHARGED and o.key.endswith(":rec_good")]
    ctx.control("R8 fires on rec_bad", bool(bad))
    ctx.control("R8 accepts rec_good", bool(good))


def narrowing(ctx):
    from .props import C11
    P = program()
    b = list(C11.narrowing_sites(P, [P.fn("narrow_bad")]))
    g = list(C11.narrowing_sites(P, [P.fn("narrow_good")]))
    ctx.control("R5.narrow fires on narrow_bad", len(b) == 1)
    ctx.control("R5.narrow silent on narrow_good", not g)


def skeleton(ctx):
    from .rules.skeleton import Interp, Ptr
    P = program()
    res = {}
    for n in ("kernel_bad", "kernel_good"):
        fn = P.fn(n)
        oob = 0
        for N in range(0, 10):
            it = Interp(P, fn, budget=100000)
            for out in it.run([Ptr("in", 0, 4), Ptr("out", 0, 4), N]):
                for a in out[0]:
                    if a.lo < 0 or a.hi > 4 * N:
                        oob += 1
        res[n] = oob
    ctx.control("skeleton extents fire on kernel_bad", res["kernel_bad"] > 0, str(res["kernel_bad"]))
    ctx.control("skeleton extents silent on kernel_good", res["kernel_good"] == 0, str(res["kernel_good"]))


def must_pass(ctx):
    from .rules import flow
    P = program()
    res = {}
    for n in ("commit_bad", "commit_good"):
        fn = P.fn(n)
        oks = set(r.i for r in flow.success_returns(fn))
        path = flow.find_path_avoiding(fn.cfg, lambda e: e.k == "CallExpr" and e.callee == "ctl_sync",
                                       lambda e: e.i in oks)
        res[n] = path
    ctx.control("R6.must-pass fires on commit_bad", res["commit_bad"] is not None)
    ctx.control("R6.must-pass silent on commit_good", res["commit_good"] is None)


def units(ctx):
    from .rules import units as un
    P = program()
    b = [x for x in un.sites(P, [P.fn("grow_bad")])]
    g = [x for x in un.sites(P, [P.fn("grow_good")])]
    ctx.control("R19.units fires on grow_bad", len(b) == 1 and not b[0][5])
    ctx.control("R19.units silent on grow_good", len(g) == 1 and g[0][5])


def endian(ctx):
    from .rules import endian as en
    P = program()
    ctx.control("R20.endian fires on assemble_bad", len(en.sites([P.fn("assemble_bad")])) == 1)
    ctx.control("R20.endian silent on assemble_good", not en.sites([P.fn("assemble_good")]))


def progress(ctx):
    from .rules import progress as pg
    c = _sub()
    pg.check(c, "src/controls.c", "ctl_rle_t")
    _expect(ctx, "R21.progress", c, ["ctl_refill_bad"], ["ctl_refill_good"])


def lazyinit(ctx):
    from .rules import lazyinit as lz
    c = _sub()
    n, inst = lz.check(c, ["src/controls.c"])
    ctx.control("R22.lazy-init finds the control table", len(inst) == 1, str(inst))
    _expect(ctx, "R22.lazy-init", c, ["lazy_bad"], ["lazy_good"])


def lanes(ctx):
    from .rules import lanes as ln
    P = program()
    c = _sub()
    ln.check(c, [P.fn("lanes_bad"), P.fn("lanes_good")])
    _expect(ctx, "R23.lanes", c, ["lanes_bad"], ["lanes_good"])
    c2 = _sub()
    n2 = ln.check_signed_bit_test(c2, [P.fn("bit_test_bad"), P.fn("bit_test_good")])
    ctx.control("R23.signed-bit-test finds the control compares", n2 == 2, str(n2))
    _expect(ctx, "R23.signed-bit-test", c2, ["bit_test_bad"], ["bit_test_good"])
    c3 = _sub()
    n3 = ln.check_lane_counters(c3, [P.fn("lane_counter_bad"), P.fn("lane_counter_good")])
    ctx.control("R23.lane-counter finds the control counters", n3 == 2, str(n3))
    _expect(ctx, "R23.lane-counter", c3, ["lane_counter_bad"], ["lane_counter_good"])


def masked_tail(ctx):
    from .rules import lanes as ln
    P = program()
    c = _sub()
    n = ln.check_masked_tail(c, [P.fn("masked_tail_bad", "src/controls_simd.c"), P.fn("masked_tail_good", "src/controls_simd.c")])
    ctx.control("R23.masked-tail finds the control compares", n == 2, str(n))
    _expect(ctx, "R23.masked-tail", c, ["masked_tail_bad"], ["masked_tail_good"])


def atomic(ctx):
    from .rules import allocfail
    P = program()
    c = _sub()
    allocfail.check_atomic(c, [P.fn("grow_atomic_bad"), P.fn("grow_atomic_good")])
    _expect(ctx, "R1.atomic", c, ["grow_atomic_bad"], ["grow_atomic_good"])


def feasible(ctx):
    from .rules import results
    P = program()
    c = _sub()
    fns = [P.fn("alloc_infeasible_good")]
    results.check_allocations(c, fns, "R1.alloc", summaries=results.param_deref_summaries(P, fns))
    _expect(ctx, "R1.alloc (feasible paths)", c, [], ["alloc_infeasible_good"])


def widen(ctx):
    from .rules import widen as wd
    c = _sub()
    n = wd.check(c, ["src/controls.c"])
    ctx.control("R24.narrow-guard finds the control guards", n == 5, str(n))
    _expect(ctx, "R24.narrow-guard", c, ["narrow_guard_bad", "narrow_guard_local_bad", "narrow_guard_local32_bad"], ["narrow_guard_good"])
    c2 = _sub()
    n2 = wd.check_signext(c2, ["src/controls.c"])
    ctx.control("R24.sign-extension finds the control assemblies", n2 == 2, str(n2))
    _expect(ctx, "R24.sign-extension", c2, ["signext_bad"], ["signext_good"])


def region_args(ctx):
    from .props import C07
    P = program()
    c = _sub()
    n = C07.control_region_args(c, P, "omp_args_bad", "src/controls_omp.c") + C07.control_region_args(c, P, "omp_args_good", "src/controls_omp.c")
    ctx.control("R7.region-arg classifies the control arguments", n >= 5, str(n))
    _expect(ctx, "R7.region-arg", c, ["omp_args_bad"], ["omp_args_good"])


def hidden(ctx):
    from .rules import hidden as hd
    P = program()
    c = _sub()
    hd.check(c, [P.fn("hidden_bad"), P.fn("hidden_good")], ["src/controls.c"])
    _expect(ctx, "R26.hidden-state", c, ["hidden_bad"], ["hidden_good"])


def stalefield(ctx):
    from .rules import stalefield as sf
    P = program()
    c = _sub()
    n = sf.check(c, [P.fn("stale_bad"), P.fn("stale_good"), P.fn("stale_alias_bad"), P.fn("stale_alias_good")])
    ctx.control("R27.stale-member finds the control frees", n == 6, str(n))
    _expect(ctx, "R27.stale-member", c, ["stale_bad", "stale_alias_bad"], ["stale_good", "stale_alias_good"])


def fieldfit(ctx):
    from .rules import fieldfit as ff
    P = program()
    c = _sub()
    n, nd = ff.check(c, [P.fn("fieldfit_bad"), P.fn("fieldfit_good")])
    ctx.control("R25.field-fit decides the control tag bytes", nd >= 3, "%d of %d" % (nd, n))
    _expect(ctx, "R25.field-fit", c, ["fieldfit_bad"], ["fieldfit_good"])


def reqalloc(ctx):
    from .rules import reqalloc as ra
    P = program()
    c = _sub()
    n = ra.check(c, [P.fn("request_bad"), P.fn("request_good")])
    ctx.control("R32.request-fits finds the control calls", n == 2, str(n))
    _expect(ctx, "R32.request-fits", c, ["request_bad"], ["request_good"])


def signedoff(ctx):
    from .rules import signedoff as so
    P = program()
    c = _sub()
    n = so.check(c, [P.fn("signed_off_bad"), P.fn("signed_off_good")])
    ctx.control("R33.signed-offset finds the control uses", n >= 4, str(n))
    _expect(ctx, "R33.signed-offset", c, ["signed_off_bad"], ["signed_off_good"])


def xxh(ctx):
    from .rules import xxh as xx
    P = program()
    c = _sub()
    lengths = [0, 3, 4, 7, 8, 13, 31, 32, 45, 64]
    vg = xx.check(c, P.fn("xxh_formula_good", "src/controls.c"), lengths)
    vb = xx.check(c, P.fn("xxh_formula_bad", "src/controls.c"), lengths)
    ctx.control("R5.spec xxh64-formula accepts the rearranged XXH64 and finds an input for the wrong rotation",
                vg == "same" and vb == "witness", "good=%s bad=%s" % (vg, vb))


def lenext(ctx):
    from .rules import lenext as le
    c = _sub()
    ne, nd = le.check(c, ["src/controls.c"])
    ctx.control("R35.length-extension finds the control loops and closed forms", (ne, nd) == (4, 3), "%d emit, %d read" % (ne, nd))
    _expect(ctx, "R35.length-extension", c, ["lenext_bad", "lenext_read_bad", "lenext_closed_bad"],
            ["lenext_good", "lenext_read_good", "lenext_closed_good", "lenext_read_break_good"])


def sizekind(ctx):
    from .rules import sizekind as sk
    P = program()
    c = _sub()
    rec = [k for k, r in P.records.items() if any(f["n"] == "total_plain" for f in r["fields"])][0]
    table = {(rec, "total_stored"): sk.STORED, (rec, "pos"): sk.STORED, (rec, "page_stored"): sk.STORED,
             (rec, "page_hdr"): sk.STORED, (rec, "total_plain"): sk.PLAIN}
    n = sk.check(c, [P.fn("sizekind_bad"), P.fn("sizekind_good")], table=table)
    ctx.control("R36.size-kind judges the control comparisons", n == 3, str(n))
    _expect(ctx, "R36.size-kind", c, ["sizekind_bad"], ["sizekind_good"])


def threadcount(ctx):
    from .rules import threadcount as tc
    P = program()
    c = _sub()
    rec = [k for k, r in P.records.items() if any(f["n"] == "threads" for f in r["fields"]) and any(f["n"] == "cells" for f in r["fields"])][0]
    fns = [P.fn(x, "src/controls_omp.c") for x in ("ctl_warm", "threadcount_caller", "threadcount_good")]
    n = tc.check(c, fns, members={(rec, "threads")})
    ctx.control("R37.thread-count judges the control branches", n == 5, str(n))
    _expect(ctx, "R37.thread-count", c, ["ctl_warm"], ["threadcount_good", "threadcount_caller"])


def varint(ctx):
    from .rules import varint as vr
    c = _sub()
    nw, nr = vr.check(c, files=("src/controls.c",))
    ctx.control("R38.varint finds the control writers and readers", (nw, nr) == (2, 2), "%d writers, %d readers" % (nw, nr))
    _expect(ctx, "R38.varint", c, ["ctl_write_varint_bad", "ctl_read_varint_bad"], ["ctl_write_varint_good", "ctl_read_varint_good"])


def scaledext(ctx):
    from .rules import scaledext as se
    P = program()
    c = _sub()
    n = se.check(c, [P.fn("scaledext_bad"), P.fn("scaledext_good")])
    ctx.control("R39.scaled-extent finds the control reads", n == 2, str(n))
    _expect(ctx, "R39.scaled-extent", c, ["scaledext_bad"], ["scaledext_good"])


def loopcursor(ctx):
    from .rules import loopcursor as lc
    P = program()
    c = _sub()
    n = lc.check(c, [P.fn("loopcursor_bad"), P.fn("loopcursor_good")])
    ctx.control("R40.loop-cursor finds the control reads", n == 2, str(n))
    _expect(ctx, "R40.loop-cursor", c, ["loopcursor_bad"], ["loopcursor_good"])


def bitfield(ctx):
    from .rules import bitfield as bf
    from .rules import cursor
    P = program()
    good, bad = P.fn("ctl_get_bits_good"), P.fn("ctl_get_bits_bad")
    eg, eb = bf.helper_extent(P, good), bf.helper_extent(P, bad)
    ctx.control("R43.bitfield proves the extent of the good control helper", eg is not None and eg[:3] == (0, 1, 2), repr(eg))
    ctx.control("R43.bitfield refuses the control helper that reads one byte too far", eb is None, repr(eb))
    for name, want in (("bitfield_good", True), ("bitfield_bad_guard", False)):
        fn = P.fn(name)
        pairs = [p for p in cursor.find_pairs(fn) if p.style == "idx"]
        call = [c for c in fn.calls() if c.callee == "ctl_get_bits_good"]
        got = None
        if pairs and call and eg is not None:
            got = bf.call_site(P, fn, call[0], eg, pairs[0].cursor, pairs[0].limit, cursor.lvalue_text)[0]
        ctx.control("R43.bitfield call site %s" % name, got is want, repr(got))


def wrapsum(ctx):
    from .rules import wrapsum as ws
    c = _sub()
    n = ws.check(c, ["src/controls.c"])
    ctx.control("R44.wrap-sum finds the control sites", n >= 2, str(n))
    _expect(ctx, "R44.wrap-sum", c, ["wrapsum_bad"], ["wrapsum_good"])


def borrowed(ctx):
    from .rules import borrowed as br
    c = _sub()
    n, names = br.check(c, ["src/controls.c"])
    ctx.control("R45.borrowed-input finds the control borrowing functions", {"ctl_peek", "ctl_read_bin", "ctl_bindup_bad"} <= set(names) and "ctl_bindup_good" not in names, repr(names))
    _expect(ctx, "R45.borrowed-input", c, ["borrowed_bad"], ["borrowed_good", "ctl_bindup_good"])


def aligned(ctx):
    from .props import C15
    P = program()
    c = _sub()
    for n in ("prefix_aligned_bad", "prefix_aligned_good"):
        C15.run_kernel(c, P, P.fn(n), "prefix_sum_i32", "sse", 24)
    _expect(ctx, "R10.aligned", c, ["prefix_aligned_bad"], ["prefix_aligned_good"])


def growth(ctx):
    from .rules import growth as gr
    P = program()
    c = _sub()
    n = gr.check(c, [P.fn("growth_bad"), P.fn("growth_good")])
    ctx.control("R46.growth finds the control branches", n == 2, str(n))
    _expect(ctx, "R46.growth", c, ["growth_bad"], ["growth_good"])


def callstate(ctx):
    from .rules import callstate as cs
    c = _sub()
    n = cs.check(c, ["src/controls.c"])
    ctx.control("R47.call-state finds the control tables", n >= 2, str(n))
    _expect(ctx, "R47.call-state", c, ["callstate_bad"], ["callstate_good"])


ALL = {"callstate": callstate, "growth": growth, "aligned": aligned, "borrowed": borrowed, "wrapsum": wrapsum, "bitfield": bitfield, "masked_tail": masked_tail, "loopcursor": loopcursor, "scaledext": scaledext, "varint": varint, "threadcount": threadcount, "sizekind": sizekind, "lenext": lenext, "xxh": xxh, "signedoff": signedoff, "reqalloc": reqalloc, "fieldfit": fieldfit, "stalefield": stalefield, "hidden": hidden, "region_args": region_args, "widen": widen, "progress": progress, "lazyinit": lazyinit, "lanes": lanes, "atomic": atomic, "feasible": feasible, "endian": endian, "units": units, "alloc": alloc, "status": status, "ownership": ownership, "cursor": cursor, "arrays": arrays,
       "recursion": recursion, "narrowing": narrowing, "skeleton": skeleton, "must_pass": must_pass}


def run(ctx, *names):
    for n in names:
        try:
            ALL[n](ctx)
        except extract.AnalysisBroken:
            raise
        except Exception as e:  # a crashing control is a broken analysis, not a pass
            ctx.control("control %s" % n, False, "%s: %s" % (type(e).__name__, e))
