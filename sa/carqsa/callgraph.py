"""Whole-program call graph over the extracted facts: direct calls plus function-pointer slots
(struct-field slots such as g_dispatch.<slot> resolved through every `X.<slot> = fn`
assignment, and functions whose address is taken as a value in a return/initialiser)."""
from .util import is_assign


class CallGraph:
    def __init__(self, P):
        self.P = P
        self.edges = {}       # fn key -> set(fn key)
        self.ext = {}         # fn key -> set(external callee names)
        self.slots = {}       # slot field name -> set(fn key)
        self.addr_taken = set()
        self.indirect_sites = {}  # fn key -> list of (call node, slot or None)
        self._build()

    def resolve(self, name, from_fn):
        cands = self.P.by_name.get(name, [])
        if not cands:
            return None
        same = [c for c in cands if c.file == from_fn.file]
        if same:
            return same[0]
        nonstatic = [c for c in cands if not c.static]
        if nonstatic:
            return nonstatic[0]
        # static inline in a header included by from_fn's unit
        return cands[0]

    def _build(self):
        P = self.P
        # slot assignments
        for f in P.functions.values():
            for n in f.body.walk():
                if is_assign(n) and n.op == "=":
                    lhs = n.c[0].strip()
                    rhs = n.c[1].strip_casts() if n.c[1] is not None else None
                    if rhs is not None and rhs.k == "UnaryOperator" and rhs.op == "&":
                        rhs = rhs.c[0].strip_casts()
                    if lhs.k == "MemberExpr" and rhs is not None and rhs.k == "DeclRefExpr" \
                            and rhs.get("dk") == "func":
                        tgt = self.resolve(rhs.name, f)
                        if tgt is not None:
                            self.slots.setdefault(lhs.name, set()).add(tgt.key())
                elif n.k == "DeclRefExpr" and n.get("dk") == "func":
                    p = n.parent
                    while p is not None and p.k in ("ImplicitCastExpr", "ParenExpr"):
                        p = p.parent
                    if p is not None and p.k != "CallExpr":
                        tgt = self.resolve(n.name, f)
                        if tgt is not None:
                            self.addr_taken.add(tgt.key())
        # static initialisers of globals (tables of function pointers)
        for unit, g in P.globals:
            init = g.get("init")
            if init is None or isinstance(init, dict):
                continue
            for n in init.walk():
                if n.k == "DeclRefExpr" and n.get("dk") == "func":
                    for c in P.by_name.get(n.name, []):
                        self.addr_taken.add(c.key())
                        self.slots.setdefault("@" + g["name"], set()).add(c.key())
        for f in P.functions.values():
            es = self.edges.setdefault(f.key(), set())
            ex = self.ext.setdefault(f.key(), set())
            for n in f.body.walk():
                if n.k != "CallExpr":
                    continue
                if n.callee:
                    tgt = self.resolve(n.callee, f)
                    if tgt is not None:
                        es.add(tgt.key())
                    else:
                        ex.add(n.callee)
                else:
                    ce = n.c[0].strip_casts() if n.c else None
                    slot = None
                    if ce is not None and ce.k == "MemberExpr":
                        slot = ce.name
                    elif ce is not None and ce.k == "ArraySubscriptExpr":
                        b = ce.c[0].strip_casts()
                        if b.k == "DeclRefExpr":
                            slot = "@" + b.name
                    self.indirect_sites.setdefault(f.key(), []).append((n, slot))
                    if slot and slot in self.slots:
                        es.update(self.slots[slot])
                    else:
                        # unknown function pointer: any address-taken function of a matching type
                        pass

    def reachable(self, roots):
        seen = set()
        stack = [r for r in roots]
        while stack:
            k = stack.pop()
            if k in seen:
                continue
            seen.add(k)
            stack.extend(self.edges.get(k, ()))
        return seen

    def reaches_external(self, names):
        """Set of fn keys that transitively call one of the external functions `names`."""
        direct = set(k for k, ex in self.ext.items() if ex & set(names))
        rev = {}
        for k, es in self.edges.items():
            for e in es:
                rev.setdefault(e, set()).add(k)
        seen = set()
        stack = list(direct)
        while stack:
            k = stack.pop()
            if k in seen:
                continue
            seen.add(k)
            stack.extend(rev.get(k, ()))
        return seen

    def sccs(self):
        """Tarjan SCCs; returns list of sets of fn keys (only non-trivial or self-recursive)."""
        index = {}
        low = {}
        onst = set()
        st = []
        out = []
        counter = [0]
        import sys
        sys.setrecursionlimit(10000)

        def strong(v):
            index[v] = low[v] = counter[0]
            counter[0] += 1
            st.append(v)
            onst.add(v)
            for w in self.edges.get(v, ()):
                if w not in index:
                    strong(w)
                    low[v] = min(low[v], low[w])
                elif w in onst:
                    low[v] = min(low[v], index[w])
            if low[v] == index[v]:
                comp = set()
                while True:
                    w = st.pop()
                    onst.discard(w)
                    comp.add(w)
                    if w == v:
                        break
                if len(comp) > 1 or v in self.edges.get(v, ()):
                    out.append(comp)
        for v in list(self.edges):
            if v not in index:
                strong(v)
        return out


_cache = {}


def get(P):
    cg = P.__dict__.get("_callgraph")
    if cg is None:
        cg = P.__dict__["_callgraph"] = CallGraph(P)
    return cg
