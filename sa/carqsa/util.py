"""Small AST utilities shared by the rule engines."""
from collections import Counter

from .facts import src

ASSIGN_OPS = {"=", "+=", "-=", "*=", "/=", "%=", "<<=", ">>=", "&=", "|=", "^="}


def is_assign(n):
    return n.k in ("BinaryOperator", "CompoundAssignOperator") and n.op in ASSIGN_OPS


def assignments(root):
    for n in root.walk():
        if is_assign(n):
            yield n


def lhs_root(n):
    """Walk down an lvalue expression to its root DeclRef/Member chain; returns the list of
    nodes from outermost to the base DeclRefExpr (through [], *, ->, ., casts, +)."""
    chain = []
    cur = n
    while cur is not None:
        cur = cur.strip_casts()
        if cur is None:
            break
        chain.append(cur)
        if cur.k in ("ArraySubscriptExpr", "MemberExpr"):
            cur = cur.c[0]
        elif cur.k == "UnaryOperator" and cur.op in ("*", "&", "++", "--"):
            cur = cur.c[0]
        elif cur.k == "BinaryOperator" and cur.op in ("+", "-"):
            cur = cur.c[0]
        else:
            break
    return chain


def base_decl(n):
    """The DeclRefExpr at the bottom of an lvalue/pointer expression, or None."""
    ch = lhs_root(n)
    if ch and ch[-1].k == "DeclRefExpr":
        return ch[-1]
    return None


def mentions_member(n, field, record=None):
    for x in n.walk():
        if x.k == "MemberExpr" and x.name == field and (record is None or x.get("rec") == record):
            return True
    return False


def mentions_decl(n, d):
    for x in n.walk():
        if x.k == "DeclRefExpr" and x.get("d") == d:
            return True
    return False


def enclosing(n, *kinds):
    for a in n.ancestors():
        if a.k in kinds:
            return a
    return None


def enclosing_stmt(n):
    """The statement-level ancestor (child of a CompoundStmt / branch of if/loop)."""
    cur = n
    while cur.parent is not None and cur.parent.k not in ("CompoundStmt", "IfStmt", "ForStmt",
                                                           "WhileStmt", "DoStmt", "SwitchStmt",
                                                           "CaseStmt", "DefaultStmt", "LabelStmt"):
        cur = cur.parent
    return cur


def switch_table(sw):
    """Map a SwitchStmt to {label: [stmts]} with fall-through resolved.

    label = enum constant name / int for case labels, 'default' for default.
    The statement list of a label runs to the first break/return/goto/continue
    (inclusive for return/goto/continue) following C fall-through semantics."""
    body = sw.c[-1]
    # flatten: CaseStmt nests its sub statement (possibly another CaseStmt)
    items = []  # (labels, stmt)

    def add_stmt(s, pending):
        while s is not None and s.k in ("CaseStmt", "DefaultStmt"):
            if s.k == "CaseStmt":
                lab = case_label(s.c[0])
                pending.append(lab)
                s = s.c[-1]
            else:
                pending.append("default")
                s = s.c[-1] if s.c else None
        items.append((list(pending), s))
        del pending[:]

    stmts = body.kids() if body.k == "CompoundStmt" else [body]
    pending = []
    for s in stmts:
        add_stmt(s, pending)
    table = {}
    order = []
    for idx, (labs, s) in enumerate(items):
        for lab in labs:
            seq = []
            for (l2, s2) in items[idx:]:
                if s2 is None:
                    continue
                if s2.k == "BreakStmt":
                    break
                seq.append(s2)
                if terminates(s2):
                    break
            table[lab] = seq
            order.append(lab)
    return table, order


def terminates(s):
    if s.k in ("ReturnStmt", "GotoStmt", "ContinueStmt"):
        return True
    if s.k == "CompoundStmt" and s.kids():
        last = s.kids()[-1]
        return terminates(last) or last.k == "BreakStmt"
    return False


def case_label(e):
    x = e.strip_casts()
    if x.k == "DeclRefExpr" and x.get("dk") == "enum":
        return x.name
    if e.cv is not None:
        return e.cv
    for y in e.walk():
        if y.k == "DeclRefExpr" and y.get("dk") == "enum":
            return y.name
    return src(e)


def find_switches(fn, on=None):
    """SwitchStmts of fn; `on` filters by a predicate over the switch condition node."""
    out = []
    for n in fn.body.walk():
        if n.k == "SwitchStmt":
            cond = n.c[-2] if len(n.c) >= 2 else None
            # children: [init?, condvar?, cond, body] -> cond is second to last
            if on is None or (cond is not None and on(cond)):
                out.append(n)
    return out


def switch_cond(sw):
    return sw.c[-2]


def calls_in(nodes, *names):
    out = []
    for s in nodes:
        for n in s.walk():
            if n.k == "CallExpr" and (not names or n.callee in names):
                out.append(n)
    return out


def returns_in(nodes):
    out = []
    for s in nodes:
        for n in s.walk():
            if n.k == "ReturnStmt":
                out.append(n)
    return out


def const_fingerprint(P, fn, _memo=None, _stack=()):
    """Multiset of (operator, constant) pairs and constant call arguments of fn with the
    static helpers it calls expanded at every call site (name-agnostic, order-agnostic)."""
    if _memo is None:
        _memo = {}
    if fn.key() in _memo:
        return _memo[fn.key()]
    cnt = Counter()
    for n in fn.body.walk():
        if n.k in ("BinaryOperator", "CompoundAssignOperator") and n.op not in ("=", ","):
            a, b = n.c[0], n.c[1]
            op = n.op.rstrip("=") if n.k == "CompoundAssignOperator" else n.op
            if b.cv is not None and a.cv is None:
                cnt[(op, b.cv)] += 1
            elif a.cv is not None and b.cv is None:
                cnt[(op if op in ("*", "+", "&", "|", "^") else "r" + op, a.cv)] += 1
        elif n.k == "CallExpr" and n.callee:
            cal = [f for f in P.by_name.get(n.callee, []) if f.file == fn.file]
            for idx, a in enumerate(n.c[1:]):
                if a.cv is not None:
                    cnt[("arg", a.cv)] += 1
            if cal and cal[0].key() not in _stack and cal[0].key() != fn.key():
                sub = const_fingerprint(P, cal[0], _memo, _stack + (fn.key(),))
                cnt.update(sub)
    _memo[fn.key()] = cnt
    return cnt
