"""Re-identification of renamed file-local symbols.

The rules name their anchors: `decompress_page`, `crc32_tables`, `write_magic`. Renaming a static function
or a static variable, or reordering the parameters of a static function, changes no behaviour, and must not
turn an anchor into "vanished" - let alone into a violation. Before the facts are turned into a Program,
every file-local function / variable of the baseline (the symbols of the pinned tree, frozen in
baseline_symbols.json) that is missing from a file is looked for among the file's *new* file-local symbols:

  function   same return type, same multiset of parameter types, and - among the candidates - the one whose
             callee set is closest (Jaccard, renames already established applied), clearly ahead of the
             second; when the parameter order changed, the baseline order is restored from the parameter
             names (or from the types when they are all different), otherwise the match is refused;
  variable   same type, and the same set of functions (after function renames) referring to it.

A match renames the symbol back to its baseline name throughout the file's facts (definition, calls,
references; arguments of calls are put back in baseline order), so every rule sees the names it knows.
Positions (file:line) are untouched. A symbol that cannot be matched stays missing: the rule that needs it
reports analysis-broken, as before. What was matched is listed in the evidence."""
import json
import os

WEAK = set()
BASELINE = os.path.join(os.path.dirname(os.path.dirname(os.path.abspath(__file__))), "baseline_symbols.json")


def _walk(d):
    stack = [d]
    while stack:
        n = stack.pop()
        if n is None:
            continue
        yield n
        stack.extend(x for x in n.get("c", []) if x is not None)


def describe(units, rel):
    """{relfile: {"functions": {name: {...}}, "globals": {name: {...}}}} of file-local and other symbols"""
    out = {}
    seen = set()
    for d in units:
        for f in d["functions"]:
            rf = rel(f["file"])
            if (rf, f["name"]) in seen or not rf.startswith("src/"):
                continue
            seen.add((rf, f["name"]))
            callees = set()
            grefs = set()
            gwrites = set()
            consts = set()
            types = set()
            size = 0
            pdecl = {p["d"]: i for i, p in enumerate(f["params"])}
            roles = [set() for _ in f["params"]]

            def direct(x):
                while x is not None and x.get("k") in ("ImplicitCastExpr", "ParenExpr", "CStyleCastExpr") and x.get("c"):
                    x = x["c"][0]
                if x is not None and x.get("k") == "DeclRefExpr" and x.get("dk") == "param" and x.get("d") in pdecl:
                    return pdecl[x["d"]]
                return None
            for n in _walk(f["body"]):
                size += 1
                k = n.get("k")
                if k == "CallExpr" and n.get("callee"):
                    callees.add(n["callee"])
                    for ai, a in enumerate(n.get("c", [])[1:]):
                        pi = direct(a)
                        if pi is not None:
                            roles[pi].add("%s#%d" % (n["callee"], ai))
                elif k == "DeclRefExpr" and n.get("dk") == "global":
                    grefs.add(n.get("n"))
                elif k == "UnaryOperator" and n.get("op") == "&" and n.get("c"):
                    x = n["c"][0]
                    while x is not None and x.get("k") in ("ParenExpr", "MemberExpr", "ArraySubscriptExpr", "ImplicitCastExpr") and x.get("c"):
                        x = x["c"][0]
                    if x is not None and x.get("k") == "DeclRefExpr" and x.get("dk") == "global":
                        gwrites.add(x.get("n"))
                if k in ("BinaryOperator", "CompoundAssignOperator") and len(n.get("c", [])) == 2 and (n.get("op") or "").endswith("=") \
                        and n.get("op") not in ("==", "!=", "<=", ">="):
                    x = n["c"][0]
                    while x is not None and x.get("k") in ("ParenExpr", "MemberExpr", "ArraySubscriptExpr", "ImplicitCastExpr") and x.get("c"):
                        x = x["c"][0]
                    if x is not None and x.get("k") == "DeclRefExpr" and x.get("dk") == "global":
                        gwrites.add(x.get("n"))
                if k in ("BinaryOperator", "CompoundAssignOperator") and len(n.get("c", [])) == 2:
                    for side, a in enumerate(n["c"]):
                        pi = direct(a)
                        if pi is not None:
                            roles[pi].add("%s:%d" % (n.get("op"), side))
                elif k == "ArraySubscriptExpr" and len(n.get("c", [])) == 2:
                    for side, a in enumerate(n["c"]):
                        pi = direct(a)
                        if pi is not None:
                            roles[pi].add("[]:%d" % side)
                elif k in ("UnaryOperator", "MemberExpr", "SwitchStmt", "ReturnStmt", "IfStmt") and n.get("c"):
                    pi = direct(n["c"][0])
                    if pi is not None:
                        roles[pi].add("%s%s" % (k, n.get("op") or n.get("n") or ""))
                if n.get("cv") is not None and k in ("IntegerLiteral", "DeclRefExpr", "CharacterLiteral"):
                    consts.add(n["cv"])
                if k == "CStyleCastExpr" and n.get("t"):
                    types.add(n["t"])
                elif k == "DeclStmt":
                    for dd in n.get("decls", []):
                        if dd.get("t"):
                            types.add(dd["t"])
            out.setdefault(rf, {"functions": {}, "globals": {}})["functions"][f["name"]] = {
                "static": bool(f["static"]), "ret": f["ret"], "params": [[p["t"], p["n"], sorted(roles[i])] for i, p in enumerate(f["params"])],
                "callees": sorted(callees), "globals": sorted(grefs), "gwrites": sorted(gwrites), "size": size, "consts": sorted(consts)[:200], "types": sorted(types)[:60]}
        for g in d["globals"]:
            rf = rel(g["file"])
            if not rf.startswith("src/") or not g.get("def"):
                continue
            out.setdefault(rf, {"functions": {}, "globals": {}})["globals"].setdefault(g["name"], {"t": g["t"], "static": bool(g.get("static"))})
    for d in units:
        for r in d.get("records", []):
            rf = rel(r.get("file") or "")
            if rf.startswith("src/") and rf.endswith(".c") and r.get("name") and rf in out:
                lt = out[rf].setdefault("local_types", [])
                if r["name"] not in lt:
                    lt.append(r["name"])
    return out


_STD_T = {"size_t", "ssize_t", "ptrdiff_t", "uintptr_t", "intptr_t", "off_t", "wchar_t", "time_t", "int8_t", "int16_t", "int32_t",
          "int64_t", "uint8_t", "uint16_t", "uint32_t", "uint64_t", "pthread_key_t", "pthread_once_t", "uInt", "uLong"}


_LOCAL_TYPES = set()


def _ty(t):
    """type with the names of file-local types blanked (they are renamed together with the functions)"""
    import re
    return re.sub(r"\b([A-Za-z_][A-Za-z0-9_]*)\b",
                  lambda m: "?_t" if m.group(1) in _LOCAL_TYPES or (m.group(1).endswith("_t") and m.group(1) not in _STD_T and not
                                                                   m.group(1).startswith(("carquet_", "parquet_", "thrift_", "__m"))) else m.group(1), t or "")


def _perm(bparams, cparams, ren=None):
    bparams = [[_ty(p[0])] + list(p[1:]) for p in bparams]
    cparams = [[_ty(p[0])] + list(p[1:]) for p in cparams]
    ren = ren or {}
    """cur index for every baseline position, or None when the order cannot be established"""
    bt, ct = [p[0] for p in bparams], [p[0] for p in cparams]
    bn, cn = [p[1] for p in bparams], [p[1] for p in cparams]
    if len(bt) != len(ct) or sorted(bt) != sorted(ct):
        return None
    if bt == ct:
        if bn == cn:
            return list(range(len(bt)))
        if sorted(bn) == sorted(cn) and len(set(bn)) == len(bn):
            perm = [cn.index(n) for n in bn]
            return perm if all(ct[perm[i]] == bt[i] for i in range(len(bt))) else None
        # names changed: positions are trusted only where no other parameter of that type could have been swapped in,
        # or where the uses of the parameter say which one it is
        perm = list(range(len(bt)))
        for i in range(len(bt)):
            if bn[i] != cn[i] and bt.count(bt[i]) > 1 and any(bn[j] != cn[j] for j in range(len(bt)) if j != i and bt[j] == bt[i]):
                j = _by_role(bparams, cparams, i, set(), ren)
                if j is None:
                    return None
                perm[i] = j
        return perm if len(set(perm)) == len(perm) else None
    perm = []
    used = set()
    for i in range(len(bt)):
        j = None
        if bn[i] in cn and ct[cn.index(bn[i])] == bt[i] and cn.index(bn[i]) not in used:
            j = cn.index(bn[i])
        elif bt.count(bt[i]) == 1:
            j = ct.index(bt[i])
        else:
            j = _by_role(bparams, cparams, i, used, ren)
        if j is None or j in used:
            return None
        used.add(j)
        perm.append(j)
    return perm


def _by_role(bparams, cparams, i, used, ren):
    """the current parameter of the same type whose uses (callee#position, operators) are those of baseline
    parameter i - clearly closer than any other of that type"""
    rb = set(bparams[i][2]) if len(bparams[i]) > 2 else set()
    if not rb:
        return None
    scored = []
    for j, cp in enumerate(cparams):
        if cp[0] != bparams[i][0] or j in used:
            continue
        rc = set((ren.get(r.split("#")[0], r.split("#")[0]) + "#" + r.split("#")[1]) if "#" in r else r for r in (cp[2] if len(cp) > 2 else []))
        scored.append((len(rb & rc) / float(len(rb | rc) or 1), j))
    scored.sort(reverse=True)
    if not scored or scored[0][0] < 0.5 or (len(scored) > 1 and scored[0][0] - scored[1][0] < 0.25):
        return None
    return scored[0][1]


def match(base, cur):
    """({(relfile, new function name): (old name, perm)}, {(relfile, new global name): old name})"""
    fmap, gmap = {}, {}
    _LOCAL_TYPES.clear()
    for side in (base, cur):
        for rf, v in side.items():
            _LOCAL_TYPES.update(v.get("local_types", []))
    for rf, b in base.items():
        c = cur.get(rf)
        if c is None:
            continue
        bf, cf = b["functions"], c["functions"]
        missing = [n for n in bf if n not in cf and bf[n]["static"]]
        new = [n for n in cf if n not in bf and cf[n]["static"]]
        local = {}
        for _round in range(2):
            inv = {v: k for k, v in local.items()}      # new -> old
            pairs = []
            for m in missing:
                if m in inv.values():
                    continue
                for n in new:
                    if n in inv:
                        continue
                    if _ty(cf[n]["ret"]) != _ty(bf[m]["ret"]) or sorted(_ty(p[0]) for p in cf[n]["params"]) != sorted(_ty(p[0]) for p in bf[m]["params"]):
                        continue
                    cb = set(bf[m]["callees"])
                    cc = set(inv.get(x, x) for x in cf[n]["callees"])
                    kb, kc = set(bf[m].get("consts", [])), set(cf[n].get("consts", []))
                    ks = len(kb & kc) / float(len(kb | kc)) if (kb or kc) else 1.0
                    tb, tc = set(bf[m].get("types", [])), set(cf[n].get("types", []))
                    ts = len(tb & tc) / float(len(tb | tc)) if (tb or tc) else 1.0
                    ks = 0.5 * ks + 0.5 * ts
                    if not cb and not cc:
                        sc = ks if 0.5 <= (cf[n]["size"] + 1.0) / (bf[m]["size"] + 1.0) <= 2.0 else 0.3 * ks
                    else:
                        sc = 0.7 * len(cb & cc) / float(len(cb | cc)) + 0.3 * ks
                    pairs.append((sc, m, n))
            pairs.sort(reverse=True)
            for sc, m, n in pairs:
                if m in local or n in local.values():
                    continue
                rivals = [s for s, m2, n2 in pairs if (m2 == m) != (n2 == n) and m2 not in local and n2 not in local.values()]
                best_rival = max(rivals) if rivals else -1.0
                if sc >= 0.2 and sc - best_rival >= 0.15 or (best_rival < 0 and sc >= 0.0):
                    perm = _perm(bf[m]["params"], cf[n]["params"], inv)
                    if perm is not None:
                        local[m] = n
        inv = {v: k for k, v in local.items()}
        for m, n in local.items():
            fmap[(rf, n)] = (m, _perm(bf[m]["params"], cf[n]["params"], inv))
        # a static function that kept its name but had its parameters reordered
        for n in cf:
            if n in bf and bf[n]["static"] and cf[n]["static"] and [p[0] for p in bf[n]["params"]] != [p[0] for p in cf[n]["params"]] \
                    or (n in bf and bf[n]["static"] and cf[n]["static"] and [p[1] for p in bf[n]["params"]] != [p[1] for p in cf[n]["params"]]
                        and sorted(p[1] for p in bf[n]["params"]) == sorted(p[1] for p in cf[n]["params"])):
                perm = _perm(bf[n]["params"], cf[n]["params"], inv)
                if perm is not None and perm != list(range(len(perm))):
                    fmap[(rf, n)] = (n, perm)
        bg, cg = b["globals"], c["globals"]
        gmissing = [n for n in bg if n not in cg and bg[n]["static"]]
        gnew = [n for n in cg if n not in bg and cg[n]["static"]]

        def users(table, name, fns, ren, key="globals"):
            return set(ren.get(f, f) for f, v in fns.items() if name in v.get(key, []))
        for m in gmissing:
            cands = [n for n in gnew if _ty(cg[n]["t"]) == _ty(bg[m]["t"]) and n not in gmap.values()]
            ub = users(bg, m, bf, {})
            wb = users(bg, m, bf, {}, "gwrites")
            good = [n for n in cands if users(cg, n, cf, inv) == ub or (ub and len(users(cg, n, cf, inv) & ub) / float(len(users(cg, n, cf, inv) | ub)) >= 0.5)]
            if not good and wb:
                good = [n for n in cands if users(cg, n, cf, inv, "gwrites") and
                        len(users(cg, n, cf, inv, "gwrites") & wb) / float(len(users(cg, n, cf, inv, "gwrites") | wb)) >= 0.5]
            if len(good) == 1 and not any(k[0] == rf and v == m for k, v in gmap.items()):
                gmap[(rf, good[0])] = m
    return fmap, gmap


def apply(units, rel, fmap, gmap):
    if not fmap and not gmap:
        return
    for d in units:
        for f in d["functions"]:
            rf = rel(f["file"])
            fm = {n: v for (r, n), v in fmap.items() if r == rf}
            gm = {n: v for (r, n), v in gmap.items() if r == rf}
            if not fm and not gm:
                continue
            if f["name"] in fm:
                old, perm = fm[f["name"]]
                f["name"] = old
                if perm != list(range(len(perm))):
                    f["params"] = [f["params"][j] for j in perm]
            for n in _walk(f["body"]):
                k = n.get("k")
                if k == "CallExpr" and n.get("callee") in fm:
                    old, perm = fm[n["callee"]]
                    n["callee"] = old
                    args = n.get("c", [])[1:]
                    if perm != list(range(len(perm))) and len(args) == len(perm):
                        n["c"] = n["c"][:1] + [args[j] for j in perm]
                elif k == "DeclRefExpr":
                    if n.get("dk") == "func" and n.get("n") in fm:
                        n["n"] = fm[n["n"]][0]
                    elif n.get("dk") == "global" and n.get("n") in gm:
                        n["n"] = gm[n["n"]]
        for g in d["globals"]:
            rf = rel(g["file"])
            if (rf, g["name"]) in gmap:
                g["name"] = gmap[(rf, g["name"])]
            if g.get("init") is not None and isinstance(g["init"], dict):
                for n in _walk(g["init"]):
                    if n.get("k") == "DeclRefExpr" and n.get("dk") == "func" and (rf, n.get("n")) in fmap:
                        n["n"] = fmap[(rf, n["n"])][0]
        for fd in d.get("funcdecls", []):
            rf = rel(fd["file"])
            if (rf, fd["name"]) in fmap:
                fd["name"] = fmap[(rf, fd["name"])][0]


def normalise(units, rel):
    """Rename re-identified symbols back to their baseline names in the unit dicts. Returns the list of
    (relfile, kind, baseline name, current name, reordered?)."""
    if os.environ.get("CARQSA_NO_RENAMES") or not os.path.exists(BASELINE):
        return []
    base = json.load(open(BASELINE))
    cur = describe(units, rel)
    fmap, gmap = match(base, cur)
    apply(units, rel, fmap, gmap)
    out = [(rf, "function", old, new, perm != list(range(len(perm)))) for (rf, new), (old, perm) in sorted(fmap.items())]
    # a re-identified function whose parameter names changed too may have changed what a parameter means
    global WEAK
    WEAK = set()
    for (rf, new), (old, perm) in fmap.items():
        if new != old and sorted(p[1] for p in base[rf]["functions"][old]["params"]) != sorted(p[1] for p in cur[rf]["functions"][new]["params"]):
            WEAK.add(old)
    out += [(rf, "variable", old, new, False) for (rf, new), old in sorted(gmap.items())]
    return out
