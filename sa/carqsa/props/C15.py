"""C15 - SIMD kernels: dispatch table clauses + access extents by cursor-skeleton execution."""
import re

from ..canon import Canon
from ..extract import AnalysisBroken
from ..facts import src
from ..rules.skeleton import Interp, Ptr, U, Budget, Stop
from ..util import is_assign

EXPLANATION = (
    "Static decision of structural clauses of C15: (1) carquet_simd_dispatch_init is executed abstractly "
    "for all 8 subsets of {SSE4.2, AVX2, AVX-512F} reported by the CPU probe (the probe hooked, the table "
    "and its flag found by their types and writers): with no capability every slot holds the scalar "
    "implementation scalar_<slot> of dispatch.c; a kernel of the SSE/AVX2/AVX-512 unit is installed only "
    "under a capability set that contains its ISA and only in the slot it is named for; for every set each "
    "slot ends with the kernel of the highest reported ISA that offers one; the flag is set in every "
    "scenario and nothing follows it in the initialiser; every carquet_dispatch_<slot> wrapper "
    "initialises the table and calls its own slot with its own parameters; every hand-written extern "
    "prototype of a kernel equals the definition's type; (2) access extents: the cursor arithmetic of "
    "every x86 kernel (SSE/AVX2/AVX-512 units, 60 kernels) and of the scalar fallbacks is executed "
    "abstractly for every element count 0..N (N covers all remainders of the widest unrolled stride) with "
    "buffer contents unknown; every vector/scalar load and store (masked forms by their mask population) "
    "must lie inside the extent the slot's contract gives each buffer ([0,count) elements), and output "
    "kernels must write every output byte; (3) the match_copy kernels only use block copies as wide as "
    "the guarded match distance (rule shared with C09.5), which is where an overlapping copy differs from "
    "the scalar byte loop. (4) a scalar leaves a vector at the width of its lanes: no 32-bit extraction "
    "(_mm_cvtsi128_si32, _mm_extract_epi32, ...) from a value produced by 64-bit-lane intrinsics (a "
    "64-bit kernel that does so keeps only the low half of a partial sum); every carquet_dispatch_<slot> "
    "wrapper, executed abstractly with the table seeded with marker kernels and the initialiser hooked, "
    "builds the table when it is not built and then calls exactly its own slot with its own arguments in "
    "order; (5) `cmpgt(and(x, M), 0)` with a constant M of single-bit lanes is a bit test: no lane of M may be "
    "the sign bit of the compared width (the masked value is then negative and a set bit reads as clear); (6) a "
    "per-lane counter `acc = sub_epiN(acc, cmpeq(...))` is flushed after at most 2^(N-1)-1 iterations when the "
    "flush reads the lanes as signed (madd_epi16, cvtepi16), 2^N-1 when unsigned. "
    "(7) a comparison on a vector filled by a zero-masking load is itself masked or its result is used only after `& mask` (R23.masked-tail): the lanes outside the tail hold 0 and would otherwise answer whenever the compared value is 0. (8) R10.aligned: a kernel that uses an alignment-requiring load, store or streaming instruction (_mm*_load_*/store_*/stream_* without `u`) is executed with every contract buffer at every element-aligned residue 0..63 and each such instruction must get an address aligned to its vector width - the scalar definition has no alignment precondition, so an aligned load without an alignment prologue is a fault the scalar kernel does not have. (state) the kernels keep no mutable file-scope or static state other than the dispatch tables' accepted lazy initialisation: a kernel's result is a function of its arguments, as the scalar definition's is - every mutable file-scope variable and static local under src/simd/ is thread-local, never written, or an accepted idempotent lazy table (rule shared with C07). Decides these clauses, not equality of outputs with the scalar definition; ARM kernels are "
    "not part of this build.")

DP = "src/simd/dispatch.c"
UNITS = {"sse": "src/simd/x86/sse_ops.c", "avx2": "src/simd/x86/avx2_ops.c", "avx512": "src/simd/x86/avx512_ops.c"}
CAP = {"has_sse42": "sse", "has_avx2": "avx2", "has_avx512f": "avx512"}
ORDER = ["has_sse42", "has_avx2", "has_avx512f"]


def ceil8(c):
    return (c + 7) // 8


# contract per kernel stem: list of (param index, element bytes as f(n), access: r|w|rw, must_cover)
def contract(stem, fn):
    names = [p["n"] for p in fn.params]
    m = re.match(r"bitunpack(\d+)_(\d+)bit$", stem)
    if m:
        k, w = int(m.group(1)), int(m.group(2))
        return {"size": None, "fixed": True,
                "bufs": {0: (lambda n: k * w // 8, "r", False), 1: (lambda n: 4 * k, "w", True)}}
    if stem in ("byte_stream_split_encode_float", "byte_stream_split_decode_float"):
        return {"size": 1, "bufs": {0: (lambda n: 4 * n, "r", False), 2: (lambda n: 4 * n, "w", True)}}
    if stem in ("byte_stream_split_encode_double", "byte_stream_split_decode_double"):
        return {"size": 1, "bufs": {0: (lambda n: 8 * n, "r", False), 2: (lambda n: 8 * n, "w", True)}}
    if stem == "prefix_sum_i32":
        return {"size": 1, "bufs": {0: (lambda n: 4 * n, "rw", False)}}
    if stem == "prefix_sum_i64":
        return {"size": 1, "bufs": {0: (lambda n: 8 * n, "rw", False)}}
    if stem in ("gather_i32", "gather_float"):
        return {"size": 2, "bufs": {1: (lambda n: 4 * n, "r", False), 3: (lambda n: 4 * n, "w", True)}, "any": {0}}
    if stem in ("gather_i64", "gather_double"):
        return {"size": 2, "bufs": {1: (lambda n: 4 * n, "r", False), 3: (lambda n: 8 * n, "w", True)}, "any": {0}}
    if stem == "crc32c":
        return {"size": 2, "bufs": {1: (lambda n: n, "r", False)}}
    if stem in ("memset", "memset_small"):
        return {"size": 2, "bufs": {0: (lambda n: n, "w", True)}}
    if stem in ("memcpy", "memcpy_small"):
        return {"size": 2, "bufs": {0: (lambda n: n, "w", True), 1: (lambda n: n, "r", False)}}
    if stem == "unpack_bools":
        return {"size": 2, "bufs": {0: (lambda n: ceil8(n), "r", False), 1: (lambda n: n, "w", True)}}
    if stem == "pack_bools":
        return {"size": 2, "bufs": {0: (lambda n: n, "r", False), 1: (lambda n: ceil8(n), "w", True)}}
    if stem == "match_copy":
        # src = dst - offset, so src[0 .. offset + len) is the already produced output plus dst
        return {"size": 2, "bufs": {0: (lambda n: n, "w", True), 1: (lambda n, off=None: n + 64, "r", False)},
                "extra": {3: [1, 2, 3, 4, 8, 15, 16, 32]}}
    if stem == "count_non_nulls":
        return {"size": 1, "bufs": {0: (lambda n: 2 * n, "r", False)}}
    if stem == "build_null_bitmap":
        return {"size": 1, "bufs": {0: (lambda n: 2 * n, "r", False), 3: (lambda n: ceil8(n), "w", True)}}
    if stem == "fill_def_levels":
        return {"size": 1, "bufs": {0: (lambda n: 2 * n, "w", True)}}
    if stem == "find_run_length_i32":
        return {"size": 1, "bufs": {0: (lambda n: 4 * n, "r", False)}}
    if stem == "match_length":
        return {"limit": True}
    return None


ELT = {"epi8": 1, "epi16": 2, "epi32": 4, "epi64": 8, "ps": 4, "pd": 8, "si128": 16, "si256": 32, "si512": 64}


class KInterp(Interp):
    """Skeleton interpreter with exact masked-access extents."""

    def call(self, e, env, fn, depth):
        name = e.callee or ""
        if name.startswith("_mm") and ("mask" in name) and ("loadu" in name or "storeu" in name or "load_" in name
                                                             or "store_" in name):
            args = [self.rv(self.ev(a, env, fn, depth), env) for a in e.args()]
            esz = 1
            for suf, sz in ELT.items():
                if name.endswith("_" + suf):
                    esz = sz
            width = 64 if name.startswith("_mm512") else 32 if name.startswith("_mm256") else 16
            ptrs = [a for a in args if isinstance(a, Ptr)]
            masks = [a for a, node in zip(args, e.args()) if isinstance(a, int) and "mask" in (node.t or "")]
            kind = "w" if "store" in name else "r"
            for p in ptrs:
                if masks:
                    lanes = masks[0].bit_length()
                    self.access(p, min(width, lanes * esz), kind, e)
                else:
                    self.access(p, width, kind, e, masked=True)
            return U
        m_ = ALIGNED_INTRINSIC.match(name)
        if m_ and "mask" not in name:
            # the instruction faults unless its memory operand is aligned to the vector width
            width = 64 if name.startswith("_mm512") else 32 if name.startswith("_mm256") else 16
            args = [self.rv(self.ev(a, env, fn, depth), env) for a in e.args()]
            al = getattr(self, "align", None)
            for p_ in args:
                if isinstance(p_, Ptr) and isinstance(p_.off, int) and (p_.base.startswith("b") or p_.base.startswith("any")):
                    self.access(p_, width, "w" if ("store" in name or "stream_s" in name or "stream_p" in name) and "load" not in name else "r", e)
                    res = ((al or {}).get(p_.base, 0) + p_.off) % width
                    if res:
                        self.misaligned.append((name, e.l, p_.base, res, width))
            return U
        return Interp.call(self, e, env, fn, depth)

    misaligned = ()

    def run(self, args):
        self.misaligned = []
        return Interp.run(self, args)


ALIGNED_INTRINSIC = re.compile(r"^_mm(256|512)?_(load|store|stream|stream_load)_(si128|si256|si512|ps|pd|epi32|epi64)$")


def _uses_aligned_intrinsic(P, fn, depth=0):
    for n in fn.body.walk():
        if n.k == "CallExpr" and n.callee:
            if ALIGNED_INTRINSIC.match(n.callee) and "mask" not in n.callee:
                return True
            if depth < 2:
                for g in P.by_name.get(n.callee, []):
                    if g.file == fn.file and g.key() != fn.key() and _uses_aligned_intrinsic(P, g, depth + 1):
                        return True
    return False


class _Rec:
    """Records ctx calls so a kernel can be analysed in a worker process."""

    def __init__(self):
        self.calls = []

    def ob(self, *a, **k):
        self.calls.append(("ob", a, k))

    def inconclusive(self, *a, **k):
        self.calls.append(("inconclusive", a, k))


_JOBS = {}


def _job(i):
    P, fn, stem, isa, maxn = _JOBS[i]
    rec = _Rec()
    n = run_kernel(rec, P, fn, stem, isa, maxn)
    return i, n, rec.calls


FORKY = {"find_run_length_i32": {"sse": 24, "avx2": 40, "avx512": 72, "scalar": 12}}


def run_kernel(ctx, P, fn, stem, isa, maxn):
    maxn = FORKY.get(stem, {}).get(isa, maxn)
    con = contract(stem, fn)
    key0 = "%s:%s" % (P.rel(fn.file), fn.name)
    if con is None:
        ctx.inconclusive("R10.extent", "kernel-contract|" + key0, P.where(fn.body),
                         "no access contract known for kernel stem `%s`" % stem)
        return 0
    if con.get("limit"):
        return _run_match_length(ctx, P, fn, key0)
    counts = [0] if con.get("fixed") else list(range(0, maxn + 1))
    extras = [None]
    if con.get("extra"):
        (ei, vals), = con["extra"].items()
        extras = vals
    bad = None
    miss = None
    runs = 0
    # kernels that look at the numeric address of a buffer (alignment prologues) are analysed once per
    # alignment class: each pointer parameter takes every residue 0..63 while the others stay aligned
    aligns = [None]
    uses_aligned = _uses_aligned_intrinsic(P, fn)
    misal = None
    if _casts_pointer_to_integer(P, fn) or uses_aligned:
        bases = ["b%d" % i for i in con["bufs"]]
        aligns = [dict((b, (m if b == vb else 0)) for b in bases) for vb in bases for m in range(64)]
        counts = [c for c in counts if c <= 192]
    for ex, al in [(e_, a_) for e_ in extras for a_ in aligns]:
        for n in counts:
            args = []
            for i, p in enumerate(fn.params):
                if i in con["bufs"]:
                    args.append(Ptr("b%d" % i, 0, _esz(p["t"])))
                elif i in con.get("any", ()):
                    args.append(Ptr("any%d" % i, 0, _esz(p["t"])))
                elif con["size"] is not None and i == con["size"]:
                    args.append(n)
                elif con.get("extra") and i in con["extra"]:
                    args.append(ex)
                else:
                    args.append(U if "*" in p["t"] else 0)
            it = KInterp(P, fn, budget=4000000, max_forks=30000)
            it.align = al
            try:
                outs = it.run(args)
            except (Budget, Stop) as exn:
                ctx.inconclusive("R10.extent", "kernel-extent|" + key0, P.where(fn.body),
                                 "skeleton execution of %s" % fn.name, "%s at count %d" % (exn, n))
                return runs
            if it.unknown_mem:
                um = [u for u in it.unknown_mem if not u[0].startswith("any")]
                if um:
                    ctx.inconclusive("R10.extent", "kernel-extent|" + key0, P.where(um[0][2]),
                                     "%s accesses a contract buffer at a content-dependent offset" % fn.name)
                    return runs
            # a buffer of T is at least T-aligned: residues that are not multiples of the element size are not inputs
            real_ = [x for x in it.misaligned
                     if not (al and x[2].startswith("b") and al.get(x[2], 0) % max(1, _esz(fn.params[int(x[2][1:])]["t"])))
                     and not (al and any(m_ % max(1, _esz(fn.params[int(b2[1:])]["t"])) for b2, m_ in al.items() if m_))]
            if real_ and misal is None:
                nm_, ln_, b_, r_, w_ = real_[0]
                misal = "count=%s, `%s` %s: %s at line %d needs %d-byte alignment, the address is %d past one" % (
                    n, fn.params[int(b_[1:])]["n"] if b_.startswith("b") else b_,
                    "aligned" if al is None or not al.get(b_) else "misaligned by %d" % al.get(b_), nm_, ln_, w_, r_)
            for acc, ret in outs:
                runs += 1
                cover = {}
                for a in acc:
                    if not a.base.startswith("b"):
                        continue
                    i = int(a.base[1:])
                    ext = con["bufs"][i][0](n)
                    if a.lo < 0 or a.hi > ext:
                        if a.masked:
                            ctx.inconclusive("R10.extent", "kernel-extent|" + key0, P.where(a.node),
                                             "masked access with an unknown mask")
                            return runs
                        if bad is None:
                            bad = (n, ex if al is None else "%s misaligned by %s" % (
                                [fn.params[int(b[1:])]["n"] for b, m in al.items() if m] or ["-"], [m for m in al.values() if m] or [0]),
                                   i, fn.params[i]["n"], a.lo, a.hi, ext, a.kind, a.node.l)
                    if a.kind == "w":
                        cover.setdefault(i, set()).update(range(max(a.lo, 0), min(a.hi, ext)))
                for i, (extf, kind, must) in con["bufs"].items():
                    if must and miss is None:
                        ext = extf(n)
                        got = cover.get(i, set())
                        if len(got) != ext:
                            miss = (n, ex, fn.params[i]["n"], sorted(set(range(ext)) - got)[:6])
    ctx.ob("R10.extent", "kernel-extent|" + key0, P.where(fn.body),
           "%s (%s): for every count 0..%d all loads/stores stay inside the buffers' extents" % (fn.name, isa, counts[-1]),
           bad is None,
           "count=%s%s: %s of `%s` bytes [%s,%s) outside extent %s (line %s)" % (
               bad[0], "" if bad[1] is None else " offset=%s" % bad[1], {"r": "read", "w": "write"}[bad[7]],
               bad[3], bad[4], bad[5], bad[6], bad[8]) if bad else "")
    if uses_aligned:
        ctx.ob("R10.aligned", "kernel-aligned|" + key0, P.where(fn.body),
               "%s (%s): every alignment-requiring load / store / stream instruction gets an aligned address, whatever the alignment of the caller's buffers "
               "(each buffer at every residue 0..63)" % (fn.name, isa), misal is None, misal or "")
    if any(m for (_, _, m) in con["bufs"].values()):
        ctx.ob("R10.cover", "kernel-cover|" + key0, P.where(fn.body),
               "%s (%s): for every count the whole output extent is written" % (fn.name, isa), miss is None,
               "count=%s: `%s` bytes %s never written" % (miss[0], miss[2], miss[3]) if miss else "")
    return runs


_ORD = {}


def _order(fn):
    """preorder position of every node of a (possibly helper-expanded) function body"""
    k = id(fn)
    if k not in _ORD:
        _ORD[k] = {n_.i: j for j, n_ in enumerate(fn.body.walk())}
    return _ORD[k]


def _casts_pointer_to_integer(P, fn, depth=0):
    for n in fn.body.walk():
        if n.k in ("CStyleCastExpr", "ImplicitCastExpr") and n.get("ck") == "PointerToIntegral":
            return True
        if n.k == "CallExpr" and n.callee and depth < 2:
            for g in P.by_name.get(n.callee, []):
                if g.file == fn.file and g.key() != fn.key() and _casts_pointer_to_integer(P, g, depth + 1):
                    return True
    return False


def _run_match_length(ctx, P, fn, key0):
    bad = None
    runs = 0
    for L in range(0, 80):
        args = [Ptr("p", 0, 1), Ptr("m", 0, 1), Ptr("p", L, 1)]
        it = KInterp(P, fn, budget=300000, max_forks=3000)
        try:
            outs = it.run(args)
        except (Budget, Stop) as exn:
            ctx.inconclusive("R10.extent", "kernel-extent|" + key0, P.where(fn.body), "skeleton execution", str(exn))
            return runs
        for acc, ret in outs:
            runs += 1
            for a in acc:
                if a.base in ("p", "m") and (a.lo < 0 or a.hi > L) and bad is None:
                    bad = (L, a.base, a.lo, a.hi, a.node.l)
    ctx.ob("R10.extent", "kernel-extent|" + key0, P.where(fn.body),
           "%s: reads of p and match stay below limit for every limit-p in 0..79" % fn.name, bad is None,
           "limit-p=%s: read of %s bytes [%s,%s) (line %s)" % bad if bad else "")
    return runs


def _dispatch_globals(P, rec):
    """(table global, flag global) of dispatch.c, found by what they are: the file-scope object of the table's
    record type, and the scalar file-scope variable the initialiser sets to a non-zero constant."""
    tab = [g["name"] for _, g in P.globals if P.rel(g["file"]) == DP and g.get("def") and not g.get("const")
           and g["t"].replace("struct ", "") in (rec["name"], rec["name"] + "_t", rec["name"].replace("_t", ""))]
    init = P.fn("carquet_simd_dispatch_init", DP)
    gl = set(g["name"] for _, g in P.globals if P.rel(g["file"]) == DP and g.get("def") and not g.get("const"))
    flags = []
    for f in [init] + [g for g in P.funcs_in(DP) if g.static and any(c.callee == g.name for c in init.calls())]:
        for a in f.body.walk():
            if is_assign(a) and a.op == "=" and a.c[0].strip().k == "DeclRefExpr" and a.c[0].strip().get("dk") == "global" \
                    and a.c[0].strip().name in gl and a.c[1].cv not in (None, 0) and a.c[0].strip().name not in flags:
                flags.append(a.c[0].strip().name)
    if len(set(tab)) != 1 or len(flags) != 1:
        raise AnalysisBroken("dispatch table / initialised flag of %s not identified (%s, %s)" % (DP, sorted(set(tab)), flags))
    return tab[0], flags[0]


def _dispatch_init_rules(ctx, P, rec, slots, TAB, FLAG):
    """carquet_simd_dispatch_init executed abstractly for every subset of {SSE4.2, AVX2, AVX-512F} reported by
    the CPU probe; the table it leaves behind is read slot by slot."""
    from ..rules import sem
    from ..rules.flow import after_reaches
    init = P.fn("carquet_simd_dispatch_init", DP)
    so_ = sem.field_offsets(P, rec["name"])
    co = sem.field_offsets(P, "carquet_cpu_info")
    RANK = {"sse": 1, "avx2": 2, "avx512": 3}
    unit_isa = {v: k for k, v in UNITS.items()}
    tables = {}
    try:
        for mask in range(8):
            S = tuple(c for i, c in enumerate(ORDER) if mask >> i & 1)
            heap0 = {("cpu", o): 0 for o in co.values()}
            for c in S:
                heap0[("cpu", co[c])] = 1
            for off in so_.values():
                heap0[("g:" + TAB, off)] = 0
            heap0[("g:" + FLAG, 0)] = 0
            ret, ev, heap = sem.run(P, init, [], heap0=heap0, hooks={"carquet_get_cpu_info": lambda ev, a, it: sem.Ptr("cpu", 0, 1)},
                                    single=True, max_forks=8, budget=200000, globals_={TAB: rec["size"], FLAG: 4})
            tables[S] = ({s_: heap.get(("g:" + TAB, so_[s_])) for s_ in slots}, heap.get(("g:" + FLAG, 0)))
    except (sem.Inconclusive, KeyError) as ex:
        ctx.inconclusive("R5.dispatch", "dispatch-init|%s" % DP, P.where(init.body), "abstract execution of carquet_simd_dispatch_init per capability set",
                         "%s: %s" % (type(ex).__name__, ex))
        return 0, set()

    def isa_of(fr):
        if not isinstance(fr, sem.FuncRef):
            return None, None
        cands = P.by_name.get(fr.name, [])
        if not cands:
            return fr.name, "?"
        rf = P.rel(cands[0].file)
        return fr.name, unit_isa.get(rf, "scalar" if rf == DP else "?")
    # what each slot can get at best
    avail = {s_: {} for s_ in slots}
    for S, (tab, flag) in tables.items():
        for s_ in slots:
            nm, isa = isa_of(tab[s_])
            if isa in RANK:
                avail[s_][isa] = nm
    nover = 0
    for s_ in slots:
        nm, isa = isa_of(tables[()][0][s_])
        key = "slot-scalar|%s|%s" % (DP, s_)
        what = "with no vector capability reported, slot %s holds the scalar implementation scalar_%s of dispatch.c" % (s_, s_)
        if nm is None:
            ctx.bad("R5.dispatch", key, P.where(init.body), what, "the slot is left empty")
        elif isa == "scalar" and not nm.startswith("scalar_"):
            ctx.inconclusive("R5.dispatch", key, P.where(init.body), what, "holds %s, a function of dispatch.c the rule cannot name" % nm)
        else:
            ctx.ob("R5.dispatch", key, P.where(init.body), what, isa == "scalar" and nm == "scalar_" + s_, "holds %s" % nm)
        for isa2, k in sorted(avail[s_].items()):
            nover += 1
            key = "slot-override|%s|%s|%s" % (DP, s_, k)
            stem = k.replace("carquet_%s_" % isa2, "").replace("byte_stream_split", "byte_split")
            wrong = [S for S, (tab, flag) in tables.items() if isa_of(tab[s_])[0] == k and CAP_INV[isa2] not in S]
            ctx.ob("R5.dispatch", key, P.where(init.body),
                   "the %s kernel %s is installed in slot %s only when the CPU reports %s, and it is the kernel for that slot" % (isa2, k, s_, CAP_INV[isa2]),
                   not wrong and stem == s_ and k.startswith("carquet_%s_" % isa2), "installed under %s" % (wrong[:2],) if wrong else "kernel stem %s" % stem)
    # the best kernel wins, whatever the order of the blocks
    badbest = None
    for S, (tab, flag) in tables.items():
        for s_ in slots:
            nm, isa = isa_of(tab[s_])
            best = max([i for i in avail[s_] if CAP_INV[i] in S], key=lambda i: RANK[i], default=None)
            want = avail[s_][best] if best else tables[()][0][s_].name if isinstance(tables[()][0][s_], sem.FuncRef) else None
            if nm != want and badbest is None:
                badbest = "capabilities %s: slot %s holds %s, the best available kernel is %s" % (list(S), s_, nm, want)
    ctx.ob("R5.dispatch", "override-order|%s" % DP, P.where(init.body),
           "for every capability set each slot ends up with the kernel of the highest ISA the CPU reports (SSE4.2 < AVX2 < AVX-512)",
           badbest is None, badbest or "")
    # flag: set in every scenario, and nothing is stored after it in the initialiser
    fl = [a for a in init.body.walk() if is_assign(a) and a.c[0].strip().k == "DeclRefExpr" and a.c[0].strip().name == FLAG and a.c[1].cv not in (None, 0)]
    late = any(after_reaches(init.cfg, a, lambda e: (is_assign(e) or e.k == "CallExpr") and e.i != a.i) is not None for a in fl) if init.cfg is not None else True
    ctx.ob("R5.dispatch", "init-flag-last|%s" % DP, P.where(init.body),
           "%s is set in every scenario, and no store or call follows it in the initialiser" % FLAG,
           bool(fl) and all(flag not in (0, None) for tab, flag in tables.values()) and not late)
    return nover, set(v.name for v in tables[()][0].values() if isinstance(v, sem.FuncRef))


CAP_INV = {v: k for k, v in CAP.items()}


def _esz(t):
    from ..rules.skeleton import pointee_size
    return pointee_size(t) or 1


def run(ctx):
    P = ctx.P
    ctx.clause("C15.9 the kernels keep no mutable file-scope or static state other than the dispatch tables' accepted lazy initialisation: a kernel's result is a function of its arguments, as the scalar definition's is (rule shared with C07)")
    from . import C07 as _c07
    ctx.count("file_scope_variables_examined", _c07.global_state(ctx, scope="src/simd/", rule="R7.kernel-state"))
    ctx.clause("C15.1 dispatch table complete, ordered, capability-guarded, slot/kernel/wrapper agreement, extern prototypes")
    ctx.clause("C15.2 access extents and output coverage of every x86 kernel and scalar fallback (skeleton execution)")
    ctx.clause("C15.3 match_copy kernels: block copies no wider than the guarded distance")
    from ..rules import overlap
    overlap.run(ctx, decoders=False)
    ctx.clause("C15.4 scalars leave a vector at the width of its lanes (no 32-bit extraction from 64-bit lanes)")
    from ..rules import lanes
    nlan = lanes.check(ctx, P.funcs_under("src/simd/"))
    ctx.floor("C15 lane extractions with a lane-typed operand", nlan, 3)
    ctx.clause("C15.5 a single-bit mask test is not decided by a signed vector compare that the sign-bit lane of the mask makes negative")
    nsb = lanes.check_signed_bit_test(ctx, P.funcs_under("src/simd/"))
    ctx.count("signed_bit_tests", nsb)
    ctx.clause("C15.6 per-lane match counters are flushed before a lane can outgrow the way it is read (signed / unsigned)")
    nlc = lanes.check_lane_counters(ctx, P.funcs_under("src/simd/"))
    ctx.count("lane_counters", nlc)
    ctx.clause("C15.7 a comparison on a zero-masked tail vector is itself masked: the lanes outside the tail (zeros) never answer")
    ctx.count("masked_tail_compares", lanes.check_masked_tail(ctx, P.funcs_under("src/simd/")))
    rec = P.record("carquet_simd_dispatch_t") if "carquet_simd_dispatch_t" in P.records else None
    if rec is None:
        for name, r in P.records.items():
            if any(f["n"] == "prefix_sum_i32" for f in r["fields"]):
                rec = r
    if rec is None:
        raise AnalysisBroken("dispatch table record not found")
    slots = [f["n"] for f in rec["fields"]]
    ctx.floor("C15 dispatch slots", len(slots), 19)
    TAB, FLAG = _dispatch_globals(P, rec)
    nover, installed = _dispatch_init_rules(ctx, P, rec, slots, TAB, FLAG)
    ctx.floor("C15 ISA overrides", nover, 35)
    for capn, isa in CAP.items():
        flags = [fl for fl in P.unit_flags.get(P.repo + "/" + UNITS[isa], []) if fl.startswith("-m")]
        ctx.count("unit_flags_%s" % isa, len(flags))

    # wrappers: each public entry point is executed abstractly with the table seeded (every slot holds a
    # marker kernel) and the initialiser hooked: with the table not yet built the initialiser runs first,
    # then exactly the slot of that name is called with the wrapper's own arguments in order
    from ..rules import sem
    nw = 0
    rname = rec["name"]
    so_ = sem.field_offsets(P, rname)
    for s in slots:
        w = P.fn_opt("carquet_dispatch_" + s, DP)
        if w is None:
            continue
        nw += 1
        bad = None
        try:
            for ready in (0, 1):
                heap0 = {("g:" + TAB, off): sem.FuncRef("kernel:" + nm) for nm, off in so_.items()}
                heap0[("g:" + FLAG, 0)] = ready
                args = [sem.Ptr("a%d" % i, 0, 1) if "*" in p["t"] else 1000 + i for i, p in enumerate(w.params)]

                def init_hook(ev, a, it):
                    ev.append("init")
                    it.heap[("g:" + FLAG, 0)] = 1
                hooks = {"carquet_simd_dispatch_init": init_hook}
                for nm in so_:
                    hooks["kernel:" + nm] = (lambda ev, a, it, nm=nm: ev.append(("kernel", nm) + tuple(
                        (x.base, x.off) if isinstance(x, sem.Ptr) else x for x in a)) or 0)
                ret, ev, heap = sem.run(P, w, args, heap0=heap0, hooks=hooks, single=True, max_forks=16,
                                        globals_={TAB: P.record(rname)["size"], FLAG: 4})
                want = ("kernel", s) + tuple((x.base, x.off) if isinstance(x, sem.Ptr) else x for x in args)
                ks = [e for e in ev if e != "init"]
                if ks != [want] or (not ready and ev[:1] != ["init"]):
                    bad = bad or "table %s: does %s, expected %s" % ("built" if ready else "not built", ev, (["init"] if not ready else []) + [want])
            ctx.ob("R5.dispatch", "wrapper|%s|%s" % (DP, s), P.where(w.body),
                   "carquet_dispatch_%s initialises the table when needed and calls slot %s with its own parameters in order "
                   "(abstract execution)" % (s, s), bad is None, bad or "")
        except (sem.Inconclusive, KeyError) as ex:
            ctx.inconclusive("R5.dispatch", "wrapper|%s|%s" % (DP, s), P.where(w.body), "abstract execution of the wrapper",
                             "%s: %s" % (type(ex).__name__, ex))
    ctx.floor("C15 dispatch wrappers", nw, 15)

    # extern prototypes of kernels equal their definitions
    defs = {}
    for unit, fd in P.funcdecls:
        if fd["def"]:
            defs.setdefault(fd["name"], set()).add(fd["ctype"])
    npro = 0
    seenp = set()
    for unit, fd in P.funcdecls:
        if fd["def"] or not P.rel(fd["file"]).endswith(".c") or not P.rel(fd["file"]).startswith("src/simd/"):
            continue
        if fd["name"] not in defs or (fd["name"], fd["file"]) in seenp:
            continue
        seenp.add((fd["name"], fd["file"]))
        npro += 1
        ctx.ob("R5.prototype", "extern-proto|%s|%s" % (P.rel(fd["file"]), fd["name"]),
               "%s:%d" % (P.rel(fd["file"]), fd["line"]),
               "hand-written prototype of %s equals its definition" % fd["name"], fd["ctype"] in defs[fd["name"]],
               "declared %s / defined %s" % (fd["ctype"], sorted(defs[fd["name"]])))
    ctx.floor("C15 extern kernel prototypes", npro, 40)

    # ---- extents (one worker per kernel)
    import concurrent.futures
    import multiprocessing
    jobs = []
    for isa, unit in UNITS.items():
        maxn = {"sse": ctx.depth(70, 200), "avx2": ctx.depth(140, 400), "avx512": ctx.depth(280, 800)}[isa]
        for fn in sorted(P.funcs_in(unit), key=lambda f: f.line):
            if fn.static or not fn.name.startswith("carquet_%s_" % isa):
                continue
            jobs.append((P, fn, fn.name.replace("carquet_%s_" % isa, ""), isa, maxn))
    for fn in sorted(P.funcs_in(DP), key=lambda f: f.line):
        if fn.name.startswith("scalar_") and fn.name in installed:     # helpers of the fallbacks are reached through them
            jobs.append((P, fn, fn.name.replace("scalar_", "").replace("byte_split", "byte_stream_split"), "scalar", ctx.depth(40, 130)))
    _JOBS.clear()
    for i, j in enumerate(jobs):
        _JOBS[i] = j
    total = 0
    results = {}
    try:
        mp = multiprocessing.get_context("fork")
        with concurrent.futures.ProcessPoolExecutor(max_workers=16, mp_context=mp) as ex:
            for i, n, calls in ex.map(_job, range(len(jobs))):
                results[i] = (n, calls)
    except Exception:
        for i in range(len(jobs)):
            results[i] = _job(i)[1:]
    for i in range(len(jobs)):
        n, calls = results[i]
        total += n
        for kind, a, k in calls:
            getattr(ctx, kind)(*a, **k)
    ctx.count("kernels", len(jobs))
    ctx.count("skeleton_runs", total)
    ctx.floor("C15 kernels analysed", len(jobs), 70)
