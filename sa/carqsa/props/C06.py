"""C06 - spec-valid files from another writer (rejection / width / table clauses)."""
from ..canon import Canon, subtrees, show
from ..extract import AnalysisBroken
from ..facts import src
from ..rules.skeleton import Interp, Ptr, U, Budget, Stop
from ..spec_parquet import ENUMS
from ..util import switch_table, find_switches, is_assign
from . import C05

EXPLANATION = (
    "Static decision of structural clauses of C06: (1) unimplemented features are rejected, by abstract "
    "execution per enum value (and values outside the enum): decompress_page per codec, "
    "carquet_decode_plain per physical type, carquet_read_data_page_v1 per value encoding (PLAIN to the "
    "PLAIN dispatcher, the dictionary encodings to the index decoder and only with a dictionary loaded, "
    "everything else refused without decoding); the page types admitted by each loader are exactly those "
    "whose header member is consumed downstream (DATA_PAGE_V2 is refused); (2) level bit width: the "
    "reader's bit_width_for_max is evaluated for every level 0..32767, the writer's width (the function, "
    "or the value handed to the RLE encoder by encode_levels) likewise; carquet_read_data_page_v1 "
    "executed over max levels x wanted arrays decodes repetition then definition levels from their "
    "length-prefixed blocks with the bit width of the column's max level into the matching array, values "
    "after them, and dictionary indices with the width stored in the first value byte; (3) the reader's "
    "level table (shared with C17.1); (4) enum tags equal parquet.thrift and every Thrift wire-type tag "
    "equals the compact protocol; (5) the codec tag alone decides how page bytes are interpreted "
    "(decompress_page and the four loaders per codec value and size relation); (6) no decoder-side "
    "function assembles a multi-byte integer big-endian, and no byte assembly of type int can carry bit 31 into a 64-bit result (sign extension on widening); (7) page geometry, by the loader traces: after a "
    "dictionary page the first data page is looked for at dictionary offset + header size + compressed "
    "(stored) size whatever the codec, a data page header is read at data_start_offset + bytes already "
    "consumed, and the loader records header size and stored size as the amounts the cursor advances by; (8) "
    "carquet_zstd_decompress, executed against a model of libzstd for a valid frame (content size recorded "
    "in the frame or absent - streaming encoders omit it -, decompression context available or not, frame "
    "equal to / below the capacity), returns OK with the decoded size and hands the library the caller's "
    "extents; a frame larger than the destination is an error; (9) a read that spans pages appends values, "
    "definition and repetition levels where the previous page stopped (shared with C02.7). "
    "(10) what a decoding loop reads through a pointer cursor it steps over before its next iteration (R40: no path from a read through the cursor to the next iteration's read without a store to the cursor - a `continue` may skip an element that was not read, not one that was). (11) the RLE/bit-packing hybrid decoder, executed on streams written from the specification (several groups per bit-packed run, zero-length runs, a padded final group, runs longer than wanted; headers and RLE values concrete, packed payload opaque, group unpacker hooked), returns the values and the count the specification names (shared with C12.2). (12) the PLAIN decoders, executed on streams written from the specification for all eight physical types (values whose bytes all differ, booleans with set padding bits, empty and 300-byte byte arrays), directly and through the carquet_decode_plain type switch, return the stream's values and its length in bytes (shared with C12.9). (13) the built-in Snappy and LZ4 decompressors on valid streams built from the format documents with opaque payload, compared byte for byte (provenance) with a decoder written from the documents (shared with C10). Decides these clauses, not that decoded values/levels equal the stored ones for every file.")

from ..rules.sem import Inconclusive as sem_Inconclusive
PR = "src/reader/page_reader.c"
PW = "src/writer/page_writer.c"
PL = "src/encoding/plain.c"


def _eval_fn(P, fn, args):
    it = Interp(P, fn, budget=20000, max_forks=4)
    outs = it.run(args)
    if len(outs) != 1:
        return None
    return outs[0][1]


def run(ctx):
    P = ctx.P
    ctx.clause("C06.11 the hybrid decoder reads streams written from the specification - multi-group bit-packed runs, zero-length runs (an empty RLE run still carries its value), padded final groups, over-long runs - as the specification does (rule shared with C12.2)")
    from ..rules import encspec
    nhd = encspec.check_hybrid_decoder(ctx)
    ctx.floor("C06 specification streams through the hybrid decoder", nhd, 100)
    ctx.count("level_decoder_streams", encspec.check_levels_decoder(ctx))
    ctx.clause("C06.12 PLAIN values of a specification-written page: little-endian fixed-width values, booleans LSB-first (padding bits ignored), BYTE_ARRAY as "
               "4-byte length plus bytes, FIXED_LEN_BYTE_ARRAY as the bytes alone - every decoder directly and through the carquet_decode_plain type switch")
    npl = encspec.check_plain(ctx, encoders=False)
    ctx.floor("C06 PLAIN streams through the decoders", npl, 30)
    ctx.clause("C06.13 the built-in SNAPPY and LZ4_RAW decompressors return, for valid streams built from the format documents (every element kind, lengths and offsets on either "
               "side of every field boundary incl. 16-bit offsets with the top bit set, overlapping copies), the bytes the formats define (rule shared with C10)")
    from ..rules import blockfmt
    nbf = blockfmt.check(ctx, valid_only=True)
    ctx.floor("C06 format-built streams through the block decompressors", nbf, 60)
    ctx.clause("C06.10 what a decoding loop reads through a pointer cursor it steps over before its next iteration (no group, run or value is decoded twice)")
    from ..rules import loopcursor
    nlc = loopcursor.check(ctx, [f for f in P.lib_functions() if P.rel(f.file).startswith(("src/encoding/", "src/compression/", "src/thrift/", "src/core/", "src/reader/"))])
    ctx.floor("C06 reads through a loop's pointer cursor", nlc, 20)
    ctx.clause("C06.1 unimplemented codecs/encodings/types/page types are rejected")
    ctx.clause("C06.2 level and index bit widths")
    ctx.clause("C06.4 enum tags / wire-type tags equal the specifications")
    ctx.clause("C06.5 page bytes are interpreted by the chunk's codec tag alone")
    from ..rules import codecrepr
    codecrepr.reader(ctx)
    codecrepr.loaders(ctx)
    ctx.clause("C06.8 the ZSTD wrapper accepts every valid frame that fits, with or without a recorded content size")
    from ..rules import codecwrap
    nzs = codecwrap.check(ctx)
    ctx.clause("C06.9 values, definition and repetition levels of a multi-page read land where the previous page stopped (rule shared with C02.7)")
    from . import C02
    C02._stitching(ctx)
    ctx.clause("C06.6 multi-byte integers are assembled little-endian on the decoding side")
    from ..rules import endian
    efns = P.funcs_under("src/encoding/", "src/compression/", "src/reader/", "src/thrift/", "src/core/", "src/util/", "src/metadata/")
    ctx.floor("C06 functions scanned for byte order", len(efns), 350)
    endian.check(ctx, efns)
    from ..rules import widen
    widen.check_signext(ctx, sorted(set(P.rel(f.file) for f in efns)))
    # ---- (1) switches with error defaults
    # the codec table of decompress_page (every enum value and a value outside it) is decided by
    # execution in codecrepr.reader above, the physical-type table of carquet_decode_plain here:
    codecrepr.plain_tables(ctx)
    # page types admitted vs header member consumed
    for fname, want_type, member in (("load_next_page_mmap", "CARQUET_PAGE_DATA", "data_page_header"),
                                     ("load_next_page_fread", "CARQUET_PAGE_DATA", "data_page_header"),
                                     ("load_dictionary_page_mmap", "CARQUET_PAGE_DICTIONARY", "dictionary_page_header"),
                                     ("load_dictionary_page_fread", "CARQUET_PAGE_DICTIONARY", "dictionary_page_header")):
        fn = P.fn(fname, PR)
        admit = None
        guard = None
        for n in fn.body.walk():
            if n.k == "IfStmt":
                kids = [x for x in n.c if x is not None]
                c = kids[0].strip()
                if c.k == "BinaryOperator" and c.op == "!=" and "page_header.type" in src(c.c[0]) and \
                        any(r.k == "ReturnStmt" for r in kids[1].walk()):
                    x = c.c[1].strip_casts()
                    admit = x.name if x.k == "DeclRefExpr" else src(x)
                    guard = n
        used = set(x.name for x in fn.body.walk() if x.k == "MemberExpr" and x.get("rec") == "parquet_page_header::<anon>")
        others = used - {member}
        key = "page-type|%s:%s" % (PR, fname)
        ctx.ob("R5.reject", key, P.where(guard) if guard is not None else P.where(fn.body),
               "%s admits only %s and consumes only page_header.%s" % (fname, want_type, member),
               admit == want_type and not others, "admits %s; uses header members %s" % (admit, sorted(used)))
        if guard is not None:
            first = min((x for x in guard.walk() if x.i in fn.cfg.where()), key=lambda x: x.i)
            uses = [x for x in fn.body.walk() if x.k == "MemberExpr" and x.name == member]
            ctx.ob("R6.dominate", key + "|dominates", P.where(guard),
                   "the page-type test precedes every use of page_header.%s" % member,
                   all(fn.cfg.node_dominates(first, u) for u in uses if u.i in fn.cfg.where()))
    v2 = [n for n in P.fn("load_next_page_mmap", PR).body.walk() if n.k == "IfStmt" and
          "CARQUET_PAGE_DATA_V2" in src([x for x in n.c if x is not None][0])]
    nouse = not any(x.k == "MemberExpr" and x.name == "data_page_header_v2" for f in P.funcs_under("src/reader/")
                    for x in f.body.walk())
    ctx.ob("R5.reject", "v2-unused|src/reader", "src/reader", "nothing in the reader consumes data_page_header_v2 "
           "(so DATA_PAGE_V2 must not be admitted)", nouse)

    # ---- (2) bit widths, exhaustively over the int16 level domain
    for fname, file_ in (("bit_width_for_max", PR), ("bit_width_for_max", PW)):
        if file_ == PW and not [f for f in P.by_name.get(fname, []) if P.rel(f.file) == PW]:
            # the writer computes the width inside its level encoder: execute that for every level and
            # observe the width handed to the RLE encoder
            from ..rules import sem
            fn = P.fn("encode_levels", PW)
            bad = None
            seen_w = 0
            try:
                for v in range(1, 32768):
                    got = []
                    hooks = {"malloc": lambda ev, a, it: sem.Ptr("tmp", 0, 4), "free": lambda ev, a, it: None,
                             "carquet_rle_encode_all": lambda ev, a, it, got=got: got.append(a[2]) or 0,
                             "carquet_rle_encode_levels": lambda ev, a, it, got=got: got.append(a[2]) or 0,
                             "carquet_buffer_init": lambda ev, a, it: None, "carquet_buffer_destroy": lambda ev, a, it: None,
                             "carquet_buffer_append": lambda ev, a, it: 0, "carquet_buffer_append_byte": lambda ev, a, it: 0}
                    sem.run(P, fn, [sem.Ptr("lv", 0, 2), 0, v, sem.Ptr("out", 0, 1)], hooks=hooks, single=True, budget=20000)
                    seen_w += 1
                    if got != [v.bit_length()]:
                        bad = (v, got, v.bit_length())
                        break
            except sem.Inconclusive as ex:
                ctx.inconclusive("R5.spec", "level-width|%s:%s" % (file_, fn.name), P.where(fn.body), str(ex))
                continue
            ctx.ob("R5.spec", "level-width|%s:%s" % (file_, fn.name), P.where(fn.body),
                   "the width handed to the RLE level encoder is the number of bits of max_level, for every level 1..32767 "
                   "(exhaustive abstract execution)", bad is None, "m=%s gives %s, needs %s" % bad if bad else "%d values" % seen_w)
            continue
        fn = P.fn(fname, file_)
        bad = None
        try:
            for v in range(0, 32768):
                got = _eval_fn(P, fn, [v])
                if got != v.bit_length():
                    bad = (v, got, v.bit_length())
                    break
        except (Budget, Stop) as ex:
            ctx.inconclusive("R5.spec", "level-width|%s:%s" % (file_, fname), P.where(fn.body), str(ex))
            continue
        ctx.ob("R5.spec", "level-width|%s:%s" % (file_, fname), P.where(fn.body),
               "bit_width_for_max(m) = number of bits of m for every level 0..32767 (exhaustive)", bad is None,
               "m=%s gives %s, needs %s" % bad if bad else "32768 values")
    # the v1 data-page reader is executed abstractly per configuration (level decoder, index decoder,
    # PLAIN dispatcher, gathers and length reads hooked): which decoder gets which bytes with which width
    from ..rules import pageread, sem
    dp = P.fn("carquet_read_data_page_v1", PR)
    encs = P.enum("carquet_encoding")
    PLAINV = encs["CARQUET_ENCODING_PLAIN"]
    DICTS = {encs["CARQUET_ENCODING_PLAIN_DICTIONARY"], encs["CARQUET_ENCODING_RLE_DICTIONARY"]}
    verd = {"level-width-source": None, "level-layout": None, "index-width-source": None, "encoding-table": None,
            "encoding-rejects": None, "dictionary-required": None}
    ntr = 0

    def fail(k, msg):
        if verd[k] is None:
            verd[k] = msg
    try:
        for mr in (0, 1, 2, 3, 7):
            for md in (0, 1, 2, 5):
                for wr, wd in ((True, True), (False, True), (True, False)):
                    ret, ev, nread = pageread.trace(P, max_rep=mr, max_def=md, want_rep=wr, want_def=wd, encoding=PLAINV)
                    ntr += 1
                    sc = "max_rep=%d max_def=%d rep_levels=%s def_levels=%s" % (mr, md, wr, wd)
                    lv = [e for e in ev if e[0] == "levels"]
                    want = []
                    offp = 0
                    if mr > 0 and wr:
                        want.append(("levels", ("page", offp + 4), pageread.REP_SIZE, mr.bit_length(), ("repl", 0), 0))
                        offp += 4 + pageread.REP_SIZE
                    if md > 0 and wd:
                        want.append(("levels", ("page", offp + 4), pageread.DEF_SIZE, md.bit_length(), ("defl", 0), 0))
                        offp += 4 + pageread.DEF_SIZE
                    if [(e[3], e[4]) for e in lv] != [(e[3], e[4]) for e in want]:
                        fail("level-width-source", "%s: level decodes (width, array) %s, expected %s" % (
                            sc, [(e[3], e[4][0]) for e in lv], [(e[3], e[4][0]) for e in want]))
                    elif lv != want:
                        fail("level-layout", "%s: level blocks %s, expected %s" % (sc, lv, want))
                    pl = [e for e in ev if e[0] == "plain"]
                    if ret != 0 or len(pl) != 1 or pl[0][1] != ("page", offp) or pl[0][2] != pageread.PAGE_SIZE - offp:
                        fail("level-layout", "%s: values decoded from %s, expected offset %d with %d bytes left (returns %s)" % (
                            sc, pl, offp, pageread.PAGE_SIZE - offp, ret))
        for name, v in sorted(list(encs.items()) + [("<unknown 99>", 99), ("<unknown -1>", -1)], key=lambda kv: kv[1]):
            for hd in (True, False):
                ret, ev, nread = pageread.trace(P, max_def=1, encoding=v, has_dict=hd)
                ntr += 1
                dec = [e[0] for e in ev if e[0] in ("plain", "indices", "gather")]
                if v == PLAINV:
                    if dec != ["plain"] or ret != 0:
                        fail("encoding-table", "%s: decoders %s, returns %s" % (name, dec, ret))
                elif v in DICTS and hd:
                    ix = [e for e in ev if e[0] == "indices"]
                    if dec[:1] != ["indices"] or ret != 0:
                        fail("encoding-table", "%s: decoders %s, returns %s" % (name, dec, ret))
                    elif ix[0][3] != pageread.WIDTH_BYTE or ix[0][1] != ("page", 4 + pageread.DEF_SIZE + 1) or \
                            ix[0][2] != pageread.PAGE_SIZE - 4 - pageread.DEF_SIZE - 1:
                        fail("index-width-source", "%s: indices decoded as %s; the width byte is %d at offset %d" % (
                            name, ix[0], pageread.WIDTH_BYTE, 4 + pageread.DEF_SIZE))
                    # a page whose index width byte is 0 (a one-entry dictionary): the indices the gather reads are still this
                    # page's - decoded, or cleared, in this call - not what an earlier page of the chunk left in the reused buffer
                    try:
                        ret0, ev0, nread0 = pageread.trace(P, max_def=0, encoding=v, has_dict=True, width_byte=0, num_values=8, dict_count=4)
                        ntr += 1
                        seq0 = [e for e in ev0 if e[0] in ("indices", "gather", "memset")]
                        first_use = next((i for i, e in enumerate(seq0) if e[0] == "gather"), None)
                        prepared = any(e[0] == "indices" or (e[0] == "memset" and isinstance(e[1], tuple) and str(e[1][0]).startswith("idx")) for e in seq0[:first_use if first_use is not None else len(seq0)])
                        if ret0 == 0 and first_use is not None and not prepared:
                            fail("index-width-source", "%s, index width byte 0, 8 values: the values are gathered through the index buffer although no index was decoded or cleared in this call (events %s)" % (name, [e[0] for e in seq0]))
                        elif ret0 == 0 and first_use is None and not prepared and nread0 not in (0, None):
                            fail("index-width-source", "%s, index width byte 0: %r values reported without decoding indices (events %s)" % (name, nread0, [e[0] for e in ev0][:6]))
                    except sem_Inconclusive:
                        pass
                elif v in DICTS:
                    if dec or not isinstance(ret, int) or ret == 0:
                        fail("dictionary-required", "%s without a dictionary: decoders %s, returns %s" % (name, dec, ret))
                else:
                    if dec or not isinstance(ret, int) or ret == 0:
                        fail("encoding-rejects", "%s: decoders %s, returns %s" % (name, dec, ret))
        what = {"level-width-source": "levels are decoded with the bit width of the column's max_rep/max_def level into the matching level array",
                "level-layout": "each level block is its 4-byte length prefix plus that many bytes, repetition before definition, values after them",
                "index-width-source": "dictionary indices are decoded with the bit width stored in the page's first value byte, from the byte after it",
                "encoding-table": "PLAIN pages go to the PLAIN dispatcher, dictionary-encoded pages to the index decoder",
                "encoding-rejects": "every other value encoding (and values outside the enum) is refused without decoding",
                "dictionary-required": "a dictionary-encoded page without a loaded dictionary is refused"}
        for k_, msg in verd.items():
            ctx.ob("R6.provenance" if "source" in k_ or "layout" in k_ else "R5.reject", "%s|%s:%s" % (k_, PR, dp.name), P.where(dp.body),
                   what[k_] + " (%d configurations, abstract execution)" % ntr, msg is None, msg or "")
    except (sem.Inconclusive, KeyError) as ex:
        ctx.inconclusive("R6.provenance", "page-read-trace|%s:%s" % (PR, dp.name), P.where(dp.body),
                         "abstract execution of the data-page reader", "%s: %s" % (type(ex).__name__, ex))
    ctx.floor("C06 data-page reader configurations", ntr, 60)
    # ---- where pages are found: the loaders, executed abstractly (same harness as C14)
    ctx.clause("C06.7 pages are located by header size + stored (compressed) size: dictionary page, then data pages one after the other")
    from ..rules import loaders as LD
    ptv = P.enum("carquet_page_type")
    cdc = P.enum("carquet_compression")
    geo = {"dict-then-data": None, "page-at-cursor": None, "advance-by-stored-size": None}
    ngeo = 0
    try:
        for name in LD.LOADERS:
            isdict = "dictionary" in name
            for codec in (cdc["CARQUET_COMPRESSION_UNCOMPRESSED"], cdc["CARQUET_COMPRESSION_SNAPPY"], cdc["CARQUET_COMPRESSION_ZSTD"]):
                for cur in ((0,) if isdict else (0, 777)):
                    ret, ev, out = LD.trace(P, name, ptv["CARQUET_PAGE_DICTIONARY"] if isdict else ptv["CARQUET_PAGE_DATA"],
                                            0, 1, 0, 0, codec, current_page=cur)
                    ngeo += 1
                    sc = "%s, codec %d%s" % (name, codec, "" if isdict else ", %d bytes of pages already read" % cur)
                    if ret != 0:
                        geo["page-at-cursor"] = geo["page-at-cursor"] or "%s: returns %s" % (sc, ret)
                        continue
                    if isdict:
                        want = LD.DICT_OFF + LD.HEADER_SIZE + LD.CSIZE
                        if out["data_start_offset"] != want:
                            geo["dict-then-data"] = geo["dict-then-data"] or (
                                "%s: first data page expected at %s; the dictionary page is %d header + %d stored bytes at %d, so it ends at %d"
                                % (sc, out["data_start_offset"], LD.HEADER_SIZE, LD.CSIZE, LD.DICT_OFF, want))
                    else:
                        hdr = [e for e in ev if e[0] == "parse-header"]
                        rd = [e for e in ev if e[0] == "read"]
                        at = rd[0][1] if rd else (hdr[0][1][1] if hdr and isinstance(hdr[0][1], tuple) and len(hdr[0][1]) > 1 else None)
                        if at != LD.DATA_OFF + cur:
                            geo["page-at-cursor"] = geo["page-at-cursor"] or "%s: header read at %s, expected %d" % (sc, at, LD.DATA_OFF + cur)
                        if out["page_header_size"] != LD.HEADER_SIZE or out["page_compressed_size"] != LD.CSIZE:
                            geo["advance-by-stored-size"] = geo["advance-by-stored-size"] or (
                                "%s: records header %s + payload %s, the page is %d + %d stored bytes"
                                % (sc, out["page_header_size"], out["page_compressed_size"], LD.HEADER_SIZE, LD.CSIZE))
        whatg = {"dict-then-data": "after the dictionary page the first data page is looked for at dictionary offset + header size + compressed (stored) size, whatever the codec",
                 "page-at-cursor": "a data page header is read at data_start_offset + the bytes of the pages already consumed",
                 "advance-by-stored-size": "the loader records header size and compressed (stored) size of the page, the amounts the cursor advances by"}
        for k_, msg in geo.items():
            ctx.ob("R6.provenance", "%s|%s" % (k_, PR), PR, whatg[k_] + " (%d loader scenarios, abstract execution)" % ngeo, msg is None, msg or "")
    except (sem.Inconclusive, KeyError) as ex:
        ctx.inconclusive("R6.provenance", "page-geometry|%s" % PR, PR, "abstract execution of the page loaders", "%s: %s" % (type(ex).__name__, ex))
    ctx.floor("C06 loader geometry scenarios", ngeo, 12)
    # definition levels of non-nullable pages default to max (all present)
    # ---- (4)
    for en, (spec, prefix) in C05.ENUM_MAP.items():
        vals = P.enum(en)
        for cname, v in sorted(vals.items(), key=lambda kv: kv[1]):
            if v < 0:
                continue
            short = cname.replace(prefix, "")
            if en == "carquet_page_type":
                short = C05.PAGE_ALIAS.get(short, short)
            ok = short in ENUMS[spec] and ENUMS[spec][short] == v
            ctx.ob("R5.spec", "enum|%s|%s" % (en, cname), en, "%s equals parquet.thrift %s.%s" % (cname, spec, short), ok,
                   nontrivial=False)
