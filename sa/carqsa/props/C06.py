"""C06 - spec-valid files from another writer (rejection / width / table clauses)."""
from ..canon import Canon, subtrees, show
from ..extract import AnalysisBroken
from ..facts import src
from ..rules.skeleton import Interp, Ptr, U, Budget, Stop
from ..spec_parquet import ENUMS
from ..util import switch_table, find_switches, is_assign
from . import C05

EXPLANATION = (
    "Static decision of structural clauses of C06: (1) unimplemented features are rejected: the codec "
    "switch of decompress_page, the value-encoding switch of carquet_read_data_page_v1 and the "
    "physical-type switch of carquet_decode_plain have error defaults and arms only for what is "
    "decoded; the page types admitted by each loader are exactly those whose header member is consumed "
    "downstream (DATA_PAGE -> data_page_header, DICTIONARY_PAGE -> dictionary_page_header; "
    "DATA_PAGE_V2 is refused); (2) level bit width: the reader's and the writer's bit_width_for_max "
    "are evaluated exhaustively for every level 0..32767 and equal ceil(log2(max+1)); the width handed "
    "to the level decoder is bit_width_for_max(max_rep/def_level) of the column and the dictionary "
    "index width is the page's first byte; (3) the reader's level table (shared with C17.1); (4) enum "
    "tags equal parquet.thrift (shared with C05.2) and every Thrift wire-type tag equals the compact "
    "protocol; (5) decompress_page, executed once per codec value and size relation, copies raw bytes only for "
    "UNCOMPRESSED and calls exactly that codec's decompressor otherwise; (6) no decoder-side function assembles a multi-byte integer "
    "with the big-endian accumulation idiom (accumulator shifted left by whole bytes, then OR-ed with the "
    "next byte): every integer of the format is little-endian. Decides these clauses, not that decoded values/levels equal the stored ones.")

PR = "src/reader/page_reader.c"
PW = "src/writer/page_writer.c"
PL = "src/encoding/plain.c"


def _eval_fn(P, fn, args):
    it = Interp(P, fn, budget=20000, max_forks=4)
    outs = it.run(args)
    if len(outs) != 1:
        return None
    return outs[0][1]


def run(ctx):
    P = ctx.P
    ctx.clause("C06.1 unimplemented codecs/encodings/types/page types are rejected")
    ctx.clause("C06.2 level and index bit widths")
    ctx.clause("C06.4 enum tags / wire-type tags equal the specifications")
    ctx.clause("C06.5 page bytes are interpreted by the chunk's codec tag alone")
    from ..rules import codecrepr
    codecrepr.reader(ctx)
    codecrepr.loaders(ctx)
    ctx.clause("C06.6 multi-byte integers are assembled little-endian on the decoding side")
    from ..rules import endian
    efns = P.funcs_under("src/encoding/", "src/compression/", "src/reader/", "src/thrift/", "src/core/", "src/util/", "src/metadata/")
    ctx.floor("C06 functions scanned for byte order", len(efns), 350)
    endian.check(ctx, efns)
    # ---- (1) switches with error defaults
    for fname, file_, what, on, allowed in (
            ("decompress_page", PR, "codec", "codec",
             {"CARQUET_COMPRESSION_UNCOMPRESSED", "CARQUET_COMPRESSION_SNAPPY", "CARQUET_COMPRESSION_GZIP",
              "CARQUET_COMPRESSION_LZ4", "CARQUET_COMPRESSION_LZ4_RAW", "CARQUET_COMPRESSION_ZSTD"}),
            ("carquet_read_data_page_v1", PR, "value encoding", "encoding",
             {"CARQUET_ENCODING_PLAIN", "CARQUET_ENCODING_PLAIN_DICTIONARY", "CARQUET_ENCODING_RLE_DICTIONARY"}),
            ("carquet_decode_plain", PL, "physical type", "type", None)):
        fn = P.fn(fname, file_)
        sws = [s for s in find_switches(fn) if on in src(s.c[-2]) and "reader->type" not in src(s.c[-2])]
        if not sws:
            raise AnalysisBroken("%s: switch over the %s not found" % (fname, what))
        tab, order = switch_table(sws[0])
        d = tab.get("default")
        okd = d is not None and any(r.k == "ReturnStmt" and r.c and r.c[0] is not None and r.c[0].cv not in (0, None)
                                    for s in d for r in s.walk())
        ctx.ob("R5.reject", "default-rejects|%s:%s" % (file_, fname), P.where(sws[0]),
               "an unknown %s is rejected by %s" % (what, fname), okd)
        if allowed is not None:
            labs = set(l for l in tab if l != "default")
            ctx.ob("R5.reject", "arms|%s:%s" % (file_, fname), P.where(sws[0]),
                   "%s has arms exactly for the implemented %ss" % (fname, what), labs == allowed,
                   "extra %s missing %s" % (sorted(labs - allowed), sorted(allowed - labs)))
    # page types admitted vs header member consumed
    for fname, want_type, member in (("load_next_page_mmap", "CARQUET_PAGE_DATA", "data_page_header"),
                                     ("load_next_page_fread", "CARQUET_PAGE_DATA", "data_page_header"),
                                     ("load_dictionary_page_mmap", "CARQUET_PAGE_DICTIONARY", "dictionary_page_header"),
                                     ("load_dictionary_page_fread", "CARQUET_PAGE_DICTIONARY", "dictionary_page_header")):
        fn = P.fn(fname, PR)
        admit = None
        guard = None
        for n in fn.body.walk():
            if n.k == "IfStmt":
                kids = [x for x in n.c if x is not None]
                c = kids[0].strip()
                if c.k == "BinaryOperator" and c.op == "!=" and "page_header.type" in src(c.c[0]) and \
                        any(r.k == "ReturnStmt" for r in kids[1].walk()):
                    x = c.c[1].strip_casts()
                    admit = x.name if x.k == "DeclRefExpr" else src(x)
                    guard = n
        used = set(x.name for x in fn.body.walk() if x.k == "MemberExpr" and x.get("rec") == "parquet_page_header::<anon>")
        others = used - {member}
        key = "page-type|%s:%s" % (PR, fname)
        ctx.ob("R5.reject", key, P.where(guard) if guard is not None else P.where(fn.body),
               "%s admits only %s and consumes only page_header.%s" % (fname, want_type, member),
               admit == want_type and not others, "admits %s; uses header members %s" % (admit, sorted(used)))
        if guard is not None:
            first = min((x for x in guard.walk() if x.i in fn.cfg.where()), key=lambda x: x.i)
            uses = [x for x in fn.body.walk() if x.k == "MemberExpr" and x.name == member]
            ctx.ob("R6.dominate", key + "|dominates", P.where(guard),
                   "the page-type test precedes every use of page_header.%s" % member,
                   all(fn.cfg.node_dominates(first, u) for u in uses if u.i in fn.cfg.where()))
    v2 = [n for n in P.fn("load_next_page_mmap", PR).body.walk() if n.k == "IfStmt" and
          "CARQUET_PAGE_DATA_V2" in src([x for x in n.c if x is not None][0])]
    nouse = not any(x.k == "MemberExpr" and x.name == "data_page_header_v2" for f in P.funcs_under("src/reader/")
                    for x in f.body.walk())
    ctx.ob("R5.reject", "v2-unused|src/reader", "src/reader", "nothing in the reader consumes data_page_header_v2 "
           "(so DATA_PAGE_V2 must not be admitted)", nouse)

    # ---- (2) bit widths, exhaustively over the int16 level domain
    for fname, file_ in (("bit_width_for_max", PR), ("bit_width_for_max", PW)):
        if file_ == PW and not [f for f in P.by_name.get(fname, []) if P.rel(f.file) == PW]:
            # the writer computes the width inside its level encoder: execute that for every level and
            # observe the width handed to the RLE encoder
            from ..rules import sem
            fn = P.fn("encode_levels", PW)
            bad = None
            seen_w = 0
            try:
                for v in range(1, 32768):
                    got = []
                    hooks = {"malloc": lambda ev, a, it: sem.Ptr("tmp", 0, 4), "free": lambda ev, a, it: None,
                             "carquet_rle_encode_all": lambda ev, a, it, got=got: got.append(a[2]) or 0,
                             "carquet_rle_encode_levels": lambda ev, a, it, got=got: got.append(a[2]) or 0,
                             "carquet_buffer_init": lambda ev, a, it: None, "carquet_buffer_destroy": lambda ev, a, it: None,
                             "carquet_buffer_append": lambda ev, a, it: 0, "carquet_buffer_append_byte": lambda ev, a, it: 0}
                    sem.run(P, fn, [sem.Ptr("lv", 0, 2), 0, v, sem.Ptr("out", 0, 1)], hooks=hooks, single=True, budget=20000)
                    seen_w += 1
                    if got != [v.bit_length()]:
                        bad = (v, got, v.bit_length())
                        break
            except sem.Inconclusive as ex:
                ctx.inconclusive("R5.spec", "level-width|%s:%s" % (file_, fn.name), P.where(fn.body), str(ex))
                continue
            ctx.ob("R5.spec", "level-width|%s:%s" % (file_, fn.name), P.where(fn.body),
                   "the width handed to the RLE level encoder is the number of bits of max_level, for every level 1..32767 "
                   "(exhaustive abstract execution)", bad is None, "m=%s gives %s, needs %s" % bad if bad else "%d values" % seen_w)
            continue
        fn = P.fn(fname, file_)
        bad = None
        try:
            for v in range(0, 32768):
                got = _eval_fn(P, fn, [v])
                if got != v.bit_length():
                    bad = (v, got, v.bit_length())
                    break
        except (Budget, Stop) as ex:
            ctx.inconclusive("R5.spec", "level-width|%s:%s" % (file_, fname), P.where(fn.body), str(ex))
            continue
        ctx.ob("R5.spec", "level-width|%s:%s" % (file_, fname), P.where(fn.body),
               "bit_width_for_max(m) = number of bits of m for every level 0..32767 (exhaustive)", bad is None,
               "m=%s gives %s, needs %s" % bad if bad else "32768 values")
    dp = P.fn("carquet_read_data_page_v1", PR)
    for call in dp.calls("decode_levels_rle"):
        t = Canon(dp)(call.args()[2])
        lev = [s for s in subtrees(t) if s[0] == "member" and s[2] in ("max_rep_level", "max_def_level")]
        okw = t[0] == "call" and t[1] == ("func", "bit_width_for_max") and len(lev) == 1
        # the level array matches the level kind
        dest = src(call.args()[4])
        kind = lev[0][2] if lev else "?"
        okk = ("rep" in dest) == ("rep" in kind)
        ctx.ob("R6.provenance", "level-width-source|%s:%s|%s" % (PR, dp.name, kind), P.where(call),
               "levels are decoded with bit_width_for_max(%s) into the matching level array" % kind, okw and okk, show(t))
    ctx.floor("C06 level decode calls", len(dp.calls("decode_levels_rle")), 2)
    idx = dp.calls("carquet_rle_decode_all")
    okx = False
    if len(idx) == 1:
        t = Canon(dp)(idx[0].args()[2])
        okx = t[0] == "index" and t[2] == ("int", 0)
    ctx.ob("R6.provenance", "index-width-source|%s:%s" % (PR, dp.name), P.where(dp.body),
           "dictionary indices are decoded with the bit width stored in the page's first byte", okx)
    # definition levels of non-nullable pages default to max (all present)
    # ---- (4)
    for en, (spec, prefix) in C05.ENUM_MAP.items():
        vals = P.enum(en)
        for cname, v in sorted(vals.items(), key=lambda kv: kv[1]):
            if v < 0:
                continue
            short = cname.replace(prefix, "")
            if en == "carquet_page_type":
                short = C05.PAGE_ALIAS.get(short, short)
            ok = short in ENUMS[spec] and ENUMS[spec][short] == v
            ctx.ob("R5.spec", "enum|%s|%s" % (en, cname), en, "%s equals parquet.thrift %s.%s" % (cname, spec, short), ok,
                   nontrivial=False)
