"""C11 - every encoding decodes its own output (structural clauses)."""
from ..canon import Canon, subtrees
from ..extract import AnalysisBroken
from ..facts import src
from ..rules.flow import after_reaches
from ..rules.skeleton import Interp, Ptr, U, Budget, Stop, UNSIGNED, SIGNED, clean_type
from ..util import is_assign

EXPLANATION = (
    "Static decision of structural clauses of C11: (1) RLE/bit-packed hybrid encoder typestate: the "
    "store that pads a partial literal group with values the caller never supplied is reachable only "
    "when the group is known full/empty, or as the last emission of carquet_rle_encoder_flush; (2) "
    "size agreement of the count-driven codecs by cursor-skeleton execution: for every count 0..40 (0..130 in the thorough tier) "
    "PLAIN encoders (all fixed-width types, BOOLEAN, FIXED_LEN) append exactly the bytes their "
    "decoder consumes, read exactly their input values, the decoders report that consumed size, write "
    "exactly count values, refuse inputs one byte short without reading past them; "
    "BYTE_STREAM_SPLIT encoders/decoders require and produce count*width bytes; (3) no implicit "
    "64->32-bit integral narrowing of a non-constant occurs in the encoders/decoders (a width or "
    "length computed in 64 bits is never silently truncated; explicit casts are the repo's idiom); (4) in the incremental codecs "
    "(DELTA_BYTE_ARRAY) the local that carries the previous element is advanced on every path through "
    "the loop body, in the encoder and in the decoder, so both measure prefixes against the immediate "
    "predecessor; (5) the running maximum handed to a bit-width function in the encoders is an unsigned "
    "variable updated under an unsigned comparison, so the chosen width covers every packed value; (7) "
    "carquet_rle_decoder_skip and carquet_rle_decoder_get_batch, executed abstractly from states inside a "
    "bit-packed run (bit widths 1/3/8 x 0/3/8/13 values already consumed x n in 1..17; data bytes "
    "unknown, the group unpacker hooked), report n, lower run_remaining by n and, whenever part of a group "
    "is readable afterwards, hold the group of value k0+n (unpacked from its input offset) at entry "
    "(k0+n) % 8 - the position the one-shot decoder would be at; (8) the raw bit packers, executed as cursor "
    "skeletons for every width and counts 0..40, write exactly ceil(count*width/8) bytes and read no output "
    "byte they have not written in the same call (a `|=` into an unzeroed tail would make the packed bytes "
    "depend on the buffer's previous contents). "
    "(9) the dictionary encoders (int32, int64, byte arrays), executed abstractly on lists of a few hundred values with repeats, bucket-sharing values and prefix-related strings (allocator, growable buffers and the index encoder hooked), give every input the index of the slot holding its value and emit the distinct values once, in first-occurrence order, in page format (R34). (10) the varint writers and readers of rle.c, delta.c and endian.h are LEB128 for every value on either side of a 7-bit boundary (R38). (11) own output read back by execution: the DELTA_BINARY_PACKED encoders on sequences of every mini-block width class of their type (0, 1, odd, 8, 17, 24, 31, 32, and 33..64 for INT64; mixed widths in one block; partly filled blocks; wrap-around), then the decoder on exactly the bytes written; DELTA_LENGTH_BYTE_ARRAY and DELTA_BYTE_ARRAY on string lists with growing, shrinking, absent prefixes, repeats and empty strings (real inner DELTA coder, real output buffer, allocator hooked); PLAIN for all eight types through the real buffer code - the values come back and every byte is consumed; no specification is involved, so a layout that deviates on both sides alike is not reported here (that is C12). Decides these clauses on these grids, not value equality of decode(encode(v)) for every sequence, nor for the dictionary and RLE value paths beyond (1), (6), (7), (9).")

RLE = "src/encoding/rle.c"
PL = "src/encoding/plain.c"
BSS = "src/encoding/byte_stream_split.c"
EMIT = {"flush_rle", "flush_bitpack", "encoder_append", "write_varint", "carquet_buffer_append",
        "carquet_buffer_append_byte"}


def _pad_functions(P):
    """Functions of rle.c that store a constant into bitpack_buffer under `bitpack_count < 8`."""
    out = []
    for f in P.funcs_in(RLE):
        for lp in f.body.walk():
            if lp.k in ("WhileStmt", "ForStmt"):
                cond = lp.c[-2] if lp.k == "WhileStmt" else lp.c[2]
                if cond is None or "bitpack_count" not in src(cond) or "8" not in src(cond):
                    continue
                for a in lp.walk():
                    if is_assign(a) and "bitpack_buffer" in src(a.c[0]) and a.c[1].cv is not None:
                        out.append(f)
                        break
            elif lp.k == "IfStmt":
                # the same padding in one call: `if (count < 8) { memset(&buffer[count], 0, ...); count = 8; }`
                kids = [x for x in lp.c if x is not None]
                if "bitpack_count" not in src(kids[0]) or "8" not in src(kids[0]):
                    continue
                for c in kids[1].walk():
                    if c.k == "CallExpr" and c.callee in ("memset", "__builtin_memset") and c.args() and \
                            "bitpack_buffer" in src(c.args()[0]) and c.args()[1].cv is not None:
                        out.append(f)
                        break
    return list({f.name: f for f in out}.values())


def _full_or_empty_guard(call):
    """Is the call inside the then-branch of a condition that implies the group is full or empty?"""
    cur = call
    for a in call.ancestors():
        if a.k == "IfStmt":
            kids = [x for x in a.c if x is not None]
            inthen = any(x is cur for x in kids[1].walk()) or kids[1] is cur
            c = kids[0].strip()
            if inthen and c.k == "BinaryOperator" and c.op == "==" and "bitpack_count" in src(c.c[0]):
                if c.c[1].cv in (8, 0):
                    return True
                l = c.c[0].strip()
                if l.k == "BinaryOperator" and l.op in ("%", "&") and c.c[1].cv == 0 and l.c[1].cv in (8, 7):
                    return True
        cur = a
    return False


def run(ctx):
    P = ctx.P
    ctx.clause("C11.1 hybrid encoder never pads mid-stream")
    ctx.clause("C11.2 count-driven codecs: produced = consumed = count*width, exact extents (skeleton)")
    ctx.clause("C11.3 no implicit 64->32 narrowing in encoders/decoders")
    ctx.clause("C11.4 incremental codecs advance their predecessor reference on every iteration (encoder and decoder)")
    ctx.clause("C11.5 a bit width is computed from a maximum taken in unsigned arithmetic")
    ctx.clause("C11.6 the hybrid encoder writes pending literals before a run (exhaustive over its control state)")
    ctx.clause("C11.7 inside a bit-packed run, skip(n) and get_batch(n) leave the streaming decoder at value k0+n with the matching group in its buffer")
    from ..rules import rlestream
    nrs = rlestream.check(ctx)
    ctx.floor("C11 stream-decoder position scenarios", nrs, 100)
    ctx.clause("C11.8 the raw bit packers write exactly ceil(count*width/8) bytes and never read an output byte they have not written in the same call")
    _packers(ctx)
    run_pad_rule(ctx)
    run_order_rule(ctx)
    ctx.clause("C11.10 the run headers of the hybrid encoding and the DELTA headers are LEB128 on both sides (values on either side of every 7-bit boundary)")
    from ..rules import varint
    nvw, nvr = varint.check(ctx, files=("src/encoding/rle.c", "src/encoding/delta.c", "src/core/endian.h"))
    ctx.floor("C11 varint writers and readers", nvw + nvr, 6)
    ctx.clause("C11.11 own output read back, by executing the encoder and then the decoder on exactly the bytes written: DELTA_BINARY_PACKED (every mini-block width "
               "class of INT32 and INT64), DELTA_LENGTH_BYTE_ARRAY, DELTA_BYTE_ARRAY (shared, shrinking, absent prefixes, empty strings) and PLAIN (all eight types)")
    from ..rules import encspec
    ndc = encspec.check_delta_chain(ctx)
    nsc = encspec.check_strings_chain(ctx)
    npc = encspec.check_plain_chain(ctx)
    ctx.floor("C11 DELTA sequences encoded and read back", ndc, 60)
    ctx.floor("C11 string lists encoded and read back", nsc, 10)
    ctx.floor("C11 PLAIN cases encoded and read back", npc, 20)
    ctx.clause("C11.9 the dictionary encoders give every input the index of the slot that holds its value; the dictionary is the distinct values in first-occurrence order")
    from ..rules import dictbuild
    ndb = dictbuild.check(ctx)
    ctx.floor("C11 dictionary encoder entry points executed", ndb, 3)

    # ---- (2) skeleton size agreement
    _plain(ctx)
    _bss(ctx)

    # ---- (4) carried predecessor references
    from ..rules import carried
    nc = carried.check(ctx, P.funcs_under("src/encoding/"))
    ctx.floor("C11 loop-carried predecessor references", nc, 4)

    # ---- (5) widths come from unsigned maxima
    nw = _unsigned_maxima(ctx)
    ctx.floor("C11 running maxima feeding a bit-width function", nw, 1)

    # ---- (3) implicit narrowing
    nn = 0
    scope = ("src/encoding/", "src/compression/", "src/writer/", "src/reader/", "src/thrift/", "src/metadata/", "src/util/")
    fns = [f for f in P.lib_functions() if P.rel(f.file).startswith(scope)]
    ctx.floor("C11 functions scanned for implicit narrowing", len(fns), 380)
    for f, n, st, dt in narrowing_sites(P, fns):
        nn += 1
        ctx.bad("R5.narrow", "implicit-narrowing|%s:%s|%s->%s" % (P.rel(f.file), f.name, st, dt), P.where(n),
                "`%s` (%s) is implicitly truncated to %s" % (src(n.c[0])[:60], st, dt),
                "the repo casts explicitly wherever a 64-bit quantity is narrowed")
    ctx.ok("R5.narrow", "implicit-narrowing|scope", "src/{encoding,compression,writer,reader,thrift,metadata,util}",
           "no implicit 64->32-bit narrowing of a non-constant in the codec and file layers", "%d sites" % nn)


def _unsigned_maxima(ctx):
    """The width chosen for a block must cover every packed value as an unsigned magnitude: the running
    maximum handed to a bit-width function is an unsigned variable updated under an unsigned comparison."""
    P = ctx.P
    n = 0
    for f in P.funcs_under("src/encoding/"):
        for c in f.calls():
            if not c.callee or "bit_width" not in c.callee or not c.args():
                continue
            a = c.args()[0].strip_casts()
            if a.k != "DeclRefExpr" or a.get("dk") != "local":
                continue
            d = a.get("d")
            upd = []
            for g in f.body.walk():
                if g.k != "IfStmt":
                    continue
                kids = [x for x in g.c if x is not None]
                cond = kids[0].strip()
                if cond.k != "BinaryOperator" or cond.op not in (">", "<", ">=", "<="):
                    continue
                sides = [x.strip_casts() for x in cond.c]
                if not any(x.k == "DeclRefExpr" and x.get("d") == d for x in sides):
                    continue
                if not any(is_assign(x) and x.c[0].strip().k == "DeclRefExpr" and x.c[0].strip().get("d") == d
                           for x in kids[1].walk()):
                    continue
                upd.append(cond)
            if not upd:
                continue
            n += 1
            W = dict(UNSIGNED)
            bad = [cnd for cnd in upd if not all(clean_type(x.t) in W for x in cnd.c)]
            decl_t = clean_type(a.t)
            ctx.ob("R5.unsigned-max", "unsigned-max|%s:%s|%s" % (P.rel(f.file), f.name, a.name), P.where(c),
                   "`%s` handed to %s is an unsigned running maximum (unsigned variable, unsigned comparison)" % (a.name, c.callee),
                   not bad and decl_t in W,
                   "declared %s; comparison `%s` is done in %s" % (decl_t, src(bad[0])[:50], clean_type(bad[0].c[0].t)) if bad or decl_t not in W else "")
    return n


def narrowing_sites(P, fns):
    """Implicit integral conversions of a non-constant from a 64-bit to a <=32-bit type."""
    W = dict(UNSIGNED)
    W.update(SIGNED)
    for f in fns:
        for n in f.body.walk():
            if n.k == "ImplicitCastExpr" and n.get("ck") == "IntegralCast" and n.c and n.c[0] is not None:
                st, dt = clean_type(n.c[0].t), clean_type(n.t)
                if W.get(st, 0) == 64 and 0 < W.get(dt, 0) <= 32 and n.c[0].cv is None:
                    yield f, n, st, dt


def stale_output_read(acc, base="out"):
    """(lo, hi) of the first read of the output buffer that covers a byte not written earlier in the same run - the
    packed bytes would then depend on what the caller's buffer held before - or None."""
    written = set()
    for a in acc:
        if a.base != base:
            continue
        if a.kind == "w":
            written.update(range(a.lo, a.hi))
        elif a.kind == "r" and any(b not in written for b in range(a.lo, a.hi)):
            return a.lo, a.hi
    return None


def _packers(ctx):
    """carquet_bitpack8_32 for every width 0..32 and carquet_bitpack_32 for counts 0..40 x widths: reads
    the values it is given, writes exactly the packed size, and every output byte it reads (`|=`) it has
    written before in the same call (cursor-skeleton execution; values unknown)."""
    from ..rules.skeleton import Interp, Ptr, U, Budget, Stop
    P = ctx.P
    BP = "src/core/bitpack.c"
    f8 = P.fn("carquet_bitpack8_32", BP)
    fN = P.fn("carquet_bitpack_32", BP)
    bad = None
    runs = 0
    try:
        for w in range(0, 33):
            it = Interp(P, f8, budget=300000, max_forks=64, inline_depth=4)
            for acc, ret in it.run([Ptr("in", 0, 4), w, Ptr("out", 0, 1)]):
                runs += 1
                wr = set()
                for a in acc:
                    if a.base == "in" and (a.lo < 0 or a.hi > 32) and bad is None:
                        bad = "carquet_bitpack8_32 width %d reads values [%d,%d)" % (w, a.lo, a.hi)
                    if a.base == "out" and a.kind == "w":
                        wr.update(range(a.lo, a.hi))
                    if a.base == "out" and (a.lo < 0 or a.hi > w) and bad is None:
                        bad = "carquet_bitpack8_32 width %d touches output [%d,%d), packed size is %d" % (w, a.lo, a.hi, w)
                if wr != set(range(w)) and bad is None:
                    bad = "carquet_bitpack8_32 width %d writes output bytes %s of %d" % (w, sorted(wr)[:6], w)
                st = stale_output_read(acc)
                if st and bad is None:
                    bad = "carquet_bitpack8_32 width %d reads output bytes [%d,%d) it has not written: the result depends on the buffer's previous contents" % ((w,) + st)
            if it.unknown_mem and bad is None:
                bad = "carquet_bitpack8_32 width %d: access at a content-dependent offset" % w
        for w in (1, 3, 7, 8, 13, 17, 31, 32):
            for n in range(0, ctx.depth(40, 130) + 1):
                need = (n * w + 7) // 8
                it = Interp(P, fN, budget=600000, max_forks=64, inline_depth=4)
                for acc, ret in it.run([Ptr("in", 0, 4), n, w, Ptr("out", 0, 1)]):
                    runs += 1
                    wr = set()
                    for a in acc:
                        if a.base == "in" and (a.lo < 0 or a.hi > 4 * n) and bad is None:
                            bad = "carquet_bitpack_32 count %d width %d reads values [%d,%d)" % (n, w, a.lo, a.hi)
                        if a.base == "out" and a.kind == "w":
                            wr.update(range(a.lo, a.hi))
                        if a.base == "out" and (a.lo < 0 or a.hi > need) and bad is None:
                            bad = "carquet_bitpack_32 count %d width %d touches output [%d,%d), packed size is %d" % (n, w, a.lo, a.hi, need)
                    if wr != set(range(need)) and bad is None:
                        bad = "carquet_bitpack_32 count %d width %d writes %d of %d output bytes" % (n, w, len(wr), need)
                    st = stale_output_read(acc)
                    if st and bad is None:
                        bad = ("carquet_bitpack_32 count %d width %d reads output bytes [%d,%d) it has not written: the packed bytes depend on the "
                               "buffer's previous contents" % ((n, w) + st))
                    if isinstance(ret, int) and ret != need and bad is None:
                        bad = "carquet_bitpack_32 count %d width %d reports %d bytes, %d expected" % (n, w, ret, need)
    except (Budget, Stop) as ex:
        # the path explored when the budget ran out is a feasible prefix: a stale read on it is a witness
        st = stale_output_read(getattr(it, "acc", []))
        if st:
            ctx.bad("R4.skeleton", "pack-extent|%s:carquet_bitpack_32" % BP, P.where(fN.body),
                    "the raw bit packers read no output byte before writing it",
                    "width %s: output bytes [%d,%d) are read (`|=`) before they are written in the call: the packed bytes depend on the "
                    "buffer's previous contents" % ((w,) + st))
            return
        ctx.inconclusive("R4.skeleton", "pack-extent|%s:carquet_bitpack_32" % BP, P.where(fN.body), "skeleton execution of the packers", str(ex))
        return
    ctx.count("pack_skeleton_runs", runs)
    ctx.ob("R4.skeleton", "pack-extent|%s:carquet_bitpack_32" % BP, P.where(fN.body),
           "carquet_bitpack8_32 (widths 0..32) and carquet_bitpack_32 (counts 0..40 x 8 widths) read the values given, write exactly "
           "ceil(count*width/8) bytes and read no output byte before writing it", bad is None, bad or "")


def run_order_rule(ctx):
    """Order of emission in the hybrid encoder, by exhaustive abstract execution over its control
    state: from every resting state (k pending literals, a current run of r equal values) a value
    change and a flush emit the pending literals before the run - a repeated run is only written
    when no literal group is pending - and flush leaves nothing behind. Values are opaque (only
    compared for equality); nothing is encoded or decoded."""
    from ..rules.skeleton import Interp, Ptr, U, Budget, Stop
    P = ctx.P
    RL = "src/encoding/rle.c"
    rec = P.record("carquet_rle_encoder")
    off = {f["n"]: f["off"] // 8 for f in rec["fields"] if f.get("off") is not None}
    need = ("bit_width", "prev_value", "repeat_count", "has_prev", "bitpack_count", "bitpack_total", "status")
    if any(n not in off for n in need):
        raise AnalysisBroken("carquet_rle_encoder: state fields not found")
    put = P.fn("carquet_rle_encoder_put", RL)
    flush = P.fn("carquet_rle_encoder_flush", RL)
    rle = P.fn("flush_rle", RL)
    RMAX = ctx.depth(40, 200)
    bad = None
    runs = 0
    for fn, extra in ((put, [7]), (flush, [])):
        for k in range(0, 8):
            for r in range(1, RMAX + 1):
                it = Interp(P, fn, budget=200000, max_forks=16)
                it.heap0 = {("enc", off["bit_width"]): 3, ("enc", off["prev_value"]): 1, ("enc", off["repeat_count"]): r,
                            ("enc", off["has_prev"]): 1, ("enc", off["bitpack_count"]): k, ("enc", off["bitpack_total"]): k,
                            ("enc", off["status"]): 0}
                ev = []
                it.hooks["write_varint"] = lambda i_, node, args: 0
                it.hooks["encoder_append"] = lambda i_, node, args: 0
                it.hooks["carquet_bitpack8_32"] = lambda i_, node, args: 0

                def on_rle(i_, node, args, ev=ev, it=it):
                    ev.append(("run", it.heap.get(("enc", off["bitpack_count"])), it.heap.get(("enc", off["repeat_count"]))))
                    it.heap[("enc", off["repeat_count"])] = 0
                    return 0
                it.hooks["flush_rle"] = on_rle
                try:
                    outs = it.run([Ptr("enc", 0, 1)] + extra)
                except (Budget, Stop) as ex:
                    ctx.inconclusive("R11.order", "rle-order|%s:%s" % (RL, fn.name), P.where(fn.body),
                                     "abstract execution of the encoder state machine", str(ex))
                    return
                if len(outs) != 1:
                    ctx.inconclusive("R11.order", "rle-order|%s:%s" % (RL, fn.name), P.where(fn.body),
                                     "the encoder's control flow depends on something other than its counters")
                    return
                runs += 1
                pend = [e for e in ev if e[0] == "run" and e[1] not in (0,)]
                if pend and bad is None:
                    bad = "%s with %d pending literal(s) and a run of %d: the run is written while %s literal(s) are still pending" % (
                        fn.name, k, r, pend[0][1])
                if fn is flush and bad is None:
                    left = (it.heap.get(("enc", off["bitpack_count"])), it.heap.get(("enc", off["repeat_count"])))
                    if left != (0, 0):
                        bad = "flush with %d pending literal(s) and a run of %d leaves (pending, run) = %s behind" % (k, r, left)
    ctx.count("rle_order_states", runs)
    ctx.ob("R11.order", "rle-order|%s:carquet_rle_encoder" % RL, P.where(rle.body),
           "from every resting state (0..7 pending literals x run length 1..%d) a value change and a flush write the "
           "pending literals before the run, and flush leaves nothing pending" % RMAX, bad is None, bad or "")


def run_pad_rule(ctx):
    P = ctx.P
    pads = _pad_functions(P)
    if not pads:
        raise AnalysisBroken("padding store of the hybrid encoder not found")
    padnames = {f.name for f in pads}
    # wrappers that may pad: call a pad function unguarded
    changed = True
    maypad = set(padnames)
    while changed:
        changed = False
        for f in P.funcs_in(RLE):
            if f.name in maypad or not f.static:
                continue
            for c in f.calls():
                if c.callee in maypad and not _full_or_empty_guard(c):
                    if f.name not in ("carquet_rle_encoder_flush",):
                        maypad.add(f.name)
                        changed = True
    ncalls = 0
    for f in P.funcs_in(RLE):
        for c in f.calls():
            if c.callee not in maypad:
                continue
            ncalls += 1
            key = "pad-call|%s:%s|%s" % (RLE, f.name, c.callee)
            if _full_or_empty_guard(c):
                ctx.ok("R11.pad", key, P.where(c), "call of %s happens with a full/empty literal group" % c.callee,
                       "guarded by bitpack_count == 8/0")
                continue
            if f.name == "carquet_rle_encoder_flush":
                w = after_reaches(f.cfg, c, lambda e: e.k == "CallExpr" and e.callee in EMIT | maypad)
                ctx.ob("R11.pad", key, P.where(c),
                       "in carquet_rle_encoder_flush the possibly padding %s is the last emission of the stream" % c.callee,
                       w is None, "an emission is reachable after it")
                continue
            if f.name in maypad and f.name not in padnames:
                # a may-pad wrapper: its own call sites are judged instead
                ctx.ok("R11.pad", key, P.where(c), "%s is a possibly padding helper; its call sites are judged" % f.name,
                       nontrivial=False)
                continue
            ctx.bad("R11.pad", key, P.where(c),
                    "%s may pad a partial literal group in mid-stream (padding values are decoded as data)" % c.callee,
                    "call in %s is neither guarded by a full/empty group nor the last emission of flush" % f.name)
    ctx.floor("C11 calls of (possibly) padding functions", ncalls, 4)


def _hooks(it, appended):
    def append(i_, node, args):
        n = args[2] if len(args) > 2 else None
        if isinstance(args[1], Ptr) and isinstance(n, int):
            i_.access(args[1], n, "r", node)
        appended.append(n)
        return 0

    def advance(i_, node, args):
        n = args[1]
        off = sum(x for x in appended if isinstance(x, int))
        appended.append(n)
        return Ptr("out", off, 1)

    def app_fixed(width):
        def f(i_, node, args):
            appended.append(width)
            return 0
        return f
    it.hooks["carquet_buffer_append"] = append
    it.hooks["carquet_buffer_advance"] = advance
    it.hooks["carquet_buffer_append_byte"] = app_fixed(1)
    it.hooks["carquet_buffer_append_u32_le"] = app_fixed(4)
    it.hooks["carquet_buffer_append_u64_le"] = app_fixed(8)
    it.hooks["carquet_buffer_append_f32_le"] = app_fixed(4)
    it.hooks["carquet_buffer_append_f64_le"] = app_fixed(8)
    it.hooks["carquet_buffer_reserve"] = lambda i_, node, args: 0


def _plain(ctx):
    P = ctx.P
    types = [("boolean", lambda n: (n + 7) // 8, 1, None), ("int32", lambda n: 4 * n, 4, None),
             ("int64", lambda n: 8 * n, 8, None), ("int96", lambda n: 12 * n, 12, None),
             ("float", lambda n: 4 * n, 4, None), ("double", lambda n: 8 * n, 8, None),
             ("fixed_byte_array", lambda n: 5 * n, 5, 5)]
    for ty, need, esz, flen in types:
        enc = P.fn("carquet_encode_plain_" + ty, PL)
        dec = P.fn("carquet_decode_plain_" + ty, PL)
        bad = []
        runs = 0
        for n in range(0, ctx.depth(40, 130) + 1):
            want = need(n)
            # ---- encoder
            appended = []
            it = Interp(P, enc, budget=200000, max_forks=2000)
            _hooks(it, appended)
            args = [Ptr("in", 0, esz if ty != "boolean" else 1), n]
            if flen is not None:
                args.append(flen)
            args.append(U)
            if ty == "fixed_byte_array":
                args = [Ptr("in", 0, 1), n, flen, U]
            try:
                outs = it.run(args)
            except (Budget, Stop) as ex:
                ctx.inconclusive("R4.skeleton", "plain-sizes|%s:%s" % (PL, enc.name), P.where(enc.body), str(ex))
                break
            for acc, ret in outs:
                runs += 1
                tot = sum(x for x in appended if isinstance(x, int)) if all(isinstance(x, int) for x in appended) else None
                # appended is shared across forks: use the per-run count via last run only when unforked
                if len(outs) == 1 and tot != want:
                    bad.append("encode count=%d appends %s bytes, decoder consumes %d" % (n, tot, want))
                inext = n * (esz if ty != "boolean" else 1)
                for a in acc:
                    if a.base == "in" and (a.lo < 0 or a.hi > inext):
                        bad.append("encode count=%d reads input [%d,%d) beyond %d" % (n, a.lo, a.hi, inext))
                    if a.base == "out" and (a.lo < 0 or a.hi > want):
                        bad.append("encode count=%d writes output [%d,%d) beyond %d" % (n, a.lo, a.hi, want))
            # ---- decoder: exact size, one byte short
            for size, short in ((want, False), (want + 3, False), (want - 1, True)):
                if size < 0:
                    continue
                it = Interp(P, dec, budget=200000, max_forks=2000)
                oesz = esz if ty not in ("boolean",) else 1
                dargs = [Ptr("in", 0, 1), size, Ptr("out", 0, oesz if ty != "fixed_byte_array" else 1), n]
                if flen is not None:
                    dargs.append(flen)
                try:
                    outs = it.run(dargs)
                except (Budget, Stop) as ex:
                    ctx.inconclusive("R4.skeleton", "plain-sizes|%s:%s" % (PL, dec.name), P.where(dec.body), str(ex))
                    break
                for acc, ret in outs:
                    runs += 1
                    for a in acc:
                        if a.base == "in" and (a.lo < 0 or a.hi > size):
                            bad.append("decode count=%d size=%d reads input [%d,%d)" % (n, size, a.lo, a.hi))
                        if a.base == "out" and (a.lo < 0 or a.hi > n * (1 if ty == "boolean" else esz)):
                            bad.append("decode count=%d writes output [%d,%d)" % (n, a.lo, a.hi))
                    if short:
                        if ret != -1:
                            bad.append("decode count=%d with %d of %d bytes returns %s, not -1" % (n, size, want, ret))
                    else:
                        if ret != want:
                            bad.append("decode count=%d reports %s consumed bytes, encoder wrote %d" % (n, ret, want))
                        wcov = set()
                        for a in acc:
                            if a.base == "out" and a.kind == "w":
                                wcov |= set(range(a.lo, a.hi))
                        if len(wcov) != n * (1 if ty == "boolean" else esz):
                            bad.append("decode count=%d writes %d of %d output bytes" % (n, len(wcov), n * (1 if ty == "boolean" else esz)))
        ctx.ob("R4.skeleton", "plain-sizes|%s:%s" % (PL, ty), P.where(enc.body),
               "PLAIN %s: for counts 0..%d the encoder appends exactly what the decoder consumes and reports, "
               "with exact input/output extents, and a short input is refused" % (ty, ctx.depth(40, 130)), not bad, "; ".join(bad[:3]))
        ctx.count("plain_%s_runs" % ty, runs)


def _bss(ctx):
    P = ctx.P
    for ty, w in (("float", 4), ("double", 8)):
        enc = P.fn("carquet_byte_stream_split_encode_" + ty, BSS)
        dec = P.fn("carquet_byte_stream_split_decode_" + ty, BSS)
        bad = []
        for n in range(0, ctx.depth(20, 70) + 1):
            need = n * w
            for cap, short in ((need, False), (need - 1, True)):
                if cap < 0:
                    continue
                it = Interp(P, enc, budget=400000, max_forks=2000, inline_depth=1)
                it.hooks["carquet_dispatch_byte_split_encode_" + ty] = lambda i_, node, args: U
                written = []

                def lv(i_, node, val, env, fn, depth, _orig=it.lval_set, _w=written):
                    if "bytes_written" in src(node):
                        _w.append(val)
                    return _orig(node, val, env, fn, depth)
                try:
                    outs = it.run([Ptr("in", 0, w), n, Ptr("out", 0, 1), cap, Ptr("bw", 0, 8)])
                except (Budget, Stop) as ex:
                    bad.append(str(ex))
                    break
                for acc, ret in outs:
                    if short and ret == 0:
                        bad.append("encode %s count=%d accepts capacity %d < %d" % (ty, n, cap, need))
                    if not short and ret != 0:
                        bad.append("encode %s count=%d refuses exact capacity" % (ty, n))
                it = Interp(P, dec, budget=400000, max_forks=2000, inline_depth=1)
                it.hooks["carquet_dispatch_byte_split_decode_" + ty] = lambda i_, node, args: U
                try:
                    outs = it.run([Ptr("in", 0, 1), cap, Ptr("out", 0, w), n])
                except (Budget, Stop) as ex:
                    bad.append(str(ex))
                    break
                for acc, ret in outs:
                    if short and ret == 0:
                        bad.append("decode %s count=%d accepts %d < %d input bytes" % (ty, n, cap, need))
                    if not short and ret != 0:
                        bad.append("decode %s count=%d refuses exact input" % (ty, n))
        ctx.ob("R4.skeleton", "bss-sizes|%s:%s" % (BSS, ty), P.where(enc.body),
               "BYTE_STREAM_SPLIT %s: encode and decode require exactly count*%d bytes for counts 0..%d" % (ty, w, ctx.depth(20, 70)),
               not bad, "; ".join(bad[:3]))
    # generic width
    enc = P.fn("carquet_byte_stream_split_encode", BSS)
    dec = P.fn("carquet_byte_stream_split_decode", BSS)
    bad = []
    for tl in (1, 3, 16):
        for n in range(0, ctx.depth(11, 40) + 1):
            need = n * tl
            it = Interp(P, dec, budget=400000, max_forks=2000)
            try:
                outs = it.run([Ptr("in", 0, 1), need, tl, Ptr("out", 0, 1), n])
            except (Budget, Stop) as ex:
                bad.append(str(ex))
                break
            for acc, ret in outs:
                rc, wc = set(), set()
                for a in acc:
                    if a.base == "in":
                        if a.lo < 0 or a.hi > need:
                            bad.append("decode width=%d count=%d reads [%d,%d)" % (tl, n, a.lo, a.hi))
                        rc |= set(range(a.lo, a.hi))
                    if a.base == "out":
                        if a.lo < 0 or a.hi > need:
                            bad.append("decode width=%d count=%d writes [%d,%d)" % (tl, n, a.lo, a.hi))
                        wc |= set(range(a.lo, a.hi))
                if ret == 0 and (len(rc) != need or len(wc) != need):
                    bad.append("decode width=%d count=%d touches %d/%d of %d bytes" % (tl, n, len(rc), len(wc), need))
    ctx.ob("R4.skeleton", "bss-sizes|%s:generic" % BSS, P.where(dec.body),
           "BYTE_STREAM_SPLIT generic width: the decoder reads and writes each of count*width bytes exactly once in range",
           not bad, "; ".join(bad[:3]))
