"""C14 - page checksums: verification gates consumption; CRC covers every byte; IEEE constant."""
from ..canon import Canon, subtrees, show
from ..extract import AnalysisBroken
from ..facts import src
from ..rules.flow import find_path_avoiding, describe_path
from ..rules.skeleton import Interp, Ptr, Budget, Stop
from ..util import is_assign

EXPLANATION = (
    "Static decision of structural clauses of C14: (1) the four page loaders are executed abstractly over "
    "{CRC stored or not} x {verification option} x {stored, computed} CRC pairs (equal, different, zero, "
    "negative as int32) x codec x levels, with the header parser, positioned reads, CRC, codecs, "
    "allocator and page decoders hooked: with a stored CRC and verification on, exactly "
    "compressed_page_size stored bytes - the ones later handed to the codec/decoder - are checksummed "
    "before any consumer runs, the page is accepted exactly when the values are equal as unsigned 32-bit "
    "numbers, a mismatch returns CRC_MISMATCH and no page byte reaches a codec, a decoder or the "
    "zero-copy view; otherwise the page is read; (2) the writer checksums exactly the buffer/size it "
    "appends after the header and write_crc / verify_checksums default to on; (3) the table generator "
    "uses the reflected IEEE polynomial 0xEDB88320 and the lazily built tables are built (or known built) "
    "before every read of them, also in helpers; (4) cursor-skeleton execution of the core routine for "
    "every length 0..80 (0..400 thorough): all reads stay inside [0,length) and every input byte is read; "
    "with the core hooked, carquet_crc32 and carquet_crc32_update fold exactly their own (data, length) "
    "once, a fresh checksum is an update from 0, the value an update returns resumes the core exactly "
    "where it stopped (chunks compose, whether the register inversion lives in the core or in the entry "
    "points), and an empty chunk changes nothing; (5) the page-header parser sets has_crc to a constant "
    "true in the arm that reads field 4, whatever the stored value. A page whose load failed is retried at the same position, not stepped over (carquet_read_next_page "
    "executed abstractly over page states x a failing load; rule shared with C02.2). The writer side is decided on the finaliser's abstract execution (48 configurations): a CRC value is an opaque term naming the byte ranges folded into it, in order, by carquet_crc32 or chained carquet_crc32_update calls, and PageHeader.crc must cover exactly the stored payload in stored order. (9) damaged compressed bodies with verification off: the built-in block decompressors on the invalid forms of the C10 format grid - refused, and no byte outside the stream or the destination touched. (10) the only store to the verify_checksums member in the library is the default written by the options initialiser into the object it was handed; no function switches a reader's live option (off around a skip, say), which would leave the pages loaded in between unverified. (11) carquet_column_read_batch executed with the page loader reporting CRC_MISMATCH - on a peek, on a fresh read, and after a first page of the same call delivered 4 values: the call returns what was delivered and the undelivered count is reduced by exactly that, so the damaged page is met again - and reported - by the next call instead of the column ending silently. Decides these clauses, not equality "
    "with zlib for all inputs nor the CRC's error-detection algebra.")

PR = "src/reader/page_reader.c"
PW = "src/writer/page_writer.c"
CRC = "src/util/crc32.c"
LOADERS = ["load_dictionary_page_mmap", "load_dictionary_page_fread", "load_next_page_mmap",
           "load_next_page_fread"]
CONSUMERS = {"decompress_page", "carquet_read_dictionary_page", "carquet_read_data_page_v1"}


def _mentions(node, field):
    return any(x.k == "MemberExpr" and x.name == field for x in node.walk())


def run(ctx):
    P = ctx.P
    ctx.clause("C14.1 CRC verification dominates every consumer of page bytes in all four loaders")
    ctx.clause("C14.2 writer checksums the stored bytes; write_crc on by default")
    ctx.clause("C14.3 reflected IEEE polynomial constant")
    ctx.clause("C14.4 CRC routine reads every input byte exactly within bounds (skeleton execution)")
    ctx.clause("C14.5 a stored CRC is never ignored: the header parser sets has_crc whenever field 4 is present")
    ctx.clause("C14.9 with verification off a damaged compressed page body is still handled inside its buffers: the built-in Snappy and LZ4 decompressors refuse the invalid "
               "element forms of the format grid (length fields with their top bit set, offsets past the output, cut-off elements and preambles) without touching a byte outside (rule shared with C10)")
    from ..rules import blockfmt
    nbf = blockfmt.check(ctx)
    ctx.floor("C14 format-built streams through the block decompressors", nbf, 80)
    ctx.clause("C14.11 a page that fails its checksum inside a read that already delivered values from earlier pages is still reported: the reader does not mark the column exhausted (the failing page stays to be reported by the next call)")
    from . import C19
    ctx.floor("C14 checksum-failure call forms", C19._failed_load_keeps_rows(ctx, fail_name="CARQUET_ERROR_CRC_MISMATCH", rule="R6.crc-gate", key_prefix="crc-failure"), 3)
    ctx.clause("C14.10 the caller's verify_checksums choice is never overridden: the member is stored only by the options initialiser")
    ctx.floor("C14 stores to verify_checksums", _option_writers(ctx), 1)
    ctx.clause("C14.8 with verification off a damaged level-length prefix is still handled inside the page (rule shared with C04.12)")
    from ..rules import pageread
    pageread.check_level_extents(ctx)
    ctx.clause("C14.7 a page whose load failed (checksum mismatch) is not stepped over by the next call: the cursor advances only past a loaded page, with page_loaded cleared first")
    from . import C02
    C02._page_cursor(ctx, P.fn("carquet_read_next_page", "src/reader/page_reader.c"))
    _crc_presence(ctx)
    # the four loaders are executed abstractly per scenario (header parser, positioned reads, CRC, codecs,
    # allocator and page decoders hooked): what is checksummed, when verification applies, and what a
    # mismatch lets through are read from the recorded events - helpers with out-parameters, merged or
    # split conditions and early returns make no difference
    from ..rules import loaders as LD, sem
    pt_ = P.enum("carquet_page_type")
    st_ = P.enum("carquet_status")
    MISMATCH = st_.get("CARQUET_ERROR_CRC_MISMATCH")
    if MISMATCH is None:
        raise AnalysisBroken("CARQUET_ERROR_CRC_MISMATCH vanished")
    codecs = P.enum("carquet_compression")
    nblocks = 0
    ntr = 0
    for name in LOADERS:
        f = P.fn(name, PR)
        key0 = "%s:%s" % (PR, name)
        ptype = pt_["CARQUET_PAGE_DICTIONARY"] if "dictionary" in name else pt_["CARQUET_PAGE_DATA"]
        base_off = LD.DICT_OFF if "dictionary" in name else LD.DATA_OFF
        verd = {k: None for k in ("crc-compare", "crc-size", "crc-bytes", "crc-mismatch-return", "crc-mismatch-clean",
                                  "crc-dominates", "crc-enable")}

        def fail(k, msg):
            if verd[k] is None:
                verd[k] = msg
        try:
            for has_crc in (1, 0):
                for verify in (1, 0):
                    for stored, computed in ((0x1234, 0x1234), (0x1234, 0x1235), (0, 0), (0, 7), (-5, 0xFFFFFFFB)):
                        for codec in (codecs["CARQUET_COMPRESSION_UNCOMPRESSED"], codecs["CARQUET_COMPRESSION_SNAPPY"]):
                            for levels in (True, False):
                                ret, ev, out = LD.trace(P, name, ptype, has_crc, verify, stored, computed, codec, levels=levels)
                                ntr += 1
                                sc = "has_crc=%d verify=%d stored=%#x computed=%#x codec=%d levels=%s" % (
                                    has_crc, verify, stored & 0xFFFFFFFF, computed, codec, levels)
                                if "fread" in name:
                                    rd = [e for e in ev if e[0] == "read" and e[1] == base_off + LD.HEADER_SIZE]
                                    payload = rd[0][2] if rd else None
                                else:
                                    payload = ("map", base_off + LD.HEADER_SIZE)
                                crcs = [(i, e) for i, e in enumerate(ev) if e[0] == "crc"]
                                cons = [(i, e) for i, e in enumerate(ev) if e[0] in ("decompress", "consume-dict", "consume-page")]
                                view = out["decoded_values"] == payload and payload is not None
                                verifying = bool(has_crc and verify)
                                same = (stored & 0xFFFFFFFF) == (computed & 0xFFFFFFFF)
                                if verifying:
                                    if len(crcs) != 1:
                                        fail("crc-compare", "%s: %d CRC computations" % (sc, len(crcs)))
                                        continue
                                    if crcs[0][1][2] != LD.CSIZE:
                                        fail("crc-size", "%s: CRC over %s bytes, the page stores %d" % (sc, crcs[0][1][2], LD.CSIZE))
                                    if crcs[0][1][1] != payload:
                                        fail("crc-bytes", "%s: CRC over %s, the stored page bytes are at %s" % (sc, crcs[0][1][1], payload))
                                    if cons and cons[0][0] < crcs[0][0]:
                                        fail("crc-dominates", "%s: %s runs before the CRC" % (sc, cons[0][1][0]))
                                    if not same:
                                        if ret == 0:
                                            fail("crc-compare", "%s: the page is accepted (returns 0)" % sc)
                                        elif ret != MISMATCH:
                                            fail("crc-mismatch-return", "%s: returns %s, not CRC_MISMATCH (%d)" % (sc, ret, MISMATCH))
                                        if cons or view:
                                            fail("crc-mismatch-clean", "%s: page bytes still reach %s" % (
                                                sc, [e[0] for _, e in cons] or "the zero-copy view"))
                                    elif ret != 0 or not (cons or view):
                                        fail("crc-compare", "%s: a matching page is not accepted (returns %s, consumers %s)" % (
                                            sc, ret, [e[0] for _, e in cons]))
                                else:
                                    # verification is off (option) or impossible (no stored CRC): the page is read
                                    if ret != 0 or not (cons or view):
                                        fail("crc-enable", "%s: the page is not read (returns %s)" % (sc, ret))
                                if ret == 0 and cons:
                                    first = cons[0][1]
                                    src_ = first[2] if first[0] == "decompress" else first[1]
                                    n_ = first[3] if first[0] == "decompress" else first[2]
                                    if src_ != payload or n_ != LD.CSIZE:
                                        fail("crc-bytes", "%s: %s reads %s (%s bytes), the checksummed page bytes are %s (%d bytes)" % (
                                            sc, first[0], src_, n_, payload, LD.CSIZE))
            nblocks += 1
            what = {"crc-compare": "%s accepts a page with a stored CRC (verification on) exactly when the CRC of its bytes equals the stored one, as unsigned 32-bit values" % name,
                    "crc-size": "the CRC is computed over compressed_page_size bytes",
                    "crc-bytes": "the checksummed bytes are the stored page bytes, the ones handed to the codec / decoder",
                    "crc-mismatch-return": "a CRC mismatch returns CARQUET_ERROR_CRC_MISMATCH",
                    "crc-mismatch-clean": "after a mismatch no page byte reaches a consumer (codec, decoder, zero-copy view)",
                    "crc-dominates": "with has_crc && verify_checksums no consumer of page bytes runs before the CRC comparison",
                    "crc-enable": "verification is enabled by has_crc && options.verify_checksums (nothing else): otherwise the page is read"}
            for k_, msg in verd.items():
                ctx.ob("R6.crc-gate", "%s|%s" % (k_, key0), P.where(f.body), what[k_] + " (abstract execution)", msg is None, msg or "")
        except (sem.Inconclusive, KeyError) as ex:
            ctx.inconclusive("R6.crc-gate", "crc-trace|" + key0, P.where(f.body), "abstract execution of %s" % name,
                             "%s: %s" % (type(ex).__name__, ex))
    ctx.count("loader_scenarios", ntr)
    ctx.floor("C14 loaders with a CRC block", nblocks, 4)

    # ---- writer
    # what the finaliser checksums, by abstract execution of its configurations (CRC values are opaque terms that
    # remember the byte ranges folded into them, in order - one call over the payload or chained updates alike)
    from . import C05
    fv = None
    try:
        fv, nfc = C05.finaliser_verdicts(P)
        ctx.ob("R6.crc-write", "writer-crc-payload|%s:carquet_page_writer_finalize" % PW, P.where(P.fn("carquet_page_writer_finalize", PW).body),
               "PageHeader.crc is the CRC of exactly the bytes stored after the header, in stored order, for every level/codec "
               "configuration (%d configurations, abstract execution)" % nfc, fv["header-crc"] is None, fv["header-crc"] or "")
    except (sem.Inconclusive, KeyError, AnalysisBroken) as ex:
        ctx.inconclusive("R6.crc-write", "writer-crc-payload|%s:carquet_page_writer_finalize" % PW,
                         P.where(P.fn("carquet_page_writer_finalize", PW).body), "abstract execution of the page finaliser",
                         "%s: %s" % (type(ex).__name__, ex))
    fin = P.inlined(P.fn("carquet_page_writer_finalize", PW), 2)     # field/assembly helpers expanded
    cz = Canon(fin, inline=False)
    cc = fin.calls("carquet_crc32")
    semantic = fv is not None      # decided above (either way): the syntactic pair below is only the fallback
    if len(cc) != 1 and not semantic:
        raise AnalysisBroken("page writer: expected one carquet_crc32 call")
    if len(cc) == 1 and not semantic:
        a = [cz(x) for x in cc[0].args()]
        apps = [c for c in fin.calls("carquet_buffer_append")
                if any(s[0] == "member" and s[2] == "page_buffer" for s in subtrees(cz(c.args()[0])))]
        same = any([cz(c.args()[1]), cz(c.args()[2])] == a for c in apps)
        ctx.ob("R6.crc-write", "writer-crc-bytes|%s:carquet_page_writer_finalize" % PW, P.where(cc[0]),
               "the writer checksums exactly the (buffer, size) it appends after the page header", same,
               "crc over (%s, %s)" % (show(a[0]), show(a[1])))
        # crc field written from the computed value under write_crc
        crcvar = None
        p = cc[0].parent
        while p is not None and not is_assign(p) and p.k != "DeclStmt":
            p = p.parent
        wrote = False
        for c in fin.calls("thrift_write_i32"):
            t = Canon(fin)(c.args()[1])
            if any(s[0] == "call" and s[1] == ("func", "carquet_crc32") for s in subtrees(t)) or \
                    (p is not None and is_assign(p) and any(
                        x.k == "DeclRefExpr" and x.name == p.c[0].strip().name for x in c.args()[1].walk())):
                wrote = True
        ctx.ob("R6.crc-write", "writer-crc-field|%s:carquet_page_writer_finalize" % PW, P.where(cc[0]),
               "the computed CRC is what is written to PageHeader.crc", wrote)
    # default on
    init = P.fn("carquet_page_writer_create", PW)
    sets = [x for x in init.body.walk() if is_assign(x) and x.c[0].strip().k == "MemberExpr"
            and x.c[0].strip().name == "write_crc"]
    ctx.ob("R6.crc-write", "writer-crc-default|%s:carquet_page_writer_create" % PW, P.where(init.body),
           "write_crc defaults to true", bool(sets) and all(x.c[1].cv == 1 for x in sets))
    ro = P.fn("carquet_reader_options_init")
    on = any(is_assign(x) and x.c[0].strip().k == "MemberExpr" and x.c[0].strip().name == "verify_checksums"
             and x.c[1].cv == 1 for x in ro.body.walk())
    ctx.ob("R6.crc-write", "reader-verify-default|carquet_reader_options_init", P.where(ro.body),
           "verify_checksums defaults to true", on)

    # ---- the lookup tables exist before any byte is folded through them
    ctx.clause("C14.6 the lazily built CRC tables are built before every read of them")
    from ..rules import lazyinit
    nl, inst = lazyinit.check(ctx, [CRC])
    ctx.floor("C14 lazily initialised tables in crc32.c", len(inst), 1)
    ctx.floor("C14 readers of the CRC tables", nl, 1)

    # ---- constant
    gen = P.fn("crc32_init_tables", CRC)
    consts = set(n.cv & 0xFFFFFFFF for n in gen.body.walk() if n.cv is not None and n.cv > 0xFFFF)
    ctx.ob("R5.spec", "crc-poly|%s" % CRC, P.where(gen.body),
           "the table generator uses the reflected IEEE 802.3 polynomial 0xEDB88320",
           0xEDB88320 in consts, "large constants: %s" % sorted(hex(c) for c in consts))

    # ---- coverage by cursor-skeleton execution
    # the core routine: the function of crc32.c (other than the table builder) that folds bytes through the tables
    cands = [g for g in P.funcs_in(CRC) if g.name != "crc32_init_tables" and "arm" not in g.name and
             any(x.k == "DeclRefExpr" and x.get("dk") == "global" and x.name == "crc32_tables" for x in g.body.walk())
             and any("*" in p_["t"] for p_ in g.params)]
    if len(cands) != 1:
        # several routines touch the tables (a round helper): the core is the one the incremental entry point calls
        called = set(c.callee for c in P.fn("carquet_crc32_update", CRC).calls())
        direct = [g for g in P.funcs_in(CRC) if g.name in called and any("*" in p_["t"] for p_ in g.params) and "arm" not in g.name]
        if len(direct) != 1:
            raise AnalysisBroken("crc32.c: cannot single out the routine that folds bytes through crc32_tables (%s)" % [g.name for g in cands])
        cands = direct
    core = cands[0]
    didx = [i for i, p in enumerate(core.params) if "*" in p["t"]]
    nidx = [i for i, p in enumerate(core.params) if p["t"].replace("const ", "") in ("size_t", "uint64_t", "uint32_t", "int")
            and p["n"] not in ("crc",)]
    if len(didx) != 1 or not nidx:
        raise AnalysisBroken("crc32_slicing_by_8: cannot identify (data, length) parameters")
    bad_cov = None
    bad_oob = None
    runs = 0
    NMAX = ctx.depth(80, 400)
    for N in range(0, NMAX + 1):
        args = [0] * len(core.params)
        args[didx[0]] = Ptr("data", 0, 1)
        args[nidx[-1]] = N
        it = Interp(P, core, budget=400000)
        try:
            outs = it.run(args)
        except (Budget, Stop) as ex:
            ctx.inconclusive("R4.skeleton", "crc-skeleton|%s" % CRC, P.where(core.body),
                             "skeleton execution of the CRC routine", str(ex))
            return
        for acc, ret in outs:
            runs += 1
            cov = set()
            for a_ in acc:
                if a_.base != "data":
                    continue
                if a_.lo < 0 or a_.hi > N:
                    bad_oob = bad_oob or (N, a_.lo, a_.hi, a_.node.l)
                cov |= set(range(max(a_.lo, 0), min(a_.hi, N)))
            miss = sorted(set(range(N)) - cov)
            if miss and bad_cov is None:
                bad_cov = (N, miss[:8])
        if it.unknown_mem:
            ctx.inconclusive("R4.skeleton", "crc-skeleton|%s" % CRC, P.where(core.body),
                             "CRC routine accesses data at an offset that depends on buffer contents")
            return
    ctx.count("crc_skeleton_runs", runs)
    ctx.ob("R4.skeleton", "crc-in-bounds|%s:%s" % (CRC, core.name), P.where(core.body),
           "for every length 0..%d the CRC routine reads only data[0..length)" % NMAX, bad_oob is None,
           "length %s reads [%s,%s) at line %s" % bad_oob if bad_oob else "")
    ctx.ob("R4.skeleton", "crc-covers|%s:%s" % (CRC, core.name), P.where(core.body),
           "for every length 0..%d every input byte is read by the CRC routine" % NMAX, bad_cov is None,
           "length %s: bytes %s never enter the checksum" % bad_cov if bad_cov else "")
    # both entry points are executed abstractly with the core routine hooked, over running values x
    # lengths (incl. 0) x NULL / non-NULL data: each returns what the core computes for exactly its own
    # (running crc | 0, data, length); for an empty chunk it may also answer itself, with the unchanged value
    from ..rules import sem
    # the two entry points, with the core routine hooked: each folds exactly its own (data, length) once;
    # a fresh checksum is an update from 0; what an update returns, fed back as the running value, resumes the
    # core exactly where it stopped (chunks compose); an empty chunk changes nothing. Whether the register
    # inversion lives in the core or in the entry points does not matter.
    f_new = P.fn("carquet_crc32", CRC)
    f_upd = P.fn("carquet_crc32_update", CRC)

    def run_ep(f, args, marker):
        hooks = {core.name: (lambda ev, a, it: ev.append(tuple((x.base, x.off) if isinstance(x, Ptr) else x for x in a)) or marker)}
        return sem.run(P, f, args, hooks=hooks, single=True, max_forks=16)
    try:
        bad = None
        npts = 0
        ci = [i for i, p_ in enumerate(core.params) if i not in (didx[0], nidx[-1])][0]
        for n_ in (1, 7, 8, 9, 100):
            for marker in (0, 0x5EED0001, 0xFFFFFFFF):
                npts += 1
                r1, e1, _h = run_ep(f_new, [Ptr("chunk", 0, 1), n_], marker)
                r2, e2, _h = run_ep(f_upd, [0, Ptr("chunk", 0, 1), n_], marker)
                for nm, ev in (("carquet_crc32", e1), ("carquet_crc32_update", e2)):
                    if len(ev) != 1 or ev[0][didx[0]] != ("chunk", 0) or ev[0][nidx[-1]] != n_:
                        bad = bad or "%s(data, %d): core calls %s" % (nm, n_, ev)
                if bad is None and (e1 != e2 or r1 != r2):
                    bad = "a fresh checksum is not an update from 0: crc32 -> core%s = %s, update(0) -> core%s = %s" % (e1, r1, e2, r2)
                for c0 in (0, 0x1234ABCD):
                    ra, ea, _h = run_ep(f_upd, [c0, Ptr("chunk", 0, 1), n_], marker)
                    rb, eb, _h = run_ep(f_upd, [ra, Ptr("chunk", 0, 1), n_], 0)
                    if bad is None and (len(eb) != 1 or not isinstance(ra, int) or eb[0][ci] != marker):
                        bad = "chunks do not compose: update returns %s for core state %#x, and resumes the core from %s" % (
                            hex(ra) if isinstance(ra, int) else ra, marker, eb)
        ctx.ob("R5.agree", "crc-entry|%s:entry points" % CRC, P.where(f_upd.body),
               "carquet_crc32 / carquet_crc32_update fold exactly their own (data, length), a fresh checksum is an update from 0, and the "
               "value an update returns resumes the core where it stopped (%d points, core hooked)" % npts, bad is None, bad or "")
        bad_e = None
        for c0 in (0, 1, 0x1234ABCD, 0xFFFFFFFF):
            for dptr in (Ptr("chunk", 0, 1), 0):
                for ret, ev, _h in sem.run(P, f_upd, [c0, dptr, 0], single=False, max_forks=16, budget=400000):
                    if ret != c0:
                        bad_e = bad_e or "carquet_crc32_update(%#x, %s, 0) returns %s" % (c0, "data" if dptr != 0 else "NULL", hex(ret) if isinstance(ret, int) else ret)
        for ret, ev, _h in sem.run(P, f_new, [Ptr("chunk", 0, 1), 0], single=False, max_forks=16, budget=400000):
            if ret != 0:
                bad_e = bad_e or "carquet_crc32(data, 0) returns %s" % (hex(ret) if isinstance(ret, int) else ret)
        ctx.ob("R5.agree", "crc-entry|%s:empty chunk" % CRC, P.where(f_upd.body),
               "an empty chunk leaves a running CRC unchanged and the CRC of nothing is 0 (executed with the real core)", bad_e is None, bad_e or "")
    except (sem.Inconclusive, IndexError) as ex:
        ctx.inconclusive("R5.agree", "crc-entry|%s:entry points" % CRC, P.where(f_upd.body), "abstract execution of the entry points", str(ex))


def _enable_table(crc):
    """{(has_crc, verify): is the CRC computed} from the conditions governing the call; None when a
    governing condition depends on anything but the two flags."""
    def atoms(c):
        return set(x.name for x in c.walk() if x.k == "MemberExpr" and x.name in ("has_crc", "verify_checksums"))

    def pure(c):
        for x in c.walk():
            if x.k in ("CallExpr",):
                return False
            if x.k == "MemberExpr" and x.name not in ("has_crc", "verify_checksums", "options"):
                return False
            if x.k == "DeclRefExpr" and x.get("dk") == "local":
                return False
        return True

    def ev(c, env):
        c = c.strip()
        if c.k == "BinaryOperator" and c.op in ("&&", "||"):
            a, b = ev(c.c[0], env), ev(c.c[1], env)
            return (a and b) if c.op == "&&" else (a or b)
        if c.k == "UnaryOperator" and c.op == "!":
            return not ev(c.c[0], env)
        if c.k == "BinaryOperator" and c.op in ("==", "!=") and c.c[1].cv in (0, 1):
            v = ev(c.c[0], env)
            return (v == bool(c.c[1].cv)) if c.op == "==" else (v != bool(c.c[1].cv))
        x = c.strip_casts()
        if x.k == "MemberExpr" and x.name == "has_crc":
            return bool(env[0])
        if x.k == "MemberExpr" and x.name == "verify_checksums":
            return bool(env[1])
        raise ValueError
    conds = []       # (cond, must_be)
    child = crc
    for a in crc.ancestors():
        if a.k == "IfStmt":
            kids = [x for x in a.c if x is not None]
            if atoms(kids[0]):
                inthen = any(y is child for y in [kids[1]]) or _inside(child, kids[1])
                conds.append((kids[0], inthen))
        if a.k == "CompoundStmt":
            # early exits that precede the call at this level
            for st in a.kids():
                if st is child or _inside(child, st):
                    break
                if st.k == "IfStmt":
                    kids = [x for x in st.c if x is not None]
                    if atoms(kids[0]) and any(r.k == "ReturnStmt" for r in kids[1].walk()):
                        conds.append((kids[0], False))
        if a.k == "InlinedCall":
            pass
        child = a
    if not conds:
        return None
    out = {}
    try:
        for h in (0, 1):
            for v in (0, 1):
                out[(h, v)] = all(ev(c, (h, v)) == want for c, want in conds)
    except ValueError:
        return None
    return out


def _inside(n, root):
    x = n
    while x is not None:
        if x is root:
            return True
        x = x.parent
    return False


def _crc_helpers(P, f, depth=2):
    """names of static helpers called by f (same file) that reach carquet_crc32"""
    out = set()
    if depth == 0:
        return out
    for c in f.calls():
        for g in P.by_name.get(c.callee or "", []):
            if g.file == f.file and g.static and g.key() != f.key():
                if g.calls("carquet_crc32") or _crc_helpers(P, g, depth - 1):
                    out.add(g.name)
    return out


def _crc_presence(ctx):
    """has_crc is the gate of clause 1: the parser must set it to a constant true in the arm that reads
    PageHeader field 4, whatever the stored value is (a CRC of 0 is a legal checksum)."""
    P = ctx.P
    PT = "src/thrift/parquet_types.c"
    f = P.fn("parquet_parse_page_header", PT)
    sets = [a for a in f.body.walk() if is_assign(a) and a.c[0].strip().k == "MemberExpr" and a.c[0].strip().name == "has_crc"]
    reads = [a for a in f.body.walk() if is_assign(a) and a.c[0].strip().k == "MemberExpr" and a.c[0].strip().name == "crc"]
    ctx.floor("parse_page_header stores of has_crc/crc", len(sets) + len(reads), 2)
    w = f.cfg.where()
    for a in sets:
        const_true = a.c[1].cv == 1 or a.c[1].strip_casts().cv == 1
        same_arm = any(w.get(a.i, (None,))[0] == w.get(r.i, (None,))[0] for r in reads)
        ctx.ob("R6.crc-gate", "crc-presence|%s:parquet_parse_page_header" % PT, P.where(a),
               "has_crc is set to true (a constant) together with the read of field 4, independently of the stored value",
               const_true and same_arm, "" if const_true else "has_crc = %s" % src(a.c[1])[:40])


def _option_writers(ctx):
    """Who stores to the option that decides whether page checksums are verified. It is the caller's choice, taken once when the
    reader is opened: the only store in the library is the default in the options initialiser. A function that switches it
    (off for a while, back on later) makes every page loaded in between unverified although the caller asked for verification."""
    from ..util import is_assign
    P = ctx.P
    n = 0
    for fn in P.lib_functions():
        if fn.body is None or not P.rel(fn.file).startswith("src/"):
            continue
        for x in fn.body.walk():
            if not (is_assign(x) or (x.k == "UnaryOperator" and x.op in ("++", "--"))):
                continue
            t = x.c[0].strip()
            if t.k != "MemberExpr" or t.name != "verify_checksums":
                continue
            n += 1
            base = t.c[0].strip_casts() if t.c else None
            # the options object being initialised is the function's own parameter (carquet_reader_options_init and the like)
            own = base is not None and base.k == "DeclRefExpr" and base.get("dk") == "param" and "options" in (base.t or "")
            ctx.ob("R7.who-may-write", "option-writer|%s:%s|verify_checksums" % (P.rel(fn.file), fn.name), P.where(x),
                   "verify_checksums is stored only into an options object handed in for initialisation, never into a reader's live options",
                   own, "" if own else "`%s` in %s: pages loaded while the caller's choice is overridden are not verified" % (src(x)[:60], fn.name))
    # memcpy / struct assignment of a whole options object into the reader is how the caller's choice arrives; that is not a store to the member
    return n
