"""C14 - page checksums: verification gates consumption; CRC covers every byte; IEEE constant."""
from ..canon import Canon, subtrees, show
from ..extract import AnalysisBroken
from ..facts import src
from ..rules.flow import find_path_avoiding, describe_path
from ..rules.skeleton import Interp, Ptr, Budget, Stop
from ..util import is_assign

EXPLANATION = (
    "Static decision of structural clauses of C14: (1) in each of the four page loaders "
    "(load_dictionary_page_{mmap,fread}, load_next_page_{mmap,fread}) every CFG path to a consumer of "
    "page bytes (decompress_page, carquet_read_dictionary_page, carquet_read_data_page_v1, the "
    "zero-copy hand-out) that does not leave through the false arm of `has_crc && verify_checksums` "
    "passes the comparison of carquet_crc32(stored bytes, compressed_page_size) with the header crc, "
    "whose mismatch arm returns CRC_MISMATCH and reaches no consumer; (2) the writer checksums exactly "
    "the buffer/size it appends after the header and write_crc defaults to on; (3) the table generator "
    "uses the reflected IEEE polynomial 0xEDB88320; (4) cursor-skeleton abstract execution of "
    "crc32_slicing_by_8 for every length 0..80 (0..400 in the thorough tier): all reads stay inside [0,length) and every input byte "
    "is read (no byte can escape the checksum), for both entry points; (5) the page-header parser sets "
    "has_crc to a constant true in the arm that reads field 4, whatever the stored value (a CRC of 0 is a "
    "legal checksum), so the gate of (1) is open whenever a checksum was stored. Decides these clauses, not "
    "equality with zlib for all inputs nor the CRC's error-detection algebra.")

PR = "src/reader/page_reader.c"
PW = "src/writer/page_writer.c"
CRC = "src/util/crc32.c"
LOADERS = ["load_dictionary_page_mmap", "load_dictionary_page_fread", "load_next_page_mmap",
           "load_next_page_fread"]
CONSUMERS = {"decompress_page", "carquet_read_dictionary_page", "carquet_read_data_page_v1"}


def _mentions(node, field):
    return any(x.k == "MemberExpr" and x.name == field for x in node.walk())


def run(ctx):
    P = ctx.P
    ctx.clause("C14.1 CRC verification dominates every consumer of page bytes in all four loaders")
    ctx.clause("C14.2 writer checksums the stored bytes; write_crc on by default")
    ctx.clause("C14.3 reflected IEEE polynomial constant")
    ctx.clause("C14.4 CRC routine reads every input byte exactly within bounds (skeleton execution)")
    ctx.clause("C14.5 a stored CRC is never ignored: the header parser sets has_crc whenever field 4 is present")
    _crc_presence(ctx)
    nblocks = 0
    for name in LOADERS:
        f = P.fn(name, PR)
        # the CRC may be computed and compared in a static helper: helpers are expanded for reading the
        # arguments, and a call to a helper that reaches carquet_crc32 counts as the CRC event in the CFG
        view = P.inlined(f, 2, keep=tuple(sorted(set(CONSUMERS) | set(LOADERS) | {"decompress_page", "read_at"})))
        cz = Canon(view)
        crc_calls = view.calls("carquet_crc32")
        key0 = "%s:%s" % (PR, name)
        if len(crc_calls) != 1:
            ctx.ob("R6.crc-gate", "crc-call|" + key0, P.where(f.body),
                   "%s computes the page CRC exactly once" % name, False, "found %d calls" % len(crc_calls)) \
                if len(crc_calls) == 0 and not _crc_helpers(P, f) else \
                ctx.inconclusive("R6.crc-gate", "crc-call|" + key0, P.where(f.body),
                                 "%s computes the page CRC exactly once" % name, "found %d calls" % len(crc_calls))
            continue
        nblocks += 1
        crc = crc_calls[0]
        helpers = _crc_helpers(P, f)

        def has_crc_event(n_):
            return any(x.k == "CallExpr" and (x.callee == "carquet_crc32" or x.callee in helpers) for x in n_.walk())
        # the comparison: an if (of the loader itself) whose condition contains the CRC event or compares a
        # local computed from it with the header's crc; one of its arms returns CRC_MISMATCH
        crc_locals = set()
        for n in f.body.walk():
            if n.k == "DeclStmt":
                for d_, init in zip(n.get("decls", []), n.c):
                    if init is not None and has_crc_event(init):
                        crc_locals.add(d_.get("d"))
            elif is_assign(n) and n.c[0].strip().k == "DeclRefExpr" and has_crc_event(n.c[1]):
                crc_locals.add(n.c[0].strip().get("d"))
        cmp_if = None
        for n in f.body.walk():
            if n.k == "IfStmt":
                cond = [x for x in n.c if x is not None][0]
                if has_crc_event(cond) or any(x.k == "DeclRefExpr" and x.get("d") in crc_locals for x in cond.walk()):
                    kids_ = [x for x in n.c if x is not None]
                    arms = [("then", kids_[1])] + ([("else", kids_[2])] if len(kids_) > 2 else [])
                    for an, arm_ in arms:
                        if any(r.k == "ReturnStmt" and r.c and r.c[0] is not None and r.c[0].cv == 71 for r in arm_.walk()):
                            cmp_if = (n, cond, an)
        if cmp_if is None:
            ctx.inconclusive("R6.crc-gate", "crc-compare|" + key0, P.where(f.body),
                             "%s compares the computed CRC with page_header.crc" % name,
                             "no if over the CRC result with a CRC_MISMATCH exit recognised")
            continue
        ifn, cond, mism_arm = cmp_if
        # the value compared with the CRC is the header's crc field (also through locals / out-parameters)
        tags = {}
        for n in view.body.walk():
            tgt_, rhs_ = None, None
            if is_assign(n) and n.op == "=":
                tgt_, rhs_ = src(n.c[0].strip_casts()), n.c[1]
            elif n.k == "DeclStmt":
                for d_, init in zip(n.get("decls", []), n.c):
                    if init is not None:
                        tg = set()
                        if any(x.k == "CallExpr" and x.callee == "carquet_crc32" for x in init.walk()):
                            tg.add("crc32")
                        if any(x.k == "MemberExpr" and x.name == "crc" for x in init.walk()):
                            tg.add("hdr")
                        if tg:
                            tags.setdefault(d_["n"], set()).update(tg)
                continue
            if tgt_ is None:
                continue
            if any(x.k == "CallExpr" and x.callee == "carquet_crc32" for x in rhs_.walk()):
                tags.setdefault(tgt_, set()).add("crc32")
            if any(x.k == "MemberExpr" and x.name == "crc" for x in rhs_.walk()):
                tags.setdefault(tgt_, set()).add("hdr")

        def side_tags(e_):
            tg = set()
            if any(x.k == "CallExpr" and x.callee == "carquet_crc32" for x in e_.walk()):
                tg.add("crc32")
            if any(x.k == "MemberExpr" and x.name == "crc" for x in e_.walk()):
                tg.add("hdr")
            tg |= tags.get(src(e_.strip_casts()), set())
            return tg
        vcmp = None
        for n in view.body.walk():
            if n.k == "BinaryOperator" and n.op in ("!=", "=="):
                a_, b_ = side_tags(n.c[0]), side_tags(n.c[1])
                if ("crc32" in a_ and "hdr" in b_) or ("hdr" in a_ and "crc32" in b_):
                    vcmp = n
        ctx.ob("R6.crc-gate", "crc-compare|" + key0, P.where(ifn),
               "%s compares the computed CRC with page_header.crc" % name, vcmp is not None,
               src(vcmp)[:100] if vcmp is not None else "no comparison of the computed CRC with the stored one found")
        t = ("bin", "!=" if mism_arm == "then" else "==")
        # CRC arguments: (stored bytes, compressed_page_size)
        args = [cz(a) for a in crc.args()]
        size_ok = any(s[0] == "member" and s[2] == "compressed_page_size" for s in subtrees(args[1]))
        ctx.ob("R6.crc-gate", "crc-size|" + key0, P.where(ifn),
               "the CRC is computed over compressed_page_size bytes", size_ok, show(args[1]))
        # the same pointer is what the consumers read
        ptr_t = args[0]
        users = []
        for c in view.calls("decompress_page"):
            users.append(("decompress_page", cz(c.args()[1])))
        ptr_ok = all(u[1] == ptr_t for u in users) and bool(users)
        ctx.ob("R6.crc-gate", "crc-bytes|" + key0, P.where(ifn),
               "the checksummed pointer is the one handed to decompress_page", ptr_ok,
               "crc over %s; consumers read %s" % (show(ptr_t), [show(u[1]) for u in users]))
        kids = [x for x in ifn.c if x is not None]
        then = kids[1]
        mism_is_then = t[1] == "!="
        arm = then if mism_is_then else (kids[2] if len(kids) > 2 else None)
        rets = [r for r in arm.walk() if r.k == "ReturnStmt"] if arm is not None else []
        ok_ret = bool(rets) and all(r.c and r.c[0] is not None and r.c[0].cv == 71 for r in rets)
        ctx.ob("R6.crc-gate", "crc-mismatch-return|" + key0, P.where(ifn),
               "a CRC mismatch returns CARQUET_ERROR_CRC_MISMATCH", ok_ret)
        no_consumer = arm is None or not any(c.k == "CallExpr" and c.callee in CONSUMERS for c in arm.walk())
        ctx.ob("R6.crc-gate", "crc-mismatch-clean|" + key0, P.where(ifn),
               "the mismatch arm reaches no consumer of page bytes", no_consumer and ok_ret)

        # gate: every path to a consumer passes the comparison unless it took the false arm of
        # has_crc / verify_checksums
        cmp_nodes = set(x.i for x in cond.walk())

        def is_cmp(e):
            return e.i in cmp_nodes and ((e.k == "BinaryOperator" and e.op in ("!=", "==")) or
                                         (e.k == "CallExpr" and e.callee in helpers))

        def is_consumer(e):
            if e.k == "CallExpr" and e.callee in CONSUMERS:
                return True
            # zero-copy hand-out: decoded_values = (view of page bytes)
            if is_assign(e) and e.op == "=":
                l = e.c[0].strip()
                if l.k == "MemberExpr" and l.name == "decoded_values" and e.c[1].cv is None:
                    r = e.c[1].strip_casts()
                    return r.k != "CallExpr"
            return False

        def cut(B, si):
            if B.cond is None or si != 1:
                return False
            return _mentions(B.cond, "has_crc") or _mentions(B.cond, "verify_checksums")
        w = find_path_avoiding(f.cfg, is_cmp, is_consumer, cut)
        ctx.ob("R6.crc-gate", "crc-dominates|" + key0, P.where(ifn),
               "with has_crc && verify_checksums, %s cannot reach a consumer of page bytes without the "
               "CRC comparison" % name, w is None,
               "path: %s" % describe_path(f, f.cfg, w) if w else "")
        # the enabling condition is exactly has_crc && verify_checksums: the conditions that govern the CRC
        # call (enclosing branches and preceding early exits, in the loader or in the helper that holds the
        # call) are evaluated as a truth table over the two flags
        en = _enable_table(crc)
        if en is None:
            ctx.inconclusive("R6.crc-gate", "crc-enable|" + key0, P.where(ifn),
                             "verification is enabled by has_crc && options.verify_checksums (nothing else)",
                             "the conditions governing the CRC call mention something else")
        else:
            ctx.ob("R6.crc-gate", "crc-enable|" + key0, P.where(ifn),
                   "verification is enabled by has_crc && options.verify_checksums (nothing else)",
                   en == {(h_, v_): bool(h_ and v_) for h_ in (0, 1) for v_ in (0, 1)}, str(en))
    ctx.floor("C14 loaders with a CRC block", nblocks, 4)

    # ---- writer
    fin = P.inlined(P.fn("carquet_page_writer_finalize", PW), 2)     # field/assembly helpers expanded
    cz = Canon(fin, inline=False)
    cc = fin.calls("carquet_crc32")
    if len(cc) != 1:
        raise AnalysisBroken("page writer: expected one carquet_crc32 call")
    a = [cz(x) for x in cc[0].args()]
    apps = [c for c in fin.calls("carquet_buffer_append")
            if any(s[0] == "member" and s[2] == "page_buffer" for s in subtrees(cz(c.args()[0])))]
    same = any([cz(c.args()[1]), cz(c.args()[2])] == a for c in apps)
    ctx.ob("R6.crc-write", "writer-crc-bytes|%s:carquet_page_writer_finalize" % PW, P.where(cc[0]),
           "the writer checksums exactly the (buffer, size) it appends after the page header", same,
           "crc over (%s, %s)" % (show(a[0]), show(a[1])))
    # crc field written from the computed value under write_crc
    crcvar = None
    p = cc[0].parent
    while p is not None and not is_assign(p) and p.k != "DeclStmt":
        p = p.parent
    wrote = False
    for c in fin.calls("thrift_write_i32"):
        t = Canon(fin)(c.args()[1])
        if any(s[0] == "call" and s[1] == ("func", "carquet_crc32") for s in subtrees(t)) or \
                (p is not None and is_assign(p) and any(
                    x.k == "DeclRefExpr" and x.name == p.c[0].strip().name for x in c.args()[1].walk())):
            wrote = True
    ctx.ob("R6.crc-write", "writer-crc-field|%s:carquet_page_writer_finalize" % PW, P.where(cc[0]),
           "the computed CRC is what is written to PageHeader.crc", wrote)
    # default on
    init = P.fn("carquet_page_writer_create", PW)
    sets = [x for x in init.body.walk() if is_assign(x) and x.c[0].strip().k == "MemberExpr"
            and x.c[0].strip().name == "write_crc"]
    ctx.ob("R6.crc-write", "writer-crc-default|%s:carquet_page_writer_create" % PW, P.where(init.body),
           "write_crc defaults to true", bool(sets) and all(x.c[1].cv == 1 for x in sets))
    ro = P.fn("carquet_reader_options_init")
    on = any(is_assign(x) and x.c[0].strip().k == "MemberExpr" and x.c[0].strip().name == "verify_checksums"
             and x.c[1].cv == 1 for x in ro.body.walk())
    ctx.ob("R6.crc-write", "reader-verify-default|carquet_reader_options_init", P.where(ro.body),
           "verify_checksums defaults to true", on)

    # ---- constant
    gen = P.fn("crc32_init_tables", CRC)
    consts = set(n.cv & 0xFFFFFFFF for n in gen.body.walk() if n.cv is not None and n.cv > 0xFFFF)
    ctx.ob("R5.spec", "crc-poly|%s" % CRC, P.where(gen.body),
           "the table generator uses the reflected IEEE 802.3 polynomial 0xEDB88320",
           0xEDB88320 in consts, "large constants: %s" % sorted(hex(c) for c in consts))

    # ---- coverage by cursor-skeleton execution
    core = P.fn("crc32_slicing_by_8", CRC)
    didx = [i for i, p in enumerate(core.params) if "*" in p["t"]]
    nidx = [i for i, p in enumerate(core.params) if p["t"].replace("const ", "") in ("size_t", "uint64_t", "uint32_t", "int")
            and p["n"] not in ("crc",)]
    if len(didx) != 1 or not nidx:
        raise AnalysisBroken("crc32_slicing_by_8: cannot identify (data, length) parameters")
    bad_cov = None
    bad_oob = None
    runs = 0
    NMAX = ctx.depth(80, 400)
    for N in range(0, NMAX + 1):
        args = [0] * len(core.params)
        args[didx[0]] = Ptr("data", 0, 1)
        args[nidx[-1]] = N
        it = Interp(P, core, budget=400000)
        try:
            outs = it.run(args)
        except (Budget, Stop) as ex:
            ctx.inconclusive("R4.skeleton", "crc-skeleton|%s" % CRC, P.where(core.body),
                             "skeleton execution of the CRC routine", str(ex))
            return
        for acc, ret in outs:
            runs += 1
            cov = set()
            for a_ in acc:
                if a_.base != "data":
                    continue
                if a_.lo < 0 or a_.hi > N:
                    bad_oob = bad_oob or (N, a_.lo, a_.hi, a_.node.l)
                cov |= set(range(max(a_.lo, 0), min(a_.hi, N)))
            miss = sorted(set(range(N)) - cov)
            if miss and bad_cov is None:
                bad_cov = (N, miss[:8])
        if it.unknown_mem:
            ctx.inconclusive("R4.skeleton", "crc-skeleton|%s" % CRC, P.where(core.body),
                             "CRC routine accesses data at an offset that depends on buffer contents")
            return
    ctx.count("crc_skeleton_runs", runs)
    ctx.ob("R4.skeleton", "crc-in-bounds|%s:crc32_slicing_by_8" % CRC, P.where(core.body),
           "for every length 0..%d the CRC routine reads only data[0..length)" % NMAX, bad_oob is None,
           "length %s reads [%s,%s) at line %s" % bad_oob if bad_oob else "")
    ctx.ob("R4.skeleton", "crc-covers|%s:crc32_slicing_by_8" % CRC, P.where(core.body),
           "for every length 0..%d every input byte is read by the CRC routine" % NMAX, bad_cov is None,
           "length %s: bytes %s never enter the checksum" % bad_cov if bad_cov else "")
    # both entry points delegate with their own (data, length)
    for ep in ("carquet_crc32", "carquet_crc32_update"):
        f = P.fn(ep, CRC)
        cs = f.calls("crc32_slicing_by_8")
        okd = False
        if len(cs) == 1:
            t = [Canon(f)(x) for x in cs[0].args()]
            pn = [p["n"] for p in f.params]
            okd = t[-2][0] == "param" and t[-1][0] == "param" and \
                pn[t[-2][1]] == "data" and pn[t[-1][1]] == "length"
            if ep == "carquet_crc32":
                okd = okd and t[0] == ("int", 0)
            else:
                okd = okd and t[0][0] == "param"
        ctx.ob("R5.agree", "crc-entry|%s:%s" % (CRC, ep), P.where(f.body),
               "%s passes its own (data, length) and %s to the core routine"
               % (ep, "initial value 0" if ep == "carquet_crc32" else "the running crc"), okd)


def _enable_table(crc):
    """{(has_crc, verify): is the CRC computed} from the conditions governing the call; None when a
    governing condition depends on anything but the two flags."""
    def atoms(c):
        return set(x.name for x in c.walk() if x.k == "MemberExpr" and x.name in ("has_crc", "verify_checksums"))

    def pure(c):
        for x in c.walk():
            if x.k in ("CallExpr",):
                return False
            if x.k == "MemberExpr" and x.name not in ("has_crc", "verify_checksums", "options"):
                return False
            if x.k == "DeclRefExpr" and x.get("dk") == "local":
                return False
        return True

    def ev(c, env):
        c = c.strip()
        if c.k == "BinaryOperator" and c.op in ("&&", "||"):
            a, b = ev(c.c[0], env), ev(c.c[1], env)
            return (a and b) if c.op == "&&" else (a or b)
        if c.k == "UnaryOperator" and c.op == "!":
            return not ev(c.c[0], env)
        if c.k == "BinaryOperator" and c.op in ("==", "!=") and c.c[1].cv in (0, 1):
            v = ev(c.c[0], env)
            return (v == bool(c.c[1].cv)) if c.op == "==" else (v != bool(c.c[1].cv))
        x = c.strip_casts()
        if x.k == "MemberExpr" and x.name == "has_crc":
            return bool(env[0])
        if x.k == "MemberExpr" and x.name == "verify_checksums":
            return bool(env[1])
        raise ValueError
    conds = []       # (cond, must_be)
    child = crc
    for a in crc.ancestors():
        if a.k == "IfStmt":
            kids = [x for x in a.c if x is not None]
            if atoms(kids[0]):
                inthen = any(y is child for y in [kids[1]]) or _inside(child, kids[1])
                conds.append((kids[0], inthen))
        if a.k == "CompoundStmt":
            # early exits that precede the call at this level
            for st in a.kids():
                if st is child or _inside(child, st):
                    break
                if st.k == "IfStmt":
                    kids = [x for x in st.c if x is not None]
                    if atoms(kids[0]) and any(r.k == "ReturnStmt" for r in kids[1].walk()):
                        conds.append((kids[0], False))
        if a.k == "InlinedCall":
            pass
        child = a
    if not conds:
        return None
    out = {}
    try:
        for h in (0, 1):
            for v in (0, 1):
                out[(h, v)] = all(ev(c, (h, v)) == want for c, want in conds)
    except ValueError:
        return None
    return out


def _inside(n, root):
    x = n
    while x is not None:
        if x is root:
            return True
        x = x.parent
    return False


def _crc_helpers(P, f, depth=2):
    """names of static helpers called by f (same file) that reach carquet_crc32"""
    out = set()
    if depth == 0:
        return out
    for c in f.calls():
        for g in P.by_name.get(c.callee or "", []):
            if g.file == f.file and g.static and g.key() != f.key():
                if g.calls("carquet_crc32") or _crc_helpers(P, g, depth - 1):
                    out.add(g.name)
    return out


def _crc_presence(ctx):
    """has_crc is the gate of clause 1: the parser must set it to a constant true in the arm that reads
    PageHeader field 4, whatever the stored value is (a CRC of 0 is a legal checksum)."""
    P = ctx.P
    PT = "src/thrift/parquet_types.c"
    f = P.fn("parquet_parse_page_header", PT)
    sets = [a for a in f.body.walk() if is_assign(a) and a.c[0].strip().k == "MemberExpr" and a.c[0].strip().name == "has_crc"]
    reads = [a for a in f.body.walk() if is_assign(a) and a.c[0].strip().k == "MemberExpr" and a.c[0].strip().name == "crc"]
    ctx.floor("parse_page_header stores of has_crc/crc", len(sets) + len(reads), 2)
    w = f.cfg.where()
    for a in sets:
        const_true = a.c[1].cv == 1 or a.c[1].strip_casts().cv == 1
        same_arm = any(w.get(a.i, (None,))[0] == w.get(r.i, (None,))[0] for r in reads)
        ctx.ob("R6.crc-gate", "crc-presence|%s:parquet_parse_page_header" % PT, P.where(a),
               "has_crc is set to true (a constant) together with the read of field 4, independently of the stored value",
               const_true and same_arm, "" if const_true else "has_crc = %s" % src(a.c[1])[:40])
