"""C02 - reader result independent of consumption history (structural clauses)."""
from ..canon import Canon, show, subtrees
from ..extract import AnalysisBroken
from ..facts import src
from ..rules.skeleton import Interp
from ..rules import whomay
from ..util import switch_table, find_switches, is_assign

EXPLANATION = (
    "Static decision of structural clauses of C02: (1) the type->value-size tables used for cursor "
    "arithmetic (page_reader.get_value_size, carquet_column_read_batch, carquet_column_skip, "
    "batch_reader.get_type_size; obtained by executing the size function per enum value - switch, "
    "if-chain or a const lookup table of structs alike) agree on all eight physical types, and the "
    "fixed-width tables (dictionary entry width, statistics value size) agree with them on the six "
    "fixed-width rows; (2) the column reader's cursor fields are written only by the page reader's "
    "functions and the frozen set of other writers; carquet_read_next_page, executed abstractly over {no "
    "page, partly consumed, fully consumed, over-consumed} x request sizes x wanted level arrays x a "
    "failing page load with the page-loader dispatcher and memcpy hooked: a page is stepped over (by "
    "page_header_size + page_compressed_size, page_loaded cleared) and a new one loaded only when none is "
    "loaded or the loaded one is consumed; min(max_values, left in page) values and levels are copied "
    "from the page position scaled by the value size; page_values_read, values_remaining and *values_read "
    "move by that count; a failed load copies nothing; a whole-page (set-form) cursor update in the batch "
    "reader is guarded by page_values_read == 0 (also when the zero-copy arm is a helper); (3) skip "
    "changes reader state only through carquet_column_read_batch; (4) every scalar null-bitmap builder "
    "sets a bit iff def < max_def (one polarity), and every null bitmap of the batch reader starts from "
    "calloc; (5) every subscript of a per-leaf array, a per-element array, a per-projection array or the "
    "row-group list uses an index whose provenance is in the array's own index space; (6) "
    "carquet_batch_reader_create, executed abstractly for a 3-column file, keeps exactly the caller's "
    "projection list in the caller's order for every width 1..4 (permutations and duplicates included), by "
    "index and by name, and 0..N-1 without a list; (7) carquet_column_read_batch, executed with the page "
    "reader hooked (pages of 3, 4, 2 values or a failing second page; requests 1..12; level arrays wanted or "
    "not; every fixed-width type), hands each page the three output positions advanced by what was already "
    "delivered and returns the total. a comparison that decides what remains of a chunk never sets stored (compressed, header-carrying) byte counts against uncompressed byte counts (R36, members classified by a frozen table, locals by what they are built from). (9) carquet_reader_get_column executed on a chunk of 2^31 + 1000 values, then carquet_column_remaining / carquet_column_has_next on its result: the counter that steers read_batch, skip and has_next holds the full count. Decides these "
    "clauses, not that the dense-values offset is right for nullable pages.")

PR = "src/reader/page_reader.c"
CR = "src/reader/column_reader.c"
BR = "src/reader/batch_reader.c"
FRD = "src/reader/file_reader.c"
MS = "src/metadata/statistics.c"
TYPES = ["CARQUET_PHYSICAL_BOOLEAN", "CARQUET_PHYSICAL_INT32", "CARQUET_PHYSICAL_INT64",
         "CARQUET_PHYSICAL_INT96", "CARQUET_PHYSICAL_FLOAT", "CARQUET_PHYSICAL_DOUBLE",
         "CARQUET_PHYSICAL_BYTE_ARRAY", "CARQUET_PHYSICAL_FIXED_LEN_BYTE_ARRAY"]
FIXED = [t for t in TYPES if t not in ("CARQUET_PHYSICAL_BOOLEAN", "CARQUET_PHYSICAL_BYTE_ARRAY")]

CURSOR = ["values_remaining", "page_values_read", "page_num_values", "page_loaded", "current_page",
          "page_header_size", "page_compressed_size", "data_start_offset"]
# function -> cursor fields it may write (frozen from reading the code; one reason each)
WRITERS = {
    "carquet_read_next_page": {"values_remaining", "page_values_read", "current_page", "page_loaded"},
    "load_next_page_mmap": {"page_loaded", "page_num_values", "page_values_read", "page_header_size",
                            "page_compressed_size"},
    "load_next_page_fread": {"page_loaded", "page_num_values", "page_values_read", "page_header_size",
                             "page_compressed_size"},
    "load_dictionary_page_mmap": {"data_start_offset"},
    "load_dictionary_page_fread": {"data_start_offset"},
    "carquet_batch_reader_next": {"page_values_read", "values_remaining"},   # zero-copy hand-out
    "carquet_reader_get_column": {"values_remaining", "data_start_offset", "current_page", "page_loaded",
                                  "page_values_read", "page_num_values"},  # initialisation
}


def size_table(fn, sw):
    """{type label: canonical size} for a switch mapping a physical type to a byte size."""
    tab, order = switch_table(sw)
    cz = Canon(fn, inline=False)
    out = {}
    for lab, seq in tab.items():
        val = None
        for s in seq:
            for x in s.walk():
                if x.k == "ReturnStmt" and x.c and x.c[0] is not None:
                    val = val or _size_expr(cz, x.c[0])
                elif is_assign(x) and x.op == "=" and "size" in src(x.c[0]):
                    val = val or _size_expr(cz, x.c[1])
        if val is not None:
            out[lab] = val
    return out


def value_size_table(P, fn, depth=0):
    """{physical type: byte size} of the table a function uses for cursor arithmetic, however it is
    spelled: (a) a dedicated size function (a physical-type parameter, integer result) is executed
    abstractly once per enum value; (b) a switch over the type, also when it sits in a static helper
    (helper-expanded view); (c) a call to a dedicated size function of the same file."""
    from ..rules import sem
    tpar = [i for i, p_ in enumerate(fn.params) if "physical_type" in p_["t"]]
    if tpar and "*" not in (fn.ret or "") and (fn.ret or "") not in ("void", "bool", "_Bool") and len(fn.params) <= 3:
        tab = {}
        for name, val in P.enum("carquet_physical_type").items():
            args = []
            for i, p_ in enumerate(fn.params):
                if i == tpar[0]:
                    args.append(val)
                elif "len" in p_["n"]:
                    args.append(7777)
                else:
                    args.append(0)
            try:
                ret, ev, _ = sem.run(P, fn, args)
            except sem.Inconclusive:
                tab = None
                break
            if isinstance(ret, int):
                tab[name] = "type_length" if ret == 7777 else ret
        if tab:
            # an unknown type value gives the default row
            try:
                ret, _, _ = sem.run(P, fn, [99 if i == tpar[0] else (7777 if "len" in p_["n"] else 0) for i, p_ in enumerate(fn.params)])
                if isinstance(ret, int):
                    tab["default"] = ret
            except sem.Inconclusive:
                pass
            return tab
    v = P.inlined(fn, 2)
    best = None
    for s in find_switches(v):
        if "type" not in src(s.c[-2]) or "page_header" in src(s.c[-2]):
            continue
        t = size_table(v, s)
        if len(t) >= 5 and (best is None or len(t) > len(best)):
            best = t
    if best is None:
        # the same table as an if / else-if chain: `if (t == A || t == B) size = 4; else if (t == C) size = 8; ...`
        cz = Canon(v, inline=False)
        rows = {}
        for s_ in v.body.walk():
            if s_.k != "IfStmt":
                continue
            kids = [x for x in s_.c if x is not None]
            labs = []

            def leaves(c_):
                c_ = c_.strip()
                if c_.k == "BinaryOperator" and c_.op == "||":
                    leaves(c_.c[0])
                    leaves(c_.c[1])
                elif c_.k == "BinaryOperator" and c_.op == "==":
                    for side in c_.c:
                        x_ = side.strip_casts()
                        if x_.k == "DeclRefExpr" and x_.get("dk") == "enum" and x_.name.startswith("CARQUET_PHYSICAL_"):
                            labs.append(x_.name)
                else:
                    labs.append(None)
            leaves(kids[0])
            if not labs or None in labs:
                continue
            val = None
            # only the then-branch proper (an else-if chain hangs off kids[2])
            for x in kids[1].walk():
                if is_assign(x) and x.op == "=" and "size" in src(x.c[0]) and val is None:
                    val = _size_expr(cz, x.c[1])
            if val is not None:
                for l_ in labs:
                    rows.setdefault(l_, val)
        if len(rows) >= 5:
            best = rows
            best.setdefault("default", 0)
    if best is not None or depth > 0:
        return best
    for c in fn.calls():
        for g in P.by_name.get(c.callee or "", []):
            if g.file == fn.file and any("physical_type" in p_["t"] for p_ in g.params):
                t = value_size_table(P, g, depth + 1)
                if t:
                    return t
    # (d) a static helper of the file that takes the column reader and answers through a size out-parameter
    # (`bool helper(const reader *r, size_t *size)`): executed once per enum value with r->type set
    for c in fn.calls():
        for g in P.by_name.get(c.callee or "", []):
            if g.file != fn.file or not g.static or len(g.params) != 2:
                continue
            if "carquet_column_reader" not in g.params[0]["t"] or "size_t *" not in g.params[1]["t"].replace("const ", ""):
                continue
            ro = sem.field_offsets(P, "carquet_column_reader")
            tab = {}
            for name, val in list(P.enum("carquet_physical_type").items()) + [("default", 99)]:
                heap0 = {("rd", ro["type"]): val, ("rd", ro["type_length"]): 7777}
                try:
                    ret, ev, heap = sem.run(P, g, [sem.Ptr("rd", 0, 1), sem.Ptr("out", 0, 8)], heap0=heap0)
                except sem.Inconclusive:
                    return None
                got = heap.get(("out", 0)) if ret not in (0, False) else None
                if isinstance(got, int):
                    tab[name] = "type_length" if got == 7777 else got
            if tab:
                return tab
    return None


def _size_expr(cz, e):
    if e.cv is not None:
        return e.cv
    if "type_length" in src(e):
        return "type_length"
    return show(cz(e))


def run(ctx):
    P = ctx.P
    ctx.clause("C02.1 value-size tables agree")
    ctx.clause("C02.2 cursor fields: who may write, joint movement, page advance")
    ctx.clause("C02.3 skip = read-and-discard")
    ctx.clause("C02.4 one null-bitmap polarity")
    ctx.clause("C02.5 index spaces: projection position, file column, schema element and row group are never mixed")
    from ..rules import indexspace
    nsub, ncls = indexspace.check(ctx, P.funcs_under("src/reader/", "src/metadata/schema.c", "src/writer/"))
    ctx.count("subscripts_of_spaced_arrays", nsub)
    ctx.floor("C02 subscripts with a classified index space", ncls, 38)
    tables = []
    for fname, file_, kind in (("get_value_size", PR, "cursor"), ("carquet_column_read_batch", CR, "cursor"),
                               ("carquet_column_skip", CR, "cursor"), ("get_type_size", BR, "cursor"),
                               ("carquet_read_dictionary_page", PR, "fixed"), ("get_value_size", MS, "fixed")):
        fn = P.fn(fname, file_)
        best = value_size_table(P, fn)
        if best is None:
            raise AnalysisBroken("%s:%s: type->size table not found" % (file_, fname))
        tables.append((fn, kind, best))
    ref_fn, _, ref = tables[0]
    for fn, kind, tab in tables:
        rows = TYPES if kind == "cursor" else FIXED
        for ty in rows:
            want = ref.get(ty, ref.get("default"))
            got = tab.get(ty, tab.get("default"))
            key = "size-table|%s:%s|%s" % (P.rel(fn.file), fn.name, ty)
            if ty == "CARQUET_PHYSICAL_BYTE_ARRAY":
                want = 16 if want in (16,) else want
            ctx.ob("R5.siblings", key, P.where(fn.body),
                   "%s: %s is %s bytes wide (same as %s)" % (fn.name, ty.replace("CARQUET_PHYSICAL_", ""), want, ref_fn.name),
                   got == want, "this table says %s" % (got,))
    ctx.floor("C02 size tables", len(tables), 6)

    # ---- (2) who may write the cursor fields
    nw = 0
    for fn in P.lib_functions():
        if not P.rel(fn.file).startswith("src/"):
            continue
        for n in fn.body.walk():
            tgt = None
            if is_assign(n):
                tgt = n.c[0]
            elif n.k == "UnaryOperator" and n.op in ("++", "--"):
                tgt = n.c[0]
            if tgt is None:
                continue
            t = tgt.strip()
            if t.k == "MemberExpr" and t.get("rec") == "carquet_column_reader" and t.name in CURSOR:
                nw += 1
                ok = whomay.allowed(P, fn, lambda g, fld=t.name: fld in WRITERS.get(g.name, ()))
                ctx.ob("R7.who-may-write", "cursor-writer|%s:%s|%s" % (P.rel(fn.file), fn.name, t.name),
                       P.where(n), "cursor field %s is written only by the page reader and its frozen "
                       "co-writers" % t.name, ok, "written in %s: %s" % (fn.name, src(n)[:80]))
    ctx.floor("C02 cursor field stores", nw, 20)

    rn = P.fn("carquet_read_next_page", PR)
    _page_cursor(ctx, rn)
    ctx.clause("C02.8 what remains of a chunk is never judged by comparing stored (compressed, header-carrying) bytes with uncompressed bytes")
    from ..rules import sizekind
    ctx.count("byte_kind_comparisons", sizekind.check(ctx, P.funcs_under("src/reader/")))
    ctx.clause("C02.9 the reader's remaining-values counter holds a chunk's full 64-bit value count (remaining() / has_next() on a chunk of 2^31 + 1000 values)")
    ctx.floor("C02 remaining-width probes", _remaining_width(ctx), 1)
    ctx.clause("C02.6 the batch reader's projection is the caller's list, in the caller's order, for every width (by index or by name)")
    _projection(ctx)
    ctx.clause("C02.7 a read that spans pages appends every page's values, definition and repetition levels where the previous page stopped")
    _stitching(ctx)
    # set-form update in the batch reader's zero-copy branch
    bn = P.fn("carquet_batch_reader_next", BR)
    bnv = P.inlined(bn, 2)       # the zero-copy arm may live in a static helper: its guard is then the caller's
    sets = [a for a in bnv.body.walk() if is_assign(a) and a.op == "=" and a.c[0].strip().k == "MemberExpr"
            and a.c[0].strip().name == "page_values_read"]
    for a in sets:
        guard_ok = False
        for anc in a.ancestors():
            if anc.k == "IfStmt":
                c = [x for x in anc.c if x is not None][0]
                t = Canon(bnv)(c)
                for s in subtrees(t):
                    if s[0] == "bin" and s[1] == "==" and ("int", 0) in (s[2], s[3]) and \
                            any(isinstance(x, tuple) and x[0] == "member" and x[2] == "page_values_read" for x in (s[2], s[3])):
                        guard_ok = True
                if guard_ok and any(x.k == "BinaryOperator" and x.op == "||" for x in c.walk()):
                    guard_ok = False
        ctx.ob("R9.paired", "whole-page-guard|%s:carquet_batch_reader_next" % BR, P.where(a),
               "handing out a whole page (page_values_read = page_num_values) requires page_values_read == 0",
               guard_ok)
    ctx.floor("C02 whole-page updates", len(sets), 1)

    # ---- (3) skip
    sk = P.fn("carquet_column_skip", CR)
    writes = [n for n in sk.body.walk() if (is_assign(n) or (n.k == "UnaryOperator" and n.op in ("++", "--")))
              and n.c[0].strip().k == "MemberExpr" and n.c[0].strip().get("rec") == "carquet_column_reader"]
    ctx.ob("R7.who-may-write", "skip-pure|%s:carquet_column_skip" % CR, P.where(sk.body),
           "skip changes reader state only through carquet_column_read_batch",
           not writes and len(sk.calls("carquet_column_read_batch")) >= 1)
    # skip counts what read_batch delivered: carquet_column_skip executed with read_batch hooked to a script of
    # deliveries (full chunks, a short delivery, exhaustion, an error): the result is the sum of what was delivered,
    # no request exceeds what is still wanted, and nothing is requested after the script ended the column
    from ..rules import sem as _sem
    ro = _sem.field_offsets(P, "carquet_column_reader")
    phys = P.enum("carquet_physical_type")
    bad = None
    nsk = 0
    what_sk = "skip(n) returns the number of rows its read_batch calls delivered and never asks for more than n minus what it already got"
    try:
        for want, avail, script in ((2500, 5000, [None, None, None]), (2500, 1500, [None, 476, None]), (10, 5000, [None]),
                                    (3000, 5000, [None, 100, -1]), (0, 50, []), (700, 0, []), (2048, 2048, [None, None, None])):
            st = {"left": avail, "calls": [], "got": 0, "i": 0}

            def rb(ev, a, it, st=st, script=script, want=want):
                req = a[2]
                if not isinstance(req, int):
                    raise _sem.Inconclusive("read_batch requested an unknown count")
                plan = script[st["i"]] if st["i"] < len(script) else None
                st["i"] += 1
                if plan is not None and plan < 0:
                    st["calls"].append((req, 0))
                    return plan
                give = min(req, st["left"]) if plan is None else min(plan, req, st["left"])
                st["calls"].append((req, give))
                st["left"] -= give
                st["got"] += give
                it.heap[("rd", ro["values_remaining"])] = st["left"]
                return give

            def reset(st=st, avail=avail):
                st.update({"left": avail, "calls": [], "got": 0, "i": 0})
            heap0 = {("rd", ro["values_remaining"]): avail, ("rd", ro["type"]): phys["CARQUET_PHYSICAL_INT64"], ("rd", ro["type_length"]): 0}
            ret, ev, heap = _sem.run(P, sk, [_sem.Ptr("rd", 0, 1), want], heap0=heap0, single=True, max_forks=8, budget=200000,
                                     on_start=reset, hooks={"carquet_column_read_batch": rb, "malloc": lambda ev, a, it: _sem.Ptr("tmp", 0, 1),
                                                            "free": lambda ev, a, it: None})
            nsk += 1
            if ret != st["got"] and bad is None:
                bad = "skip(%d) on a column with %d rows left (deliveries %s): returns %r, read_batch delivered %d" % (want, avail, script, ret, st["got"])
            run = 0
            for r, g_ in st["calls"]:
                if (r > want - run or r <= 0) and bad is None:
                    bad = "skip(%d): a read_batch call asks for %d rows when %d are still wanted" % (want, r, want - run)
                run += g_
            if want == 0 and st["calls"] and bad is None:
                bad = "skip(0) calls read_batch"
        ctx.ob("R9.paired", "skip-count|%s:carquet_column_skip" % CR, P.where(sk.body), what_sk + " (%d scripted scenarios, abstract execution)" % nsk,
               bad is None, bad or "")
    except (_sem.Inconclusive, KeyError) as ex:
        ctx.inconclusive("R9.paired", "skip-count|%s:carquet_column_skip" % CR, P.where(sk.body), what_sk, "%s: %s" % (type(ex).__name__, ex))
    # ---- (4) null bitmap polarity
    sites = []
    for fn in (bn, P.fn("scalar_build_null_bitmap", "src/simd/dispatch.c"),
               P.fn("carquet_sse_build_null_bitmap", "src/simd/x86/sse_ops.c")):
        for n in fn.body.walk():
            if n.k == "IfStmt":
                kids = [x for x in n.c if x is not None]
                c0 = kids[0].strip()
                if any(x.k == "CompoundAssignOperator" and x.op == "|=" for x in kids[1].walk()) and \
                        "def" in src(kids[0]) and c0.k == "BinaryOperator" and c0.op in ("<", ">", "<=", ">=", "==", "!="):
                    sites.append((fn, n, kids[0]))
    ctx.floor("C02 scalar null-bitmap sites", len(sites), 15)
    for fn, n, cond in sites:
        c = cond.strip()
        # which operand is the per-value level (an element load) and which the column's maximum (a scalar):
        # decided by shape, not by name, so a hoisted group pointer or a renamed bound changes nothing
        def is_elem(x):
            x = x.strip_casts()
            return x.k == "ArraySubscriptExpr" or (x.k == "UnaryOperator" and x.op == "*")
        l_, r_ = c.c[0], c.c[1]
        op = c.op
        if is_elem(r_) and not is_elem(l_):
            l_, r_ = r_, l_
            op = {"<": ">", ">": "<", "<=": ">=", ">=": "<=", "==": "==", "!=": "!="}[op]
        key = "bitmap-polarity|%s:%s" % (P.rel(fn.file), fn.name)
        if not is_elem(l_) or is_elem(r_):
            ctx.inconclusive("R5.siblings", key, P.where(n), "null bit is set iff def_level < max_def_level",
                             "cannot tell the level operand from the maximum in `%s`" % src(cond))
            continue
        ctx.ob("R5.siblings", key, P.where(n),
               "null bit is set iff def_level < max_def_level", op == "<", src(cond))
    # zero-copy branch: calloc'ed bitmap
    # (wherever in the file the bitmap member is set: in next() itself or in a helper it calls)
    zc = [(f_, a) for f_ in P.funcs_in(BR) for a in f_.body.walk()
          if is_assign(a) and a.c[0].strip().k == "MemberExpr" and a.c[0].strip().name == "null_bitmap"]
    okz = bool(zc) and all(a.c[1].strip_casts().k == "CallExpr" and a.c[1].strip_casts().callee == "calloc" or a.c[1].strip_casts().cv == 0
                           for f_, a in zc) and any(a.c[1].strip_casts().k == "CallExpr" for f_, a in zc)
    ctx.ob("R5.siblings", "bitmap-zero|%s:carquet_batch_reader_next" % BR, P.where(bn.body),
           "every null bitmap starts zeroed (calloc): REQUIRED columns report no nulls", okz,
           "; ".join("%s: %s" % (f_.name, src(a)[:60]) for f_, a in zc))


def _names_assigned_from(fn, callee):
    out = []
    for n in fn.body.walk():
        if n.k == "DeclStmt":
            for d, init in zip(n.get("decls", []), n.c):
                if init is not None and any(c.k == "CallExpr" and c.callee == callee for c in init.walk()):
                    out.append(d["n"])
        elif is_assign(n) and any(c.k == "CallExpr" and c.callee == callee for c in n.c[1].walk()):
            out.append(src(n.c[0]))
    return out


def _stitching(ctx):
    """carquet_column_read_batch executed abstractly with the page reader hooked: pages deliver 3, 4 and 2 values
    (or fail), the request is 0..12 values, each of the two level arrays is wanted or not, for every physical type.
    Every call of the page reader must receive the three output positions advanced by what the earlier pages
    delivered, ask for what is still missing, and the call returns the total."""
    from ..rules import sem
    from ..rules.skeleton import Ptr, U
    P = ctx.P
    fn = P.fn("carquet_column_read_batch", "src/reader/column_reader.c")
    key = "stitching|src/reader/column_reader.c:carquet_column_read_batch"
    what = ("a read spanning pages hands the page reader values + done*size, def + done and rep + done (or NULL) and max - done, "
            "and returns the total delivered (abstract execution: page sizes 3,4,2 x requests 0..12 x wanted arrays x types)")
    ro = sem.field_offsets(P, "carquet_column_reader")
    phys = P.enum("carquet_physical_type")
    sizes = {"CARQUET_PHYSICAL_BOOLEAN": 1, "CARQUET_PHYSICAL_INT32": 4, "CARQUET_PHYSICAL_INT64": 8, "CARQUET_PHYSICAL_INT96": 12,
             "CARQUET_PHYSICAL_FLOAT": 4, "CARQUET_PHYSICAL_DOUBLE": 8, "CARQUET_PHYSICAL_FIXED_LEN_BYTE_ARRAY": 5}
    bad = None
    n = 0
    try:
        for tname, vs in sorted(sizes.items()):
            for maxv in (1, 3, 4, 7, 8, 9, 12):
                for wd, wr in ((1, 1), (1, 0), (0, 1), (0, 0)):
                    for failat in (None, 1):
                        n += 1
                        pages = [3, 4, 2]
                        calls = []
                        st = {"i": 0}

                        def next_page(ev, a, it, st=st, calls=calls):
                            i = st["i"]
                            st["i"] += 1
                            calls.append(tuple((x.base, x.off) if isinstance(x, Ptr) else x for x in a[1:5]))
                            if failat is not None and i == failat:
                                return 9
                            k = min(pages[i], a[2]) if i < len(pages) and isinstance(a[2], int) else 0
                            sem.set_out(it, a[5], k)
                            rem = it.heap.get(("rd", ro["values_remaining"]))
                            it.heap[("rd", ro["values_remaining"])] = rem - k if isinstance(rem, int) else U
                            it.heap[("rd", ro["page_loaded"])] = 1
                            return 0
                        heap0 = {("rd", ro["values_remaining"]): 9, ("rd", ro["type"]): phys[tname], ("rd", ro["type_length"]): 5,
                                 ("rd", ro["page_loaded"]): 0}
                        args = [Ptr("rd", 0, 1), Ptr("vals", 0, 1), maxv, Ptr("defs", 0, 2) if wd else 0, Ptr("reps", 0, 2) if wr else 0]
                        ret, ev, heap = sem.run(P, fn, args, heap0=heap0, hooks={"carquet_read_next_page": next_page}, single=True, max_forks=16,
                                                budget=100000, on_start=lambda st=st, calls=calls: (st.__setitem__("i", 0), calls.clear()))
                        done = 0
                        want_calls = []
                        for i, pg in enumerate(pages):
                            if done >= maxv or done >= 9:
                                break
                            want_calls.append((("vals", done * vs), maxv - done, ("defs", done * 2) if wd else 0, ("reps", done * 2) if wr else 0))
                            if failat is not None and i == failat:
                                break
                            done += min(pg, maxv - done)
                        want_ret = done if (done > 0 or failat != 0) else -1
                        sc = "%s, request %d, def %d rep %d%s" % (tname.replace("CARQUET_PHYSICAL_", ""), maxv, wd, wr, ", second page fails" if failat is not None else "")
                        if calls != want_calls or ret != want_ret:
                            bad = bad or "%s: page reader called with %s, returns %s; expected %s, %s" % (sc, calls, ret, want_calls, want_ret)
    except (sem.Inconclusive, KeyError) as ex:
        ctx.inconclusive("R9.paired", key, P.where(fn.body), what, "%s: %s" % (type(ex).__name__, ex))
        return
    ctx.count("stitching_scenarios", n)
    ctx.ob("R9.paired", key, P.where(fn.body), what, bad is None, bad or "")


def _projection(ctx):
    """carquet_batch_reader_create executed abstractly for a 3-column file: projections of 1..4 entries by
    index ({2,0,1,1}) and by name (resolving to 2,0,1,1), and no projection. The allocator, memcpy, the column
    count and the schema lookup are hooked; the projected column list is read off the new object."""
    from ..rules import sem
    from ..rules.skeleton import Ptr, U
    P = ctx.P
    fn = P.fn("carquet_batch_reader_create", BR)
    key = "projection|%s:carquet_batch_reader_create" % BR
    what = ("the projection kept by the batch reader is the caller's list in the caller's order - duplicates and permutations "
            "included - for every width 1..4 on a 3-column file, by index and by name; without a list it is 0..N-1 (abstract execution)")
    co = sem.field_offsets(P, "carquet_batch_reader_config")
    bo = sem.field_offsets(P, "carquet_batch_reader")
    size = P.record("carquet_batch_reader")["size"]
    T = 3
    IDX = [2, 0, 1, 1]
    NAMES = {"name0": 2, "name1": 0, "name2": 1, "name3": 1}
    bad = None
    try:
        for mode in ("index", "name", "all"):
            for k in ((1, 2, 3, 4) if mode != "all" else (0,)):
                heap0 = {("cfg", o): 0 for o in co.values()}
                if mode == "index":
                    heap0[("cfg", co["column_indices"])] = Ptr("idx", 0, 4)
                    heap0[("cfg", co["num_columns"])] = k
                elif mode == "name":
                    heap0[("cfg", co["column_names"])] = Ptr("names", 0, 8)
                    heap0[("cfg", co["num_column_names"])] = k
                for i in range(4):
                    heap0[("names", 8 * i)] = Ptr("name%d" % i, 0, 1)
                    heap0[("idx", 4 * i)] = IDX[i]
                nm = [0]

                def malloc(ev, a, it):
                    nm[0] += 1
                    return Ptr("m%d" % nm[0], 0, 1)

                def calloc(ev, a, it):
                    nm[0] += 1
                    b = "m%d" % nm[0]
                    if isinstance(a[0], int) and isinstance(a[1], int) and a[0] * a[1] <= 4096:
                        for o in range(0, a[0] * a[1], 4):
                            it.heap.setdefault((b, o), 0)
                    return Ptr(b, 0, 1)

                def memcpy(ev, a, it):
                    if isinstance(a[0], Ptr) and isinstance(a[1], Ptr) and isinstance(a[2], int):
                        for o in range(0, a[2], 4):
                            it.heap[(a[0].base, a[0].off + o)] = it.heap.get((a[1].base, a[1].off + o), U)
                    return a[0]
                hooks = {"malloc": malloc, "calloc": calloc, "memcpy": memcpy, "free": lambda ev, a, it: None,
                         "carquet_reader_num_columns": lambda ev, a, it: T, "carquet_error_set": lambda ev, a, it: None,
                         "carquet_reader_schema": lambda ev, a, it: Ptr("schema", 0, 1),
                         "carquet_schema_find_column": lambda ev, a, it: NAMES.get(a[1].base, -1) if isinstance(a[1], Ptr) else U}
                ret, ev, heap = sem.run(P, fn, [Ptr("rd", 0, 1), Ptr("cfg", 0, 1), 0], heap0=heap0, hooks=hooks, single=True,
                                        max_forks=32, budget=200000, on_start=lambda: nm.__setitem__(0, 0))
                want = list(range(T)) if mode == "all" else IDX[:k]
                sc = "no projection" if mode == "all" else "%d columns by %s (%s)" % (k, mode, IDX[:k])
                if not isinstance(ret, Ptr):
                    bad = bad or "%s: returns %s" % (sc, ret)
                    continue
                npj = heap.get((ret.base, bo["num_projected"]))
                pc = heap.get((ret.base, bo["projected_columns"]))
                got = [heap.get((pc.base, pc.off + 4 * i)) for i in range(len(want))] if isinstance(pc, Ptr) and isinstance(pc.off, int) else None
                if npj != len(want) or got != want:
                    bad = bad or "%s: the reader keeps %s column(s) %s, expected %s" % (sc, npj, got, want)
    except (sem.Inconclusive, KeyError) as ex:
        ctx.inconclusive("R9.paired", key, P.where(fn.body), what, "%s: %s" % (type(ex).__name__, ex))
        return
    ctx.ob("R9.paired", key, P.where(fn.body), what, bad is None, bad or "")


def _page_cursor(ctx, rn):
    """carquet_read_next_page, executed abstractly over page states (nothing loaded / partly consumed /
    fully consumed) x request sizes x which level arrays are wanted x a failing page load; the page loader
    dispatcher and memcpy are hooked. What moves, and by how much, is read off the reader object."""
    from ..rules import sem
    P = ctx.P
    P.fn("load_next_page", PR)
    ro = sem.field_offsets(P, "carquet_column_reader")
    phys = P.enum("carquet_physical_type")
    VS = 8
    verd = {"cursor-joint": None, "page-advance": None, "page-advance-guard": None, "copy-window": None, "load-failure": None}
    n = 0
    try:
        for loaded, rd_, num in ((0, 0, 0), (1, 3, 10), (1, 10, 10), (1, 0, 10), (1, 12, 10)):
            for maxv in (1, 4, 7, 100):
                for wd, wr in ((1, 1), (0, 1), (1, 0), (0, 0)):
                    for fail in (0, 1):
                        n += 1
                        heap0 = {("rd", f_["off"] // 8): 0 for f_ in P.record("carquet_column_reader")["fields"]
                                 if f_.get("off") is not None and f_["n"] and "[" not in f_["t"]}
                        heap0.update({("rd", ro["page_loaded"]): loaded, ("rd", ro["page_values_read"]): rd_, ("rd", ro["page_num_values"]): num,
                                      ("rd", ro["page_header_size"]): 33, ("rd", ro["page_compressed_size"]): 444,
                                      ("rd", ro["current_page"]): 5000, ("rd", ro["values_remaining"]): 900,
                                      ("rd", ro["type"]): phys["CARQUET_PHYSICAL_INT64"], ("rd", ro["type_length"]): 0,
                                      ("rd", ro["decoded_values"]): sem.Ptr("dv", 0, 1), ("rd", ro["decoded_def_levels"]): sem.Ptr("ddl", 0, 2),
                                      ("rd", ro["decoded_rep_levels"]): sem.Ptr("drl", 0, 2)})

                        def load(ev, a, it, fail=fail):
                            ev.append(("load", it.heap.get(("rd", ro["current_page"])), it.heap.get(("rd", ro["page_loaded"]))))
                            if fail:
                                return 9
                            it.heap[("rd", ro["page_loaded"])] = 1
                            it.heap[("rd", ro["page_num_values"])] = 20
                            it.heap[("rd", ro["page_values_read"])] = 0
                            it.heap[("rd", ro["page_header_size"])] = 21
                            it.heap[("rd", ro["page_compressed_size"])] = 210
                            return 0
                        hooks = {"load_next_page": load, "carquet_error_set": lambda ev, a, it: None,
                                 "memcpy": lambda ev, a, it: ev.append(("copy", (a[0].base, a[0].off) if isinstance(a[0], sem.Ptr) else a[0],
                                                                        (a[1].base, a[1].off) if isinstance(a[1], sem.Ptr) else a[1], a[2])) or a[0]}
                        args = [sem.Ptr("rd", 0, 1), sem.Ptr("vals", 0, 1), maxv, sem.Ptr("defs", 0, 2) if wd else 0,
                                sem.Ptr("reps", 0, 2) if wr else 0, sem.Ptr("nread", 0, 8), 0]
                        ret, ev, heap = sem.run(P, rn, args, heap0=heap0, hooks=hooks, single=True, max_forks=64)
                        sc = "page %s (%d of %d read), max_values %d, def %d rep %d%s" % (
                            "loaded" if loaded else "not loaded", rd_, num, maxv, wd, wr, ", page load fails" if fail else "")
                        consumed = bool(loaded and rd_ >= num)
                        need_load = (not loaded) or consumed
                        loads = [e for e in ev if e[0] == "load"]
                        if bool(loads) != need_load or len(loads) > 1:
                            verd["page-advance-guard"] = verd["page-advance-guard"] or "%s: %d page load(s)" % (sc, len(loads))
                            continue
                        if need_load:
                            want_pos = 5000 + (33 + 444 if consumed else 0)
                            if loads[0][1] != want_pos or loads[0][2] not in (0, None):
                                verd["page-advance"] = verd["page-advance"] or (
                                    "%s: the next page is loaded at chunk position %s with page_loaded = %s, expected %d / 0"
                                    % (sc, loads[0][1], loads[0][2], want_pos))
                        elif heap.get(("rd", ro["current_page"])) != 5000:
                            verd["page-advance-guard"] = verd["page-advance-guard"] or "%s: current_page moved to %s" % (sc, heap.get(("rd", ro["current_page"])))
                        if need_load and fail:
                            if ret != 9 or [e for e in ev if e[0] == "copy"]:
                                verd["load-failure"] = verd["load-failure"] or "%s: returns %s, copies %s" % (sc, ret, [e for e in ev if e[0] == "copy"])
                            continue
                        r0, n0 = (0, 20) if need_load else (rd_, num)
                        k = min(maxv, n0 - r0)
                        wantc = [("copy", ("vals", 0), ("dv", r0 * VS), k * VS)]
                        if wd:
                            wantc.append(("copy", ("defs", 0), ("ddl", r0 * 2), k * 2))
                        if wr:
                            wantc.append(("copy", ("reps", 0), ("drl", r0 * 2), k * 2))
                        gotc = [e for e in ev if e[0] == "copy"]
                        if ret != 0 or sorted(gotc) != sorted(wantc):
                            verd["copy-window"] = verd["copy-window"] or "%s: returns %s, copies %s, expected %s" % (sc, ret, gotc, wantc)
                        if heap.get(("rd", ro["page_values_read"])) != r0 + k or heap.get(("rd", ro["values_remaining"])) != 900 - k or \
                                heap.get(("nread", 0)) != k:
                            verd["cursor-joint"] = verd["cursor-joint"] or (
                                "%s: page_values_read %s, values_remaining %s, *values_read %s after delivering %d"
                                % (sc, heap.get(("rd", ro["page_values_read"])), heap.get(("rd", ro["values_remaining"])), heap.get(("nread", 0)), k))
        what = {"cursor-joint": "values_remaining decreases by exactly what page_values_read increases, the count reported to the caller",
                "page-advance": "a consumed page is stepped over by page_header_size + page_compressed_size, with page_loaded cleared, before the next one is loaded",
                "page-advance-guard": "the page is stepped over, and a new one loaded, only when none is loaded or the loaded one is fully consumed",
                "copy-window": "min(max_values, values left in the page) values and levels are copied from the page position, scaled by the value size",
                "load-failure": "a failing page load is returned and nothing is copied"}
        for k_, msg in verd.items():
            ctx.ob("R9.paired", "%s|%s:carquet_read_next_page" % (k_, PR), P.where(rn.body),
                   what[k_] + " (%d scenarios, abstract execution)" % n, msg is None, msg or "")
    except (sem.Inconclusive, KeyError) as ex:
        ctx.inconclusive("R9.paired", "page-cursor-trace|%s:carquet_read_next_page" % PR, P.where(rn.body),
                         "abstract execution of carquet_read_next_page", "%s: %s" % (type(ex).__name__, ex))
    ctx.floor("C02 page cursor scenarios", n, 100)


def _remaining_width(ctx):
    """A column chunk may hold 2^31 values or more (NULL entries count). carquet_reader_get_column is executed abstractly on a
    chunk whose metadata says 2^31 + 1000 values; carquet_column_remaining and carquet_column_has_next on the reader it
    returns must say 2^31 + 1000 and true: the counter is what read_batch, skip and has_next are steered by."""
    from ..rules import sem
    from ..rules.skeleton import Ptr
    from . import C17
    P = ctx.P
    N = (1 << 31) + 1000
    FR = "src/reader/file_reader.c"
    fn = P.fn_opt("carquet_reader_get_column", FR)
    rem = P.fn_opt("carquet_column_remaining", FR) or P.fn_opt("carquet_column_remaining", "src/reader/column_reader.c")
    hn = P.fn_opt("carquet_column_has_next", FR) or P.fn_opt("carquet_column_has_next", "src/reader/column_reader.c")
    if fn is None or rem is None or hn is None:
        raise AnalysisBroken("anchor functions carquet_reader_get_column / carquet_column_remaining / carquet_column_has_next not found")
    key = "remaining-width|%s:carquet_reader_get_column" % FR
    what = ("a fresh column reader over a chunk of 2^31 + 1000 values (a repeated leaf, max repetition level 3, in a row group of 5 rows) "
            "reports 2^31 + 1000 remaining and has_next true")
    try:
        fn, ret, heap, cro = C17.column_reader_probe(P, num_values=N, num_rows=5)
        if not isinstance(ret, Ptr):
            raise sem.Inconclusive("carquet_reader_get_column returns %r" % (ret,))
        r, e1, h1 = sem.run(P, rem, [ret], heap0=heap, hooks={}, single=True, max_forks=4, budget=20000)
        h, e2, h2 = sem.run(P, hn, [ret], heap0=heap, hooks={}, single=True, max_forks=4, budget=20000)
        if not isinstance(r, int) or not isinstance(h, int):
            raise sem.Inconclusive("remaining is %r, has_next is %r" % (r, h))
        ok = r == N and bool(h)
        ctx.ob("R5.agree", key, P.where(fn.body), what, ok, "" if ok else "remaining() is %d and has_next() is %s for a chunk of %d values" % (r, "true" if h else "false", N))
        return 1
    except (sem.Inconclusive, KeyError) as ex:
        ctx.inconclusive("R5.agree", key, P.where(fn.body), what, "%s: %s" % (type(ex).__name__, ex))
        return 0
