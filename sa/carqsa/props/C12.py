"""C12 - encoded bytes follow the Parquet encoding specifications (clauses that can be stated over opaque bytes)."""
from ..extract import AnalysisBroken

EXPLANATION = (
    "Static decision of specification-level clauses of C12 on src/core/bitpack.c, src/encoding/rle.c, src/encoding/delta.c and "
    "src/encoding/byte_stream_split.c. (1) Bit order of raw bit packing: carquet_bitunpack8_32 and carquet_bitpack8_32 are "
    "executed abstractly for every width 1..32 with opaque input; each output is a term over the input, evaluated on the bit basis "
    "(every input bit set alone), on all-zero, all-one and fixed patterns: value i bit k must be exactly stream bit i*w + k (values "
    "back to back, least significant bit first, bytes in address order), w bytes are read resp. written and nothing else. For terms "
    "built from shifts, constant masks, OR and casts only, the basis determines the function. (2) The RLE/bit-packing hybrid decoder "
    "on streams written from the specification, including forms carquet's encoder never emits - several groups in one bit-packed run, "
    "zero-length RLE and bit-packed runs (an empty RLE run still carries its repeated value), a final group padded beyond the wanted "
    "count, runs longer than wanted, mixes of both kinds, widths 1..32 and 0 - with run headers and RLE values concrete and packed "
    "payload opaque: every decoded value is the one the specification names (payload offset, lane) or the run's value, and the count "
    "returned is the specification's. (3) The hybrid encoder on sequences covering the equality patterns of run detection (run lengths "
    "1, 7, 8, 9, 15, 16, 17, 24 between literal stretches, widths 1, 2, 3, 8): the bytes appended, read by the specification's decoder, "
    "are the sequence. (4) BYTE_STREAM_SPLIT: stream byte k*count + i is byte k of value i, both directions, widths 1..16, decided by "
    "provenance of opaque bytes. (6) DELTA_BINARY_PACKED streams written from the specification with constant deltas (all used mini-block widths 0, so the values are determined by the headers): values first + k * min_delta, exactly the header bytes consumed, width bytes of the mini-blocks the last block does not use ignored whatever they hold; the streaming decoder (get / get_batch in pieces) returns multi-group streams in stream order for every cutting of the requests. (5) The run headers and DELTA headers are LEB128 on both sides for every value on either side of a "
    "7-bit boundary (R38). (7) DELTA_BINARY_PACKED contents on concrete sequences chosen per mini-block width class (0, 1, odd widths, "
    "8, 17, 24, 31, 32 and for INT64 33, 40, 47, 58, 63, 64; narrow and wide mini-blocks in one block; partly filled blocks; negative min deltas; "
    "differences that wrap around the type): the encoders' bytes are read by a decoder written from the specification (every width bit-packed "
    "LSB-first, mini_block_size * width / 8 bytes, no mini-block wider than the type, exactly the reported length), and the decoders are run on "
    "streams from an encoder written from the specification, also with wider-than-needed widths and junk in unused width bytes. "
    "(8) DELTA_LENGTH_BYTE_ARRAY and DELTA_BYTE_ARRAY framing with the inner DELTA coder hooked: the decoders' value i is, byte by byte (provenance of opaque "
    "input bytes), what the specification names - the lengths[i] bytes after the lengths block(s) at the sum of the earlier lengths, preceded for DELTA_BYTE_ARRAY by "
    "the first prefix[i] bytes of value i-1 - and everything is reported consumed; the encoders hand the lengths (prefix, then suffix) to the DELTA encoder and append "
    "the block(s) and then the (suffix) bytes in order, judged by reading the result back as the specification does (any prefix length up to the common prefix is accepted). "
    "(9) PLAIN on concrete values with pairwise different bytes: every encoder's appended bytes (through the real carquet_buffer code) and every decoder's values "
    "and returned byte count, directly and through the carquet_decode_plain type switch, against the specification's layout (booleans with set padding bits). "
    "Decides these clauses on these grids; it does not decide stream forms outside the grids (block geometries other than 128 / 4, 64 / 2 and 32 / 1 - larger ones carquet refuses with an error).")

BP = "src/core/bitpack.c"
RL = "src/encoding/rle.c"


def run(ctx):
    P = ctx.P
    from ..rules import encspec, varint
    ctx.clause("C12.1 raw bit packing is LSB-first: unpack and pack wire value i bit k to stream bit i*w + k for every width (terms on the bit basis)")
    nu = encspec.check_unpack(ctx)
    npk = encspec.check_pack(ctx)
    ctx.floor("C12 widths decided for the group unpacker", nu, 32)
    ctx.floor("C12 widths decided for the group packer", npk, 32)
    ctx.clause("C12.2 the hybrid decoder reads specification-written streams, including multi-group, zero-length, padded and over-long runs, as the specification does")
    nd = encspec.check_hybrid_decoder(ctx)
    ctx.floor("C12 specification streams through the hybrid decoder", nd, 100)
    ctx.count("level_decoder_streams", encspec.check_levels_decoder(ctx))
    nsd = encspec.check_streaming_decoder(ctx)
    ctx.floor("C12 request sequences through the streaming decoder", nsd, 50)
    ctx.clause("C12.6 DELTA_BINARY_PACKED headers: streams with constant deltas decode to first + k * min_delta, consume exactly their header bytes, and the width bytes of unused mini-blocks are ignored")
    ndh = encspec.check_delta_headers(ctx)
    ctx.floor("C12 constant-delta streams", ndh, 200)
    ctx.clause("C12.7 DELTA_BINARY_PACKED contents: what the encoders write is read back by the specification's decoder, and the decoders return the values of "
               "specification-written streams, for every mini-block width class of the type (bit-packed at every width, differences wrapping in the type's width)")
    nde = encspec.check_delta_encoder(ctx)
    ndd = encspec.check_delta_decoder(ctx)
    ctx.floor("C12 sequences through the DELTA encoders", nde, 60)
    ctx.floor("C12 specification streams through the DELTA decoders", ndd, 150)
    ctx.clause("C12.8 DELTA_LENGTH_BYTE_ARRAY and DELTA_BYTE_ARRAY framing: lengths block(s) first, then the bytes back to back; value i of DELTA_BYTE_ARRAY is "
               "the first prefix[i] bytes of value i-1 followed by suffix i (inner DELTA coder hooked, bytes by provenance)")
    ndl = encspec.check_delta_length(ctx)
    nds = encspec.check_delta_strings(ctx)
    ctx.floor("C12 DELTA_LENGTH_BYTE_ARRAY cases", ndl, 20)
    ctx.floor("C12 DELTA_BYTE_ARRAY cases", nds, 15)
    ctx.clause("C12.9 PLAIN: little-endian fixed-width values back to back, booleans one bit each LSB-first, BYTE_ARRAY as 4-byte length plus bytes, "
               "FIXED_LEN_BYTE_ARRAY as the bytes alone - encoders through the real buffer code, decoders directly and through carquet_decode_plain")
    npl = encspec.check_plain(ctx)
    ctx.floor("C12 PLAIN cases", npl, 60)
    ctx.clause("C12.3 what the hybrid encoder appends is read back by the specification's decoder as the sequence it was given (equality patterns of run detection)")
    ne = encspec.check_hybrid_encoder(ctx)
    ctx.floor("C12 sequences through the hybrid encoder", ne, 60)
    ctx.clause("C12.4 BYTE_STREAM_SPLIT is the byte transpose of the specification, both directions")
    nb = encspec.check_bss(ctx)
    ctx.floor("C12 byte-stream-split cases", nb, 50)
    ctx.clause("C12.5 run headers and DELTA headers are LEB128 on both sides")
    nvw, nvr = varint.check(ctx, files=("src/encoding/rle.c", "src/encoding/delta.c", "src/core/endian.h"))
    ctx.floor("C12 varint writers and readers", nvw + nvr, 6)
