"""C12 - encoded bytes follow the Parquet encoding specifications (clauses that can be stated over opaque bytes)."""
from ..extract import AnalysisBroken

EXPLANATION = (
    "Static decision of specification-level clauses of C12 on src/core/bitpack.c, src/encoding/rle.c, src/encoding/delta.c and "
    "src/encoding/byte_stream_split.c. (1) Bit order of raw bit packing: carquet_bitunpack8_32 and carquet_bitpack8_32 are "
    "executed abstractly for every width 1..32 with opaque input; each output is a term over the input, evaluated on the bit basis "
    "(every input bit set alone), on all-zero, all-one and fixed patterns: value i bit k must be exactly stream bit i*w + k (values "
    "back to back, least significant bit first, bytes in address order), w bytes are read resp. written and nothing else. For terms "
    "built from shifts, constant masks, OR and casts only, the basis determines the function. (2) The RLE/bit-packing hybrid decoder "
    "on streams written from the specification, including forms carquet's encoder never emits - several groups in one bit-packed run, "
    "zero-length RLE and bit-packed runs (an empty RLE run still carries its repeated value), a final group padded beyond the wanted "
    "count, runs longer than wanted, mixes of both kinds, widths 1..32 and 0 - with run headers and RLE values concrete and packed "
    "payload opaque: every decoded value is the one the specification names (payload offset, lane) or the run's value, and the count "
    "returned is the specification's. (3) The hybrid encoder on sequences covering the equality patterns of run detection (run lengths "
    "1, 7, 8, 9, 15, 16, 17, 24 between literal stretches, widths 1, 2, 3, 8): the bytes appended, read by the specification's decoder, "
    "are the sequence. (4) BYTE_STREAM_SPLIT: stream byte k*count + i is byte k of value i, both directions, widths 1..16, decided by "
    "provenance of opaque bytes. (6) DELTA_BINARY_PACKED streams written from the specification with constant deltas (all used mini-block widths 0, so the values are determined by the headers): values first + k * min_delta, exactly the header bytes consumed, width bytes of the mini-blocks the last block does not use ignored whatever they hold; the streaming decoder (get / get_batch in pieces) returns multi-group streams in stream order for every cutting of the requests. (5) The run headers and DELTA headers are LEB128 on both sides for every value on either side of a "
    "7-bit boundary (R38). Decides these clauses; it does not decide DELTA_BINARY_PACKED / DELTA_LENGTH / DELTA_BYTE_ARRAY block "
    "contents (min-delta arithmetic, mini-block widths, wide-delta byte layout), PLAIN value layouts beyond the extents of C11.2, nor "
    "the hybrid forms outside the grid.")

BP = "src/core/bitpack.c"
RL = "src/encoding/rle.c"


def run(ctx):
    P = ctx.P
    from ..rules import encspec, varint
    ctx.clause("C12.1 raw bit packing is LSB-first: unpack and pack wire value i bit k to stream bit i*w + k for every width (terms on the bit basis)")
    nu = encspec.check_unpack(ctx)
    npk = encspec.check_pack(ctx)
    ctx.floor("C12 widths decided for the group unpacker", nu, 32)
    ctx.floor("C12 widths decided for the group packer", npk, 32)
    ctx.clause("C12.2 the hybrid decoder reads specification-written streams, including multi-group, zero-length, padded and over-long runs, as the specification does")
    nd = encspec.check_hybrid_decoder(ctx)
    ctx.floor("C12 specification streams through the hybrid decoder", nd, 100)
    ctx.count("level_decoder_streams", encspec.check_levels_decoder(ctx))
    nsd = encspec.check_streaming_decoder(ctx)
    ctx.floor("C12 request sequences through the streaming decoder", nsd, 50)
    ctx.clause("C12.6 DELTA_BINARY_PACKED headers: streams with constant deltas decode to first + k * min_delta, consume exactly their header bytes, and the width bytes of unused mini-blocks are ignored")
    ndh = encspec.check_delta_headers(ctx)
    ctx.floor("C12 constant-delta streams", ndh, 200)
    ctx.clause("C12.3 what the hybrid encoder appends is read back by the specification's decoder as the sequence it was given (equality patterns of run detection)")
    ne = encspec.check_hybrid_encoder(ctx)
    ctx.floor("C12 sequences through the hybrid encoder", ne, 60)
    ctx.clause("C12.4 BYTE_STREAM_SPLIT is the byte transpose of the specification, both directions")
    nb = encspec.check_bss(ctx)
    ctx.floor("C12 byte-stream-split cases", nb, 50)
    ctx.clause("C12.5 run headers and DELTA headers are LEB128 on both sides")
    nvw, nvr = varint.check(ctx, files=("src/encoding/rle.c", "src/encoding/delta.c", "src/core/endian.h"))
    ctx.floor("C12 varint writers and readers", nvw + nvr, 6)
