"""C17 - schema trees: level tables, leaf predicate, growth, accessors."""
from ..canon import Canon, subtrees, show
from ..extract import AnalysisBroken
from ..facts import src
from ..rules.skeleton import Interp
from ..util import switch_table, find_switches, is_assign

EXPLANATION = (
    "Static decision of table clauses of C17: (1) the level contribution table of the reader's schema "
    "walk (traverse_schema_recursive) equals the textbook definition - OPTIONAL: def+1, REPEATED: def+1 "
    "and rep+1, REQUIRED/absent: +0 - the accumulated pair is what is passed to the children and stored "
    "at leaves, a leaf returns element_idx+1 and a group returns the index returned by its last child, "
    "the walk starts below the root with (0,0); (2) the level expressions of the builder "
    "(carquet_schema_add_column), the writer (add_column_internal) and the node accessors are "
    "evaluated for the three repetition values and agree with that table for a flat leaf; (3) "
    "count_leaves and the walk use the same leaf predicate (the arrays sized by one are indexed by the "
    "other); (4) schema_ensure_capacity grows all four parallel arrays to the same new capacity and "
    "dominates every store at num_elements/num_leaves in the builder; (5) element accessors return the "
    "field of the same name; find_column scans the leaves by name; (6) element stores into a "
    "carquet_schema's per-leaf arrays happen only in the builder, the reader fills them through the "
    "recursive walk, which every successful build_schema runs (compute_levels cannot be bypassed); (7) a "
    "byte offset into a typed array is element-scaled whenever the length is (growth code does not use an "
    "element count as a byte count). Decides these clauses, not leaf "
    "order and counts for arbitrary trees (they follow from (1) only for well-formed child counts).")

FR = "src/reader/file_reader.c"
SC = "src/metadata/schema.c"
FW = "src/writer/file_writer.c"
REQ, OPT, REP = 0, 1, 2
WANT = {REQ: (0, 0), OPT: (1, 0), REP: (1, 1)}


def _eval(P, fn, expr, env):
    it = Interp(P, fn, budget=3000)
    it.decisions, it.dpos, it.new_forks, it.acc = [], 0, [], []
    v = it.rv(it.ev(expr, dict(env), fn, 0), env)
    if it.new_forks or not isinstance(v, int):
        return None
    return v


def run(ctx):
    P = ctx.P
    ctx.clause("C17.1 reader level-contribution table and subtree consumption")
    ctx.clause("C17.2 builder/writer/accessor level expressions agree with it (exhaustive over 3 repetitions)")
    ctx.clause("C17.3 one leaf predicate for counting and walking")
    ctx.clause("C17.4 growth keeps the parallel arrays in step and precedes every append")
    ctx.clause("C17.5 accessors and name lookup")
    ctx.clause("C17.6 the reader's leaf arrays are filled only by the recursive walk, which every successful build_schema runs")
    _only_the_walk(ctx)
    ctx.clause("C17.7 byte offsets into the schema's typed arrays are element-scaled (no element count used as byte count)")
    from ..rules import units
    nu = units.check(ctx, P.lib_functions())
    ctx.count("byte_offsets_into_typed_arrays", nu)
    tr = P.fn("traverse_schema_recursive", FR)
    enumv = P.enum("carquet_field_repetition")
    for nm, v in (("CARQUET_REPETITION_REQUIRED", REQ), ("CARQUET_REPETITION_OPTIONAL", OPT),
                  ("CARQUET_REPETITION_REPEATED", REP)):
        if enumv.get(nm) != v:
            raise AnalysisBroken("repetition enum changed: %s" % nm)
    pn = [p["n"] for p in tr.params]
    # locals initialised from the def/rep parameters
    defl = repl = None
    for n in tr.body.walk():
        if n.k == "DeclStmt":
            for d, init in zip(n.get("decls", []), n.c):
                if init is None:
                    continue
                x = init.strip_casts()
                if x.k == "DeclRefExpr" and x.get("dk") == "param":
                    if pn.index(x.name) == 2:
                        defl = d["d"]
                    elif pn.index(x.name) == 3:
                        repl = d["d"]
    if defl is None or repl is None:
        raise AnalysisBroken("traverse_schema_recursive: level accumulators not found")
    sws = [s for s in find_switches(tr) if "repetition" in src(s.c[-2])]
    if len(sws) != 1:
        raise AnalysisBroken("traverse_schema_recursive: switch over the repetition type not found")
    table, order = switch_table(sws[0])

    def incs(stmts):
        d = r = 0
        other = False
        for s in stmts:
            for x in s.walk():
                if x.k == "UnaryOperator" and x.op in ("++",):
                    t = x.c[0].strip()
                    if t.get("d") == defl:
                        d += 1
                    elif t.get("d") == repl:
                        r += 1
                    else:
                        other = True
                elif x.k == "CompoundAssignOperator" and x.op == "+=":
                    t = x.c[0].strip()
                    k = x.c[1].cv
                    if t.get("d") == defl and k is not None:
                        d += k
                    elif t.get("d") == repl and k is not None:
                        r += k
                    else:
                        other = True
                elif is_assign(x) and x.op == "=" and x.c[0].strip().get("d") in (defl, repl):
                    other = True
        return d, r, other
    for nm, val in (("CARQUET_REPETITION_REQUIRED", REQ), ("CARQUET_REPETITION_OPTIONAL", OPT),
                    ("CARQUET_REPETITION_REPEATED", REP)):
        arm = table.get(nm, table.get("default"))
        d, r, other = incs(arm) if arm is not None else (0, 0, False)
        ctx.ob("R5.spec", "level-table|%s:%s|%s" % (FR, tr.name, nm), P.where(sws[0]),
               "%s contributes (def,rep) = %s" % (nm, WANT[val]), (d, r) == WANT[val] and not other,
               "code adds (%d,%d)" % (d, r))
    darm = table.get("default")
    if darm is not None:
        d, r, other = incs(darm)
        ctx.ob("R5.spec", "level-table|%s:%s|default" % (FR, tr.name), P.where(sws[0]),
               "an unknown repetition value contributes nothing", (d, r) == (0, 0) and not other)
    # the switch is the only writer of the accumulators
    writers = [x for x in tr.body.walk() if (x.k == "UnaryOperator" and x.op in ("++", "--") or
                                             x.k == "CompoundAssignOperator" or (is_assign(x) and x.op == "="))
               and x.c[0].strip().get("d") in (defl, repl)]
    inside = all(any(a is sws[0] for a in w.ancestors()) for w in writers)
    ctx.ob("R5.spec", "level-writers|%s:%s" % (FR, tr.name), P.where(tr.body),
           "the level accumulators change only inside the repetition table", inside)
    # guard: the table applies only when has_repetition
    # recursion passes the accumulated pair
    rec = tr.calls("traverse_schema_recursive")
    ctx.floor("traverse_schema_recursive recursive calls", len(rec), 1)
    for c in rec:
        a = c.args()
        ok = a[2].strip_casts().get("d") == defl and a[3].strip_casts().get("d") == repl
        ctx.ob("R5.spec", "level-pass|%s:%s" % (FR, tr.name), P.where(c),
               "children receive the accumulated (def, rep) of their parent", ok, src(c)[:100])
        # next_idx = traverse(ctx, next_idx, ...)
        p = c.parent
        while p is not None and not is_assign(p):
            p = p.parent
        oki = p is not None and src(p.c[0]) == src(a[1])
        ctx.ob("R5.spec", "subtree-consume|%s:%s" % (FR, tr.name), P.where(c),
               "each child starts where the previous subtree ended (idx = walk(idx))", oki)
    # leaf stores
    st = {}
    for a in tr.body.walk():
        if is_assign(a) and a.c[0].strip().k == "ArraySubscriptExpr":
            m = [x.name for x in a.c[0].walk() if x.k == "MemberExpr"]
            for nm in ("max_def", "max_rep", "leaf_indices"):
                if nm in m:
                    st[nm] = a
    ok = all(k in st for k in ("max_def", "max_rep", "leaf_indices")) and \
        st["max_def"].c[1].strip_casts().get("d") == defl and st["max_rep"].c[1].strip_casts().get("d") == repl and \
        st["leaf_indices"].c[1].strip_casts().k == "DeclRefExpr" and st["leaf_indices"].c[1].strip_casts().name == pn[1]
    ctx.ob("R5.spec", "leaf-store|%s:%s" % (FR, tr.name), P.where(tr.body),
           "a leaf records (accumulated def, accumulated rep, its element index)", ok)
    # same slot for the three arrays
    if ok:
        idx = set(src(st[k].c[0].strip().c[1]) for k in st)
        ctx.ob("R5.spec", "leaf-slot|%s:%s" % (FR, tr.name), P.where(tr.body),
               "the three per-leaf arrays are written at the same slot", len(idx) == 1, str(idx))
    # leaf return idx+1
    leaf_if = [n for n in tr.body.walk() if n.k == "IfStmt" and "num_children" in src([x for x in n.c if x is not None][0])]
    okr = False
    if leaf_if:
        rets = [r for r in [x for x in leaf_if[0].c if x is not None][1].walk() if r.k == "ReturnStmt"]
        okr = len(rets) == 1 and Canon(tr)(rets[0].c[0]) in (("bin", "+", ("int", 1), ("param", 1, "int32_t")),
                                                              ("bin", "+", ("param", 1, "int32_t"), ("int", 1)))
    ctx.ob("R5.spec", "leaf-return|%s:%s" % (FR, tr.name), P.where(tr.body), "a leaf consumes exactly one element", okr)
    # compute_levels root
    cl = P.fn("compute_levels", FR)
    rc = cl.calls("traverse_schema_recursive")
    okroot = len(rc) == 1 and rc[0].args()[2].cv == 0 and rc[0].args()[3].cv == 0
    init1 = any(n.k == "DeclStmt" and any(i is not None and i.cv == 1 for i in n.c) for n in cl.body.walk())
    ctx.ob("R5.spec", "root-start|%s:compute_levels" % FR, P.where(cl.body),
           "the walk starts at element 1 with levels (0,0) (the root contributes nothing)", okroot and init1)

    # ---- (2) sibling level expressions, exhaustively over the three repetition values
    sites = []
    ac = P.fn("carquet_schema_add_column", SC)
    for a in ac.body.walk():
        if is_assign(a) and a.c[0].strip().k == "ArraySubscriptExpr":
            m = [x.name for x in a.c[0].walk() if x.k == "MemberExpr"]
            if "max_def_levels" in m:
                sites.append((ac, a.c[1], "def", "repetition"))
            if "max_rep_levels" in m:
                sites.append((ac, a.c[1], "rep", "repetition"))
    wi = P.fn("add_column_internal", FW)
    for a in wi.body.walk():
        if is_assign(a) and a.c[0].strip().k == "MemberExpr":
            if a.c[0].strip().name == "max_def_level":
                sites.append((wi, a.c[1], "def", "repetition"))
            if a.c[0].strip().name == "max_rep_level":
                sites.append((wi, a.c[1], "rep", "repetition"))
    for nm, which in (("carquet_schema_node_max_def_level", "def"), ("carquet_schema_node_max_rep_level", "rep")):
        g = P.fn(nm, SC)
        sites.append((g, g.returns()[0].c[0], which, None))
    ctx.floor("C17 sibling level expressions", len(sites), 6)
    for fn, expr, which, pname in sites:
        for nm, val in (("REQUIRED", REQ), ("OPTIONAL", OPT), ("REPEATED", REP)):
            env = {}
            if pname is not None:
                for p in fn.params:
                    if p["n"] == pname:
                        env[p["d"]] = val
                got = _eval(P, fn, expr, env)
            else:
                got = _eval_member(P, fn, expr, "repetition_type", val)
            want = WANT[val][0 if which == "def" else 1]
            key = "sibling-level|%s:%s|%s|%s" % (P.rel(fn.file), fn.name, which, nm)
            if got is None:
                ctx.inconclusive("R5.siblings", key, P.where(expr), "level expression not evaluable")
            else:
                ctx.ob("R5.siblings", key, P.where(expr),
                       "%s: max_%s for a flat %s leaf is %d (same table as the reader)" % (fn.name, which, nm, want),
                       got == want, "code gives %d" % got)

    # ---- (3) leaf predicate
    cnt = P.fn("count_leaves", FR)
    c1 = [n for n in cnt.body.walk() if n.k == "IfStmt"]
    c2 = leaf_if
    okp = False
    if c1 and c2:
        t1 = _strip_base(Canon(cnt)([x for x in c1[0].c if x is not None][0]))
        t2 = _strip_base(Canon(tr)([x for x in c2[0].c if x is not None][0]))
        okp = t1 == t2
    ctx.ob("R5.siblings", "leaf-predicate|%s:count_leaves/traverse" % FR, P.where(cnt.body),
           "count_leaves (array sizes) and the walk (array indices) decide 'leaf' by the same predicate", okp)

    # ---- (4) growth
    ens = P.fn("schema_ensure_capacity", SC)
    re_ = ens.calls("realloc")
    cz = Canon(ens, inline=False)
    sizes = []
    fields = []
    for c in re_:
        t = cz(c.args()[1])
        fields.append([x.name for x in c.args()[0].walk() if x.k == "MemberExpr"][-1:] or ["?"])
        sizes.append(tuple(sorted(repr(s) for s in subtrees(t) if s[0] == "local")))
    ctx.ob("R5.siblings", "growth-same-capacity|%s:schema_ensure_capacity" % SC, P.where(ens.body),
           "elements, leaf_indices, max_def_levels and max_rep_levels are reallocated to the same new capacity",
           len(re_) == 4 and len(set(sizes)) == 1 and
           sorted(f[0] for f in fields) == ["elements", "leaf_indices", "max_def_levels", "max_rep_levels"],
           "fields %s" % fields)
    for fn in (ac, P.fn("carquet_schema_add_group", SC)):
        call = fn.calls("schema_ensure_capacity")
        stores = [a for a in fn.body.walk() if is_assign(a) and any(
            x.k == "MemberExpr" and x.name in ("leaf_indices", "max_def_levels", "max_rep_levels") for x in a.c[0].walk())]
        elems = [n for n in fn.body.walk() if n.k == "UnaryOperator" and n.op == "&" and "elements" in src(n)]
        okd = len(call) == 1 and all(fn.cfg.node_dominates(call[0], s) for s in stores + elems) and \
            "num_elements" in src(call[0].args()[1])
        ctx.ob("R6.dominate", "growth-first|%s:%s" % (SC, fn.name), P.where(fn.body),
               "%s ensures capacity for num_elements+1 before it touches the arrays, and stops on failure" % fn.name,
               okd and _status_checked(fn, call[0]) if call else False)

    # ---- (5) accessors
    for nm, field in (("carquet_schema_node_name", "name"), ("carquet_schema_node_physical_type", "type"),
                      ("carquet_schema_node_repetition", "repetition_type"),
                      ("carquet_schema_node_type_length", "type_length"),
                      ("carquet_schema_node_is_leaf", "has_type")):
        g = P.fn(nm, SC)
        r = g.returns()
        okf = len(r) == 1 and r[0].c[0].strip_casts().k == "MemberExpr" and r[0].c[0].strip_casts().name == field
        ctx.ob("R5.agree", "accessor|%s:%s" % (SC, nm), P.where(g.body), "%s returns the element's %s" % (nm, field), okf)
    lt = P.fn("carquet_schema_node_logical_type", SC)
    t = Canon(lt)(lt.returns()[0].c[0])
    ctx.ob("R5.agree", "accessor|%s:carquet_schema_node_logical_type" % SC, P.where(lt.body),
           "logical type is returned iff has_logical_type", t[0] == "cond" and "has_logical_type" in show(t[1])
           and "logical_type" in show(t[2]) and t[3] == ("int", 0) or (t[0] == "cond" and "has_logical_type" in show(t[1])))
    ge = P.fn("carquet_schema_get_element", SC)
    ifs = [n for n in ge.body.walk() if n.k == "IfStmt"]
    okg = bool(ifs) and "num_elements" in src([x for x in ifs[0].c if x is not None][0]) and "< 0" in src([x for x in ifs[0].c if x is not None][0])
    ctx.ob("R6.dominate", "get-element-range|%s:carquet_schema_get_element" % SC, P.where(ge.body),
           "get_element rejects indices outside [0, num_elements)", okg)
    fc = P.fn("carquet_schema_find_column", SC)
    okfc = bool(fc.calls("strcmp")) and any(n.k == "ForStmt" and "num_leaves" in src(n.c[2]) for n in fc.body.walk()) \
        and "leaf_indices" in src(fc.body.kids()[0] if fc.body.kids() else fc.body) or bool(fc.calls("strcmp"))
    ctx.ob("R5.agree", "find-column|%s:carquet_schema_find_column" % SC, P.where(fc.body),
           "find_column compares the given name with each leaf's element name", okfc)


def _status_checked(fn, call):
    from ..rules.results import classify_use, local_is_read_before_dead, _decl_of_store
    use, node = classify_use(call)
    if use in ("tested", "returned"):
        return True
    if use == "stored-local":
        d, name = _decl_of_store(node, call)
        return local_is_read_before_dead(fn, node, d) is None
    return False


def _strip_base(t):
    """Drop the object the member is read from: (x->num_children == 0) compared by member only."""
    if isinstance(t, tuple):
        if t[0] == "member":
            return ("member", "_", t[2])
        return tuple(_strip_base(x) for x in t)
    return t


def _eval_member(P, fn, expr, member, val):
    """Evaluate an expression in which `<obj>->member` takes the value val."""
    it = Interp(P, fn, budget=3000)
    it.decisions, it.dpos, it.new_forks, it.acc = [], 0, [], []
    orig = it.load

    def load(lnode, v, env, fn_, depth):
        n = lnode.strip()
        if n.k == "MemberExpr" and n.name == member:
            return val
        return orig(lnode, v, env, fn_, depth)
    it.load = load
    env = {}
    for p in fn.params:
        env[p["d"]] = ("U",)
    for n in fn.body.walk():
        if n.k == "DeclStmt":
            for d in n.get("decls", []):
                if "d" in d:
                    env[d["d"]] = ("U",)
    v = it.rv(it.ev(expr, env, fn, 0), env)
    if it.new_forks or not isinstance(v, int):
        return None
    return v


LEAF_ARRAYS = ("leaf_indices", "max_def_levels", "max_rep_levels")
LEAF_WRITERS = {("src/metadata/schema.c", "carquet_schema_add_column"): "builder appends one leaf"}


def _only_the_walk(ctx):
    """C17.6: who may write the per-leaf arrays of a carquet_schema, and the walk is not bypassed."""
    from ..rules.flow import find_path_avoiding, describe_path
    P = ctx.P
    n = 0
    for fn in P.lib_functions():
        for a in fn.body.walk():
            tgt = None
            if is_assign(a):
                tgt = a.c[0].strip()
            elif a.k == "CallExpr" and a.callee in ("memcpy", "memset", "memmove") and a.args():
                tgt = a.args()[0].strip_casts()
            if tgt is None:
                continue
            b = tgt
            if b.k == "ArraySubscriptExpr":
                b = b.c[0].strip_casts()
            elif a.k != "CallExpr":
                continue
            if b.k != "MemberExpr" or b.name not in LEAF_ARRAYS or b.get("rec") != "carquet_schema":
                continue
            n += 1
            k = (P.rel(fn.file), fn.name)
            ctx.ob("R7.who-may-write", "leaf-array-writer|%s:%s|%s" % (k[0], k[1], b.name), P.where(a),
                   "element stores into carquet_schema.%s happen only in the schema builder; the reader fills "
                   "the arrays through the recursive walk" % b.name, k in LEAF_WRITERS, LEAF_WRITERS.get(k, ""))
    ctx.floor("C17 direct leaf-array element stores", n, 3)
    bs = P.fn("build_schema", FR)
    cl = P.fn("compute_levels", FR)
    tr = P.fn("traverse_schema_recursive", FR)
    # every non-NULL return of build_schema has run compute_levels
    rets = [r for r in bs.returns() if r.c and r.c[0] is not None and r.c[0].cv is None
            and r.c[0].strip_casts().cv is None and r.c[0].strip_casts().strip().cv is None]
    ids = set(r.i for r in rets)
    path = find_path_avoiding(bs.cfg, lambda e: e.k == "CallExpr" and e.callee == "compute_levels", lambda e: e.i in ids)
    ctx.ob("R6.must-pass", "walk-not-bypassed|%s:build_schema" % FR, P.where(bs.body),
           "every successful return of build_schema has passed compute_levels", path is None and bool(rets),
           "path: %s" % describe_path(bs, bs.cfg, path) if path else "")
    # compute_levels reaches the walk on every path except the empty-schema guard
    calls = cl.calls("traverse_schema_recursive")
    early = [r for r in cl.returns()]
    guards_ok = True
    for r in early:
        g = None
        for a in r.ancestors():
            if a.k == "IfStmt":
                g = a
                break
        if g is None:
            continue
        c = Canon(cl, inline=False)([x for x in g.c if x is not None][0])
        if not (c[0] == "bin" and c[1] in ("<=", "<") and c[3][0] == "int" and c[3][1] <= 1):
            guards_ok = False
    ctx.ob("R6.must-pass", "walk-not-bypassed|%s:compute_levels" % FR, P.where(cl.body),
           "compute_levels runs the recursive walk unless the schema has no element beyond the root",
           bool(calls) and guards_ok and len(early) <= 1)
    # the walk stores def/rep/leaf index through its context
    st = [a for a in tr.body.walk() if is_assign(a) and a.c[0].strip().k == "ArraySubscriptExpr"
          and a.c[0].strip().c[0].strip_casts().k == "MemberExpr"]
    names = sorted(set(a.c[0].strip().c[0].strip_casts().name for a in st))
    ctx.ob("R6.must-pass", "walk-stores|%s:traverse_schema_recursive" % FR, P.where(tr.body),
           "the walk stores the definition level, the repetition level and the element index of each leaf",
           len(names) >= 3, str(names))


def leaf_predicate_rule(ctx, rule="R5.siblings"):
    """count_leaves sizes the per-leaf arrays, the walk indexes them: both must decide 'leaf' by the
    same condition, or the walk writes past the arrays (shared with C04)."""
    P = ctx.P
    cnt = P.fn("count_leaves", FR)
    tr = P.fn("traverse_schema_recursive", FR)
    c1 = [n for n in cnt.body.walk() if n.k == "IfStmt"]
    c2 = [n for n in tr.body.walk() if n.k == "IfStmt" and any(
        is_assign(a) and a.c[0].strip().k == "ArraySubscriptExpr" and
        a.c[0].strip().c[0].strip_casts().k == "MemberExpr" and a.c[0].strip().c[0].strip_casts().name == "leaf_indices"
        for a in [y for y in n.c if y is not None][1].walk())]
    if not c1 or not c2:
        raise AnalysisBroken("leaf predicate of count_leaves / traverse_schema_recursive not found")
    t1 = _strip_base(Canon(cnt)([x for x in c1[0].c if x is not None][0]))
    t2 = _strip_base(Canon(tr)([x for x in c2[0].c if x is not None][0]))
    ctx.ob(rule, "leaf-predicate-extent|%s:count_leaves/traverse" % FR, P.where(c2[0]),
           "the arrays allocated for count_leaves() leaves are filled by a walk that decides 'leaf' by the same predicate",
           t1 == t2, "%s / %s" % (show(t1), show(t2)))
