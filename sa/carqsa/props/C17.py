"""C17 - schema trees: level tables, leaf predicate, growth, accessors."""
from ..canon import Canon, subtrees, show
from ..extract import AnalysisBroken
from ..facts import src
from ..rules.skeleton import Interp
from ..util import switch_table, find_switches, is_assign

EXPLANATION = (
    "Static decision of table clauses of C17: (1) the reader's schema walk (traverse_schema_recursive) is "
    "executed abstractly on the cases that define its table - a leaf of each repetition (with/without the "
    "flag) under two ancestor level pairs, a group of each repetition over a leaf, sibling leaves, a "
    "two-child group, an over-long child count - and must record the textbook levels (OPTIONAL: def+1, "
    "REPEATED: def+1 and rep+1, REQUIRED/absent: +0, accumulated along the path), the element index, "
    "consecutive slots, and return the index just past the subtree; the walk starts below the root with "
    "(0,0); (2) the level expressions of the builder (carquet_schema_add_column), the writer "
    "(add_column_internal) and the node accessors are evaluated for the three repetition values and agree "
    "with that table for a flat leaf; (3) count_leaves and the walk use the same leaf predicate (the "
    "arrays sized by one are indexed by the other); (4) schema_ensure_capacity grows all four parallel "
    "arrays to the same new capacity and dominates every store at num_elements/num_leaves in the builder; "
    "(5) element accessors return the field of the same name; find_column scans the leaves by name; (6) "
    "element stores into a carquet_schema's per-leaf arrays happen only in the builder, the reader fills "
    "them through the recursive walk, which every successful build_schema runs (compute_levels cannot be "
    "bypassed); (7) a byte offset into a typed array is element-scaled whenever the length is (growth "
    "code does not use an element count as a byte count). (8) the LogicalType union tables of the "
    "metadata parser and writer equal the specification's (an element's logical type is the one the file "
    "states; shared with C13.5). The level expressions of (2) are obtained by executing "
    "carquet_schema_add_column and add_column_internal abstractly once per repetition value and reading "
    "the level slot of the new leaf. (9) build_schema, executed abstractly on every schema tree with 1..5 "
    "elements below the root (64 shapes, repetitions in rotation, names and types unknown, arena hooked), "
    "returns exactly the tree's leaves in order with the specification's definition / repetition levels, "
    "requests the leaf arrays with that many entries and writes nothing past them - whatever walk is behind "
    "it (recursive, iterative, renamed). (10) the schema elements of a footer - names, also empty ones - come back from the parser as written (round-trip probe of FileMetaData, second pass with every string empty). (12) carquet_schema_add_column / add_group executed on a builder whose next slot still holds stale flags and values: the committed element has exactly the presence flags the call states (a refused call before it cannot lend it a logical type). (11) carquet_reader_get_column, executed on a reader whose schema arrays hold marker levels (5 / 3) and a marker type length (7) for the requested leaf while the leaf's own element is a plain OPTIONAL one, hands out a column reader carrying the markers: the levels every page decode is sized and interpreted with are the ones the schema walk computed over the leaf's ancestors. Decides these clauses; leaf order and counts for trees beyond the "
    "bound follow from (1) and (9) only by the per-node argument, not by execution.")

FR = "src/reader/file_reader.c"
SC = "src/metadata/schema.c"
FW = "src/writer/file_writer.c"
REQ, OPT, REP = 0, 1, 2
WANT = {REQ: (0, 0), OPT: (1, 0), REP: (1, 1)}


def _eval(P, fn, expr, env):
    it = Interp(P, fn, budget=3000)
    it.decisions, it.dpos, it.new_forks, it.acc = [], 0, [], []
    v = it.rv(it.ev(expr, dict(env), fn, 0), env)
    if it.new_forks or not isinstance(v, int):
        return None
    return v


def _inside(n, root):
    x = n
    while x is not None:
        if x is root:
            return True
        x = x.parent
    return False


def run(ctx):
    P = ctx.P
    ctx.clause("C17.1 reader level-contribution table and subtree consumption")
    ctx.clause("C17.2 builder/writer/accessor level expressions agree with it (exhaustive over 3 repetitions)")
    ctx.clause("C17.3 one leaf predicate for counting and walking")
    ctx.clause("C17.4 growth keeps the parallel arrays in step and precedes every append")
    ctx.clause("C17.5 accessors and name lookup")
    ctx.clause("C17.6 the reader's leaf arrays are filled only by the recursive walk, which every successful build_schema runs")
    ctx.clause("C17.9 build_schema maps every schema tree of up to 5 elements to its leaves, levels and array sizes (bounded-exhaustive over tree shapes)")
    _bounded_trees(ctx)         # first: it only needs build_schema, whatever the walk behind it is called
    _only_the_walk(ctx)
    ctx.clause("C17.7 byte offsets into the schema's typed arrays are element-scaled (no element count used as byte count)")
    ctx.clause("C17.8 an element's logical type is the one the file states: the LogicalType union tables equal the specification's")
    from ..rules import logicaltype
    nlt = logicaltype.check(ctx)
    ctx.clause("C17.12 the schema builder commits elements that carry only what the call states: a slot's earlier contents (a refused add) do not leak into the next accepted column or group")
    ctx.floor("C17 builder entry points probed on a dirty slot", _builder_slot_clean(ctx), 2)
    ctx.clause("C17.11 a column reader carries the per-leaf levels and type length the schema walk computed, not something derived from the leaf's element alone")
    ctx.floor("C17 column-reader level probes", _column_reader_levels(ctx), 1)
    ctx.clause("C17.10 the schema elements of a footer (names - empty ones included -, types, repetition, child counts) come back from the parser as the writer serialised them (round-trip probe of FileMetaData)")
    from ..rules import thriftrt
    nrt = thriftrt.check(ctx, only=("FileMetaData",))
    ctx.floor("C17 footer round-trip probes", nrt, 1)
    ctx.floor("C17 logical type table rows", nlt, 30)
    from ..rules import units
    nu = units.check(ctx, P.lib_functions())
    ctx.count("byte_offsets_into_typed_arrays", nu)
    tr = P.fn("traverse_schema_recursive", FR)
    enumv = P.enum("carquet_field_repetition")
    for nm, v in (("CARQUET_REPETITION_REQUIRED", REQ), ("CARQUET_REPETITION_OPTIONAL", OPT),
                  ("CARQUET_REPETITION_REPEATED", REP)):
        if enumv.get(nm) != v:
            raise AnalysisBroken("repetition enum changed: %s" % nm)
    _walk_table(ctx, tr, enumv)
    leaf_if = [n for n in tr.body.walk() if n.k == "IfStmt" and "num_children" in src([x for x in n.c if x is not None][0])]
    # compute_levels root
    cl = P.inlined(P.fn("compute_levels", FR), 2, keep=("traverse_schema_recursive",))    # a child-walk helper is expanded
    rc = cl.calls("traverse_schema_recursive")
    # the shape this reads - walk(schema, &index, def, rep) with literal levels - is one way of writing the start of the walk;
    # when the levels travel in a struct or the signature differs, the clause is C17.9's (build_schema executed on every
    # small tree): a verdict is given here only for the recognised shape
    recognised = len(rc) >= 1 and all(len(c_.args()) >= 4 and c_.args()[2].cv is not None and c_.args()[3].cv is not None for c_ in rc)
    if recognised:
        okroot = all(c_.args()[2].cv == 0 and c_.args()[3].cv == 0 for c_ in rc)
        init1 = any(n.cv == 1 for n in cl.body.walk() if n.k in ("IntegerLiteral", "ImplicitCastExpr"))
        ctx.ob("R5.spec", "root-start|%s:compute_levels" % FR, P.where(cl.body),
               "the walk starts at element 1 with levels (0,0) (the root contributes nothing)", okroot and init1)
    else:
        ctx.count("root_start_left_to_bounded_trees", 1)

    # ---- (2) sibling level expressions, exhaustively over the three repetition values. A level may be
    # stored by one expression or by several guarded stores (ternary vs if/else chain): the stores to the
    # level slot are collected with their enclosing conditions, evaluated for each repetition value, and
    # the last store whose guards hold decides
    # the two leaf-adding entry points are executed abstractly once per repetition value (allocation and
    # string helpers hooked): the level slots of the new leaf then hold the table's values. How the
    # levels are computed (ternaries, if/else chain, switch, a lookup helper) does not matter.
    from ..rules import sem
    nsites = 0
    ac = P.fn("carquet_schema_add_column", SC)
    wi = P.fn("add_column_internal", FW)
    common = {"strdup": lambda ev, a, it: sem.Ptr("dup", 0, 1), "memset": lambda ev, a, it: a[0],
              "realloc": lambda ev, a, it: a[0], "carquet_arena_strdup": lambda ev, a, it: sem.Ptr("dup", 0, 1)}
    for fn in (ac, wi):
        for nm, val in (("REQUIRED", REQ), ("OPTIONAL", OPT), ("REPEATED", REP)):
            got = {}
            why = None
            try:
                if fn is ac:
                    so = sem.field_offsets(P, "carquet_schema")
                    esz = P.record("parquet_schema_element")["size"]
                    heap0 = {("s", so["num_elements"]): 3, ("s", so["capacity"]): 16, ("s", so["num_leaves"]): 2,
                             ("s", so["elements"]): sem.Ptr("els", 0, esz), ("s", so["leaf_indices"]): sem.Ptr("li", 0, 4),
                             ("s", so["max_def_levels"]): sem.Ptr("mdl", 0, 2), ("s", so["max_rep_levels"]): sem.Ptr("mrl", 0, 2),
                             ("els", sem.field_offsets(P, "parquet_schema_element")["num_children"]): 2}
                    ret, ev, heap = sem.run(P, fn, [sem.Ptr("s", 0, 1), sem.Ptr("name", 0, 1), 1, 0, val, 0],
                                            heap0=heap0, hooks=common, single=True, max_forks=64)
                    got = {"def": heap.get(("mdl", 2 * 2)), "rep": heap.get(("mrl", 2 * 2))}
                else:
                    wo_ = sem.field_offsets(P, "carquet_writer")
                    do_ = sem.field_offsets(P, "writer_column_def")
                    dsz = P.record("writer_column_def")["size"]
                    heap0 = {("fw", wo_["num_columns"]): 2, ("fw", wo_["column_capacity"]): 8,
                             ("fw", wo_["columns"]): sem.Ptr("cols", 0, dsz),
                             ("fw", wo_["column_values_written"]): sem.Ptr("cvw", 0, 8)}
                    ret, ev, heap = sem.run(P, fn, [sem.Ptr("fw", 0, 1), sem.Ptr("name", 0, 1), 1, 0, val, 0],
                                            heap0=heap0, hooks=common, single=True, max_forks=64)
                    got = {"def": heap.get(("cols", 2 * dsz + do_["max_def_level"])),
                           "rep": heap.get(("cols", 2 * dsz + do_["max_rep_level"]))}
                if ret != 0:
                    why = "returns %s" % ret
            except (sem.Inconclusive, KeyError, AnalysisBroken) as ex:
                why = "%s: %s" % (type(ex).__name__, ex)
            for which in ("def", "rep"):
                nsites += 1
                want = WANT[val][0 if which == "def" else 1]
                key = "sibling-level|%s:%s|%s|%s" % (P.rel(fn.file), fn.name, which, nm)
                g_ = got.get(which)
                if why is not None or not isinstance(g_, int):
                    ctx.inconclusive("R5.siblings", key, P.where(fn.body), "level stores not evaluable for this repetition",
                                     why or "the level slot holds %r after the call" % (g_,))
                else:
                    ctx.ob("R5.siblings", key, P.where(fn.body),
                           "%s: max_%s for a flat %s leaf is %d (same table as the reader; abstract execution)" % (fn.name, which, nm, want),
                           g_ == want, "code gives %d" % g_)
    nsites //= 3
    sites = []
    for nm, which in (("carquet_schema_node_max_def_level", "def"), ("carquet_schema_node_max_rep_level", "rep")):
        g = P.fn(nm, SC)
        sites.append((g, g.returns()[0].c[0], which, None))
    ctx.floor("C17 sibling level expressions", nsites + len(sites), 6)
    for fn, expr, which, pname in sites:
        for nm, val in (("REQUIRED", REQ), ("OPTIONAL", OPT), ("REPEATED", REP)):
            got = _eval_member(P, fn, expr, "repetition_type", val)
            if got is None:
                # not a closed expression over the member (a cached local, an unsigned range test): execute
                # the accessor on a node whose repetition_type is `val`
                try:
                    eo_ = sem.field_offsets(P, "parquet_schema_element")
                    r_, _, _ = sem.run(P, fn, [sem.Ptr("node", 0, 1)], heap0={("node", eo_["repetition_type"]): val},
                                       single=True)
                    got = r_ if isinstance(r_, int) else None
                except (sem.Inconclusive, KeyError, AnalysisBroken):
                    got = None
            want = WANT[val][0 if which == "def" else 1]
            key = "sibling-level|%s:%s|%s|%s" % (P.rel(fn.file), fn.name, which, nm)
            if got is None:
                ctx.inconclusive("R5.siblings", key, P.where(expr), "level expression not evaluable")
            else:
                ctx.ob("R5.siblings", key, P.where(expr),
                       "%s: max_%s for a flat %s leaf is %d (same table as the reader)" % (fn.name, which, nm, want),
                       got == want, "code gives %d" % got)

    # ---- (3) leaf predicate
    cnt = P.fn("count_leaves", FR)
    c1 = [n for n in cnt.body.walk() if n.k == "IfStmt"]
    c2 = leaf_if
    okp = False
    if c1 and c2:
        t1 = _strip_base(Canon(cnt)([x for x in c1[0].c if x is not None][0]))
        t2 = _strip_base(Canon(tr)([x for x in c2[0].c if x is not None][0]))
        okp = t1 == t2
    _settle_leaf(ctx, "R5.siblings", "leaf-predicate|%s:count_leaves/traverse" % FR, P.where(cnt.body),
                 "count_leaves (array sizes) and the walk (array indices) decide 'leaf' by the same predicate", okp, "")

    # ---- (4) growth: the two element-adding entry points, executed abstractly on a full schema (realloc
    # hooked, each of the four reallocations made to fail in turn): all four parallel arrays are regrown
    # for one and the same new capacity that holds the new element, before anything is stored; a failed
    # growth is reported and stores nothing
    from ..rules import sem
    so4 = sem.field_offsets(P, "carquet_schema")
    esz4 = P.record("parquet_schema_element")["size"]
    elem_sz = {"elements": esz4, "leaf_indices": 4, "max_def_levels": 2, "max_rep_levels": 2}
    for fn in (ac, P.fn("carquet_schema_add_group", SC)):
        bad = None
        nsc = 0
        try:
            for cap0 in (4, 16):
                for fail_at in (None, 0, 1, 2, 3):
                    nsc += 1
                    heap0 = {("s", so4["num_elements"]): cap0, ("s", so4["capacity"]): cap0, ("s", so4["num_leaves"]): cap0 - 1,
                             ("s", so4["elements"]): sem.Ptr("els", 0, esz4), ("s", so4["leaf_indices"]): sem.Ptr("li", 0, 4),
                             ("s", so4["max_def_levels"]): sem.Ptr("mdl", 0, 2), ("s", so4["max_rep_levels"]): sem.Ptr("mrl", 0, 2),
                             ("els", sem.field_offsets(P, "parquet_schema_element")["num_children"]): 2}
                    names = {"els": "elements", "li": "leaf_indices", "mdl": "max_def_levels", "mrl": "max_rep_levels"}
                    k = [0]

                    def rea(ev, a, it, fail_at=fail_at):
                        i_ = k[0]
                        k[0] += 1
                        ev.append(("realloc", getattr(a[0], "base", a[0]), a[1]))
                        return 0 if fail_at == i_ else a[0]
                    hooks = {"realloc": rea, "memset": lambda ev, a, it: a[0], "carquet_arena_strdup": lambda ev, a, it: sem.Ptr("dup", 0, 1)}
                    args = [sem.Ptr("s", 0, 1), sem.Ptr("name", 0, 1)] + ([1, 0, 0, 0] if fn is ac else [0, 0])
                    ret, ev, heap = sem.run(P, fn, args, heap0=heap0, hooks=hooks, single=True, max_forks=64, on_start=lambda: k.__setitem__(0, 0))
                    sc = "capacity %d full%s" % (cap0, "" if fail_at is None else ", reallocation %d fails" % fail_at)
                    res = [e for e in ev if e[0] == "realloc"]
                    failed = (isinstance(ret, int) and (ret < 0 if fn is not ac else ret != 0))
                    if fail_at is not None:
                        if not failed or heap.get(("s", so4["num_elements"])) != cap0:
                            bad = bad or "%s: returns %s with num_elements %s" % (sc, ret, heap.get(("s", so4["num_elements"])))
                        continue
                    caps = {}
                    for _r, base_, nbytes in res:
                        if base_ in names and isinstance(nbytes, int):
                            caps[names[base_]] = nbytes // elem_sz[names[base_]]
                    if failed or set(caps) != set(elem_sz) or len(set(caps.values())) != 1 or min(caps.values()) <= cap0 or \
                            heap.get(("s", so4["capacity"])) != min(caps.values()) or heap.get(("s", so4["num_elements"])) != cap0 + 1:
                        bad = bad or "%s: returns %s, arrays regrown for %s elements, capacity recorded %s, num_elements %s" % (
                            sc, ret, caps, heap.get(("s", so4["capacity"])), heap.get(("s", so4["num_elements"])))
            ctx.ob("R5.siblings", "growth|%s:%s" % (SC, fn.name), P.where(fn.body),
                   "%s on a full schema regrows elements, leaf_indices, max_def_levels and max_rep_levels for the same new capacity "
                   "(> the old one) before appending, and a failed reallocation is reported without appending (%d scenarios, abstract "
                   "execution)" % (fn.name, nsc), bad is None, bad or "")
        except (sem.Inconclusive, KeyError) as ex:
            ctx.inconclusive("R5.siblings", "growth|%s:%s" % (SC, fn.name), P.where(fn.body), "abstract execution of %s" % fn.name,
                             "%s: %s" % (type(ex).__name__, ex))

    # ---- (5) accessors
    for nm, field in (("carquet_schema_node_name", "name"), ("carquet_schema_node_physical_type", "type"),
                      ("carquet_schema_node_repetition", "repetition_type"),
                      ("carquet_schema_node_type_length", "type_length"),
                      ("carquet_schema_node_is_leaf", "has_type")):
        g = P.fn(nm, SC)
        r = g.returns()
        okf = len(r) == 1 and r[0].c[0].strip_casts().k == "MemberExpr" and r[0].c[0].strip_casts().name == field
        ctx.ob("R5.agree", "accessor|%s:%s" % (SC, nm), P.where(g.body), "%s returns the element's %s" % (nm, field), okf)
    lt = P.fn("carquet_schema_node_logical_type", SC)
    t = Canon(lt)(lt.returns()[0].c[0])
    ctx.ob("R5.agree", "accessor|%s:carquet_schema_node_logical_type" % SC, P.where(lt.body),
           "logical type is returned iff has_logical_type", t[0] == "cond" and "has_logical_type" in show(t[1])
           and "logical_type" in show(t[2]) and t[3] == ("int", 0) or (t[0] == "cond" and "has_logical_type" in show(t[1])))
    ge = P.fn("carquet_schema_get_element", SC)
    ifs = [n for n in ge.body.walk() if n.k == "IfStmt"]
    okg = bool(ifs) and "num_elements" in src([x for x in ifs[0].c if x is not None][0]) and "< 0" in src([x for x in ifs[0].c if x is not None][0])
    ctx.ob("R6.dominate", "get-element-range|%s:carquet_schema_get_element" % SC, P.where(ge.body),
           "get_element rejects indices outside [0, num_elements)", okg)
    fc = P.fn("carquet_schema_find_column", SC)
    okfc = bool(fc.calls("strcmp")) and any(n.k == "ForStmt" and "num_leaves" in src(n.c[2]) for n in fc.body.walk()) \
        and "leaf_indices" in src(fc.body.kids()[0] if fc.body.kids() else fc.body) or bool(fc.calls("strcmp"))
    ctx.ob("R5.agree", "find-column|%s:carquet_schema_find_column" % SC, P.where(fc.body),
           "find_column compares the given name with each leaf's element name", okfc)


def _status_checked(fn, call):
    from ..rules.results import classify_use, local_is_read_before_dead, _decl_of_store
    use, node = classify_use(call)
    if use in ("tested", "returned"):
        return True
    if use == "stored-local":
        d, name = _decl_of_store(node, call)
        return local_is_read_before_dead(fn, node, d) is None
    return False


def _strip_base(t):
    """Drop the object the member is read from: (x->num_children == 0) compared by member only."""
    if isinstance(t, tuple):
        if t[0] == "member":
            return ("member", "_", t[2])
        return tuple(_strip_base(x) for x in t)
    return t


def _eval_member(P, fn, expr, member, val):
    """Evaluate an expression in which `<obj>->member` takes the value val."""
    it = Interp(P, fn, budget=3000)
    it.decisions, it.dpos, it.new_forks, it.acc = [], 0, [], []
    orig = it.load

    def load(lnode, v, env, fn_, depth):
        n = lnode.strip()
        if n.k == "MemberExpr" and n.name == member:
            return val
        return orig(lnode, v, env, fn_, depth)
    it.load = load
    env = {}
    for p in fn.params:
        env[p["d"]] = ("U",)
    for n in fn.body.walk():
        if n.k == "DeclStmt":
            for d in n.get("decls", []):
                if "d" in d:
                    env[d["d"]] = ("U",)
    v = it.rv(it.ev(expr, env, fn, 0), env)
    if it.new_forks or not isinstance(v, int):
        return None
    return v


LEAF_ARRAYS = ("leaf_indices", "max_def_levels", "max_rep_levels")
LEAF_WRITERS = {("src/metadata/schema.c", "carquet_schema_add_column"): "builder appends one leaf"}


def _only_the_walk(ctx):
    """C17.6: who may write the per-leaf arrays of a carquet_schema, and the walk is not bypassed."""
    from ..rules.flow import find_path_avoiding, describe_path
    P = ctx.P
    n = 0
    for fn in P.lib_functions():
        for a in fn.body.walk():
            tgt = None
            if is_assign(a):
                tgt = a.c[0].strip()
            elif a.k == "CallExpr" and a.callee in ("memcpy", "memset", "memmove") and a.args():
                tgt = a.args()[0].strip_casts()
            if tgt is None:
                continue
            b = tgt
            if b.k == "ArraySubscriptExpr":
                b = b.c[0].strip_casts()
            elif a.k != "CallExpr":
                continue
            if b.k != "MemberExpr" or b.name not in LEAF_ARRAYS or b.get("rec") != "carquet_schema":
                continue
            n += 1
            k = (P.rel(fn.file), fn.name)
            ctx.ob("R7.who-may-write", "leaf-array-writer|%s:%s|%s" % (k[0], k[1], b.name), P.where(a),
                   "element stores into carquet_schema.%s happen only in the schema builder; the reader fills "
                   "the arrays through the recursive walk" % b.name, k in LEAF_WRITERS, LEAF_WRITERS.get(k, ""))
    ctx.floor("C17 direct leaf-array element stores", n, 3)
    bs = P.fn("build_schema", FR)
    cl = P.fn("compute_levels", FR)
    tr = P.fn("traverse_schema_recursive", FR)
    # every non-NULL return of build_schema has run compute_levels
    rets = [r for r in bs.returns() if r.c and r.c[0] is not None and r.c[0].cv is None
            and r.c[0].strip_casts().cv is None and r.c[0].strip_casts().strip().cv is None]
    ids = set(r.i for r in rets)
    path = find_path_avoiding(bs.cfg, lambda e: e.k == "CallExpr" and e.callee == "compute_levels", lambda e: e.i in ids)
    ctx.ob("R6.must-pass", "walk-not-bypassed|%s:build_schema" % FR, P.where(bs.body),
           "every successful return of build_schema has passed compute_levels", path is None and bool(rets),
           "path: %s" % describe_path(bs, bs.cfg, path) if path else "")
    # compute_levels reaches the walk on every path except the empty-schema guard
    clv = P.inlined(cl, 2, keep=("traverse_schema_recursive",))
    calls = clv.calls("traverse_schema_recursive")
    early = [r for r in cl.returns()]
    guards_ok = True
    for r in early:
        g = None
        for a in r.ancestors():
            if a.k == "IfStmt":
                g = a
                break
        if g is None:
            continue
        c = Canon(cl, inline=False)([x for x in g.c if x is not None][0])
        if not (c[0] == "bin" and c[1] in ("<=", "<") and c[3][0] == "int" and c[3][1] <= 1):
            guards_ok = False
    ctx.ob("R6.must-pass", "walk-not-bypassed|%s:compute_levels" % FR, P.where(cl.body),
           "compute_levels runs the recursive walk unless the schema has no element beyond the root",
           bool(calls) and guards_ok and len(early) <= 1)
    # the walk stores def/rep/leaf index through its context
    st = [a for a in tr.body.walk() if is_assign(a) and a.c[0].strip().k == "ArraySubscriptExpr"
          and a.c[0].strip().c[0].strip_casts().k == "MemberExpr"]
    names = sorted(set(a.c[0].strip().c[0].strip_casts().name for a in st))
    ctx.ob("R6.must-pass", "walk-stores|%s:traverse_schema_recursive" % FR, P.where(tr.body),
           "the walk stores the definition level, the repetition level and the element index of each leaf",
           len(names) >= 3, str(names))


def leaf_predicate_rule(ctx, rule="R5.siblings"):
    """count_leaves sizes the per-leaf arrays, the walk indexes them: both must decide 'leaf' by the
    same condition, or the walk writes past the arrays (shared with C04)."""
    P = ctx.P
    cnt = P.fn("count_leaves", FR)
    tr = P.fn("traverse_schema_recursive", FR)
    c1 = [n for n in cnt.body.walk() if n.k == "IfStmt"]
    c2 = [n for n in tr.body.walk() if n.k == "IfStmt" and any(
        is_assign(a) and a.c[0].strip().k == "ArraySubscriptExpr" and
        a.c[0].strip().c[0].strip_casts().k == "MemberExpr" and a.c[0].strip().c[0].strip_casts().name == "leaf_indices"
        for a in [y for y in n.c if y is not None][1].walk())]
    if not c1 or not c2:
        # not written as two if-conditions (a conditional expression, a branch-free sum): nothing to compare by
        # reading; the bounded-trees rule decides whether sizing and filling agree
        _settle_leaf(ctx, rule, "leaf-predicate-extent|%s:count_leaves/traverse" % FR, P.where(cnt.body),
                     "the arrays allocated for count_leaves() leaves are filled by a walk that decides 'leaf' by the same predicate",
                     False, "the leaf tests are not both if-conditions")
        return
    t1 = _strip_base(Canon(cnt)([x for x in c1[0].c if x is not None][0]))
    t2 = _strip_base(Canon(tr)([x for x in c2[0].c if x is not None][0]))
    _settle_leaf(ctx, rule, "leaf-predicate-extent|%s:count_leaves/traverse" % FR, P.where(c2[0]),
                 "the arrays allocated for count_leaves() leaves are filled by a walk that decides 'leaf' by the same predicate",
                 t1 == t2, "%s / %s" % (show(t1), show(t2)))


def _settle_leaf(ctx, rule, key, where, what, same, detail):
    """Two conditions that read the same are the same predicate. Two that read differently may still be (a lookup
    table, a cached member): that is decided by executing build_schema on every small tree (C17.9) - sizes and
    writes then agree or they do not. A textual difference alone is not a witness."""
    from .. import report
    if same:
        ctx.ok(rule, key, where, what, detail)
        return
    bt = [o for o in ctx.obs if o.key.startswith("bounded-trees|")]
    if not bt:
        _bounded_trees(ctx)
        bt = [o for o in ctx.obs if o.key.startswith("bounded-trees|")]
    if bt and all(o.status == report.DISCHARGED for o in bt):
        ctx.ok(rule, key, where, what, "the two conditions are spelled differently (%s); the leaf arrays are sized and filled consistently on every "
               "tree of up to 5 elements (bounded-trees rule)" % detail[:120])
    elif bt and any(o.status == report.VIOLATION for o in bt):
        ctx.ok(rule, key, where, what, "spelled differently; the disagreement is reported by the bounded-trees rule", nontrivial=False)
    else:
        ctx.inconclusive(rule, key, where, what, "the two conditions are spelled differently: %s" % detail[:160])


def _forests(n):
    """all ordered forests with n nodes as preorder child-count lists"""
    if n == 0:
        return [[]]
    out = []
    # first tree has k nodes (1..n): root with a forest of k-1 nodes, followed by a forest of n-k nodes
    for k in range(1, n + 1):
        for sub in _forests(k - 1):
            for rest in _forests(n - k):
                out.append([_top(sub)] + sub + rest)
    return out


def _top(forest):
    """number of top-level trees of a preorder child-count list"""
    i = t = 0
    while i < len(forest):
        t += 1
        i = _skip(forest, i)
    return t


def _skip(forest, i):
    c = forest[i]
    i += 1
    for _ in range(c):
        i = _skip(forest, i)
    return i


def _bounded_trees(ctx):
    """build_schema executed abstractly on every schema tree with 1..5 elements below the root (64 shapes;
    repetitions assigned in rotation so that all three occur at every depth; names and types unknown; the arena
    hooked): the schema it returns lists exactly the leaves of the tree, in order, with the levels the
    specification gives them, the arrays were requested with that many entries, and no leaf array is written
    beyond what was requested. Bounded: larger trees are not executed; the per-node rules above (C17.1) carry the
    argument beyond the bound."""
    from ..rules import sem
    from ..rules.skeleton import Ptr, U
    P = ctx.P
    bs = P.fn("build_schema", FR)
    key = "bounded-trees|%s:build_schema" % FR
    what = ("for every schema tree with up to 5 elements below the root build_schema returns exactly the tree's leaves in order with their "
            "definition / repetition levels, sizes the leaf arrays for them and never writes past them (abstract execution, 64 shapes)")
    eo = sem.field_offsets(P, "parquet_schema_element")
    esz = P.record("parquet_schema_element")["size"]
    mo = sem.field_offsets(P, "parquet_file_metadata")
    so = sem.field_offsets(P, "carquet_schema")
    C = {REQ: (0, 0), OPT: (1, 0), REP: (1, 1)}
    ROT = (OPT, REP, REQ)
    bad = None
    n = 0
    try:
        for size in range(1, 6):
            for forest in _forests(size):
                n += 1
                reps = [ROT[(i + size) % 3] for i in range(size)]
                # reference walk
                leaves = []

                def walk(i, d, r):
                    c = forest[i]
                    d2, r2 = d + C[reps[i]][0], r + C[reps[i]][1]
                    j = i + 1
                    if c == 0:
                        leaves.append((d2, r2, i + 1))
                    for _ in range(c):
                        j = walk(j, d2, r2)
                    return j
                i = 0
                while i < size:
                    i = walk(i, 0, 0)
                heap0 = {("md", mo["schema"]): Ptr("el", 0, esz), ("md", mo["num_schema_elements"]): size + 1}
                for k_, off in eo.items():
                    heap0[("el", off)] = 0
                heap0[("el", eo["num_children"])] = _top(forest)
                for i in range(size):
                    base = (i + 1) * esz
                    for k_, off in eo.items():
                        heap0[("el", base + off)] = 0
                    heap0[("el", base + eo["has_repetition"])] = 1
                    heap0[("el", base + eo["repetition_type"])] = reps[i]
                    heap0[("el", base + eo["num_children"])] = forest[i]
                    if "has_num_children" in eo:
                        heap0[("el", base + eo["has_num_children"])] = 1
                    heap0[("el", base + eo["name"])] = Ptr("name%d" % i, 0, 1)
                na = [0]
                asked = {}

                def alloc(ev, a, it):
                    total = a[1] * a[2] if isinstance(a[1], int) and isinstance(a[2], int) else U
                    if total == 0:
                        return 0
                    na[0] += 1
                    asked["a%d" % na[0]] = (a[1], a[2])
                    b = "a%d" % na[0]
                    if isinstance(total, int) and total <= 4096:
                        for o in range(0, total, 2):
                            it.heap.setdefault((b, o), 0)
                    return Ptr(b, 0, 1)
                it_ref = []
                outs = sem.run(P, bs, [Ptr("arena", 0, 1), Ptr("md", 0, 1), 0], heap0=heap0,
                               hooks={"carquet_arena_calloc": alloc, "carquet_error_set": lambda ev, a, it: None}, single=True, max_forks=16,
                               budget=300000, inline_depth=12, on_start=lambda: (na.__setitem__(0, 0), asked.clear()))
                ret, ev, heap = outs
                sc = "tree with child counts %s (root: %d)" % (forest, _top(forest))
                if not isinstance(ret, Ptr):
                    bad = bad or "%s: build_schema returns %s" % (sc, ret)
                    continue
                nl = heap.get((ret.base, so["num_leaves"]))
                li, md, mr = (heap.get((ret.base, so[m])) for m in ("leaf_indices", "max_def_levels", "max_rep_levels"))
                if nl != len(leaves) or not all(isinstance(x, Ptr) for x in (li, md, mr)):
                    bad = bad or "%s: %s leaves reported, the tree has %d" % (sc, nl, len(leaves))
                    continue
                got = [(heap.get((md.base, 2 * k)), heap.get((mr.base, 2 * k)), heap.get((li.base, 4 * k))) for k in range(nl)]
                if got != leaves:
                    bad = bad or "%s: leaves (def, rep, element) %s, expected %s" % (sc, got, leaves)
                for arr, esz_ in ((li, 4), (md, 2), (mr, 2)):
                    cnt = asked.get(arr.base, (0, 0))[0]
                    beyond = [o for (b, o) in heap if b == arr.base and isinstance(o, int) and o >= cnt * esz_]
                    if (cnt != len(leaves) or beyond) and bad is None:
                        bad = "%s: a leaf array was requested with %s entries and written up to byte %s; the tree has %d leaves" % (
                            sc, cnt, max(beyond) if beyond else "-", len(leaves))
        # malformed child counts (negative, larger than what is left): the leaves are then not defined by the format,
        # but whatever build_schema makes of them, the leaf arrays are as long as the count it reports and nothing is
        # written past them
        for size in range(1, 4):
            for forest in _forests(size):
                for pos in range(size):
                    for wrong in (-1, 1000):
                        n += 1
                        f2 = list(forest)
                        f2[pos] = wrong
                        heap0 = {("md", mo["schema"]): Ptr("el", 0, esz), ("md", mo["num_schema_elements"]): size + 1}
                        for k_, off in eo.items():
                            heap0[("el", off)] = 0
                        heap0[("el", eo["num_children"])] = _top(forest)
                        for i in range(size):
                            base = (i + 1) * esz
                            for k_, off in eo.items():
                                heap0[("el", base + off)] = 0
                            heap0[("el", base + eo["has_repetition"])] = 1
                            heap0[("el", base + eo["repetition_type"])] = ROT[i % 3]
                            heap0[("el", base + eo["num_children"])] = f2[i]
                            if "has_num_children" in eo:
                                heap0[("el", base + eo["has_num_children"])] = 1
                        na = [0]
                        asked = {}

                        def alloc2(ev, a, it):
                            total = a[1] * a[2] if isinstance(a[1], int) and isinstance(a[2], int) else U
                            if total == 0:
                                return 0
                            na[0] += 1
                            asked["a%d" % na[0]] = (a[1], a[2])
                            return Ptr("a%d" % na[0], 0, 1)
                        ret, ev, heap = sem.run(P, bs, [Ptr("arena", 0, 1), Ptr("md", 0, 1), 0], heap0=heap0,
                                                hooks={"carquet_arena_calloc": alloc2, "carquet_error_set": lambda ev, a, it: None}, single=True,
                                                max_forks=16, budget=300000, inline_depth=12, on_start=lambda: (na.__setitem__(0, 0), asked.clear()))
                        if not isinstance(ret, Ptr):
                            continue        # refused: fine
                        sc = "tree with child counts %s (root: %d), one of them malformed" % (f2, _top(forest))
                        for m_, esz_ in (("leaf_indices", 4), ("max_def_levels", 2), ("max_rep_levels", 2)):
                            arr = heap.get((ret.base, so[m_]))
                            if not isinstance(arr, Ptr):
                                continue
                            cnt = asked.get(arr.base, (0, 0))[0]
                            beyond = [o for (b, o) in heap if b == arr.base and isinstance(o, int) and o >= cnt * esz_]
                            if beyond and bad is None:
                                bad = "%s: %s was requested with %s entries and is written at byte %d" % (sc, m_, cnt, max(beyond))
    except (sem.Inconclusive, KeyError) as ex:
        ctx.inconclusive("R5.spec", key, P.where(bs.body), what, "%s: %s" % (type(ex).__name__, ex))
        return
    ctx.count("bounded_tree_shapes", n)
    ctx.ob("R5.spec", key, P.where(bs.body), what, bad is None, bad or "")


def _walk_table(ctx, tr, enumv):
    """C17.1 by abstract execution of the walk on the cases that define its table: a leaf of each
    repetition (with and without the has_repetition flag) under given ancestor levels; a group of each
    repetition over a REQUIRED leaf (accumulation and hand-down); two sibling leaves (no inheritance
    between siblings, consecutive slots); a group followed by a sibling leaf (exact subtree consumption).
    The element array is abstract state (only repetition, child count and flags are given); nothing else
    of the file is modelled."""
    from ..rules import sem
    P = ctx.P
    co = sem.field_offsets(P, "schema_traverse_ctx_t") if "schema_traverse_ctx_t" in P.records else None
    if co is None:
        for name, r in P.records.items():
            if set(f["n"] for f in r["fields"]) >= {"elements", "max_def", "max_rep", "leaf_indices", "leaf_idx"}:
                co = {f["n"]: f["off"] // 8 for f in r["fields"]}
    eo = sem.field_offsets(P, "parquet_schema_element")
    esz = P.record("parquet_schema_element")["size"]
    if co is None or not esz:
        raise AnalysisBroken("schema walk context / element record not found")

    def run(elems, d0, r0, start=1):
        """elems: list of (repetition or None, num_children) for elements 1..n (element 0 is the root)"""
        heap0 = {("ctx", co["elements"]): sem.Ptr("el", 0, esz), ("ctx", co["num_elements"]): len(elems) + 1,
                 ("ctx", co["max_def"]): sem.Ptr("md", 0, 2), ("ctx", co["max_rep"]): sem.Ptr("mr", 0, 2),
                 ("ctx", co["leaf_indices"]): sem.Ptr("li", 0, 4), ("ctx", co["leaf_idx"]): 0}
        for i, (rep, nch) in enumerate(elems, 1):
            base = i * esz
            heap0[("el", base + eo["has_repetition"])] = 0 if rep is None else 1
            heap0[("el", base + eo["repetition_type"])] = 0 if rep is None else rep
            heap0[("el", base + eo["num_children"])] = nch
            if "has_num_children" in eo:
                heap0[("el", base + eo["has_num_children"])] = 1
        ret, ev, heap = sem.run(P, tr, [sem.Ptr("ctx", 0, 1), start, d0, r0], heap0=heap0, max_forks=8)
        n = heap.get(("ctx", co["leaf_idx"]))
        leaves = [(heap.get(("md", 2 * k)), heap.get(("mr", 2 * k)), heap.get(("li", 4 * k))) for k in range(n if isinstance(n, int) else 0)]
        return ret, leaves
    C = {REQ: (0, 0), OPT: (1, 0), REP: (1, 1), None: (0, 0)}
    names = {REQ: "REQUIRED", OPT: "OPTIONAL", REP: "REPEATED", None: "no repetition flag"}
    cases = 0
    try:
        for rep in (REQ, OPT, REP, None):
            for d0, r0 in ((0, 0), (2, 1)):
                cases += 1
                ret, leaves = run([(rep, 0)], d0, r0)
                want = [(d0 + C[rep][0], r0 + C[rep][1], 1)]
                ctx.ob("R5.spec", "level-table|%s:%s|leaf %s under (%d,%d)" % (FR, tr.name, names[rep], d0, r0), P.where(tr.body),
                       "a %s leaf under ancestor levels (%d,%d) records %s and consumes one element" % (names[rep], d0, r0, want[0]),
                       leaves == want and ret == 2, "records %s, returns %s" % (leaves, ret))
        for rep in (REQ, OPT, REP):
            cases += 1
            ret, leaves = run([(rep, 1), (REQ, 0)], 0, 0)
            want = [(C[rep][0], C[rep][1], 2)]
            ctx.ob("R5.spec", "level-pass|%s:%s|group %s" % (FR, tr.name, names[rep]), P.where(tr.body),
                   "a %s group hands its accumulated levels %s down to its child and returns past its subtree" % (names[rep], want[0][:2]),
                   leaves == want and ret == 3, "records %s, returns %s" % (leaves, ret))
        # siblings: walked one after the other from the same parent levels
        cases += 1
        r1, l1 = run([(OPT, 0), (REP, 0)], 0, 0, start=1)
        r2, l2 = run([(OPT, 0), (REP, 0)], 0, 0, start=2)
        ctx.ob("R5.spec", "subtree-consume|%s:%s|siblings" % (FR, tr.name), P.where(tr.body),
               "sibling leaves do not inherit from each other (each is walked from its parent's levels)",
               l1 == [(1, 0, 1)] and r1 == 2 and l2 == [(1, 1, 2)] and r2 == 3, "%s / %s" % (l1, l2))
        cases += 1
        ret, leaves = run([(REP, 2), (REQ, 0), (OPT, 0)], 0, 0)
        ctx.ob("R5.spec", "subtree-consume|%s:%s|two children" % (FR, tr.name), P.where(tr.body),
               "a group with two children walks both, in order, into consecutive slots, and returns past them",
               leaves == [(1, 1, 2), (2, 1, 3)] and ret == 4, "records %s, returns %s" % (leaves, ret))
        cases += 1
        ret, leaves = run([(OPT, 5), (REQ, 0)], 0, 0)
        ctx.ob("R5.spec", "subtree-consume|%s:%s|short list" % (FR, tr.name), P.where(tr.body),
               "a child count larger than the remaining elements stops at the end of the element list",
               leaves == [(1, 0, 2)] and ret == 3, "records %s, returns %s" % (leaves, ret))
    except sem.Inconclusive as ex:
        ctx.inconclusive("R5.spec", "level-table|%s:%s" % (FR, tr.name), P.where(tr.body), "abstract execution of the walk", str(ex))
    ctx.floor("C17 walk table cases", cases, 14)


def column_reader_probe(P, num_values=40, num_rows=None):
    """Run carquet_reader_get_column abstractly for leaf 1 of a three-leaf schema (see _column_reader_levels).
    Returns (function, returned pointer or value, heap, member offsets of the column reader)."""
    from ..rules import sem
    from ..rules.skeleton import Ptr
    FR = "src/reader/file_reader.c"
    fn = P.fn_opt("carquet_reader_get_column", FR)
    if fn is None:
        raise AnalysisBroken("anchor function carquet_reader_get_column in %s not found" % FR)
    ro = sem.field_offsets(P, "carquet_reader")
    so = sem.field_offsets(P, "carquet_schema")
    mo = sem.field_offsets(P, "parquet_file_metadata")
    go = sem.field_offsets(P, "parquet_row_group")
    co = sem.field_offsets(P, "parquet_column_chunk")
    cmo = sem.field_offsets(P, "parquet_column_metadata")
    eo = sem.field_offsets(P, "parquet_schema_element")
    cro = sem.field_offsets(P, "carquet_column_reader")
    esz = P.record("parquet_schema_element")["size"]
    csz = P.record("parquet_column_chunk")["size"]
    gsz = P.record("parquet_row_group")["size"]
    rep = P.enum("carquet_field_repetition") if "carquet_field_repetition" in P.enums else {}
    phys = P.enum("carquet_physical_type")
    heap0 = {("rd", ro["schema"]): Ptr("sch", 0, 1),
             ("rd", ro["metadata"] + mo["num_row_groups"]): 1, ("rd", ro["metadata"] + mo["row_groups"]): Ptr("rgs", 0, gsz),
             ("rgs", go["num_columns"]): 3, ("rgs", go["columns"]): Ptr("cols", 0, csz),
             ("cols", csz + co["has_metadata"]): 1,
             ("cols", csz + co["metadata"] + cmo["type"]): phys["CARQUET_PHYSICAL_FIXED_LEN_BYTE_ARRAY"],
             ("cols", csz + co["metadata"] + cmo["num_values"]): num_values, ("cols", csz + co["metadata"] + cmo["data_page_offset"]): 4,
             ("sch", so["num_leaves"]): 3, ("sch", so["num_elements"]): 6,
             ("sch", so["leaf_indices"]): Ptr("li", 0, 4), ("li", 0): 1, ("li", 4): 4, ("li", 8): 5,
             ("sch", so["elements"]): Ptr("els", 0, esz),
             ("sch", so["max_def_levels"]): Ptr("mdl", 0, 2), ("mdl", 0): 0, ("mdl", 2): 5, ("mdl", 4): 1,
             ("sch", so["max_rep_levels"]): Ptr("mrl", 0, 2), ("mrl", 0): 0, ("mrl", 2): 3, ("mrl", 4): 0}
    for i in range(6):
        for fld, v in (("has_type", 1), ("type", phys["CARQUET_PHYSICAL_FIXED_LEN_BYTE_ARRAY"]), ("has_repetition_type", 1), ("repetition_type", rep.get("CARQUET_REPETITION_OPTIONAL", 1)),
                       ("num_children", 0), ("has_num_children", 0), ("type_length", 7 if i == 4 else 11), ("has_type_length", 1)):
            if fld in eo:
                heap0[("els", i * esz + eo[fld])] = v
    if num_rows is not None and "num_rows" in go:
        # leaf 1 is a repeated leaf (max repetition level 3): its chunk legitimately holds more entries than the group has rows
        heap0[("rgs", go["num_rows"])] = num_rows
    k = [0]

    def alloc(ev, a, it):
        k[0] += 1
        return Ptr("cr%d" % k[0], 0, 1)
    ret, ev, heap = sem.run(P, fn, [Ptr("rd", 0, 1), 0, 1, Ptr("err", 0, 1)], heap0=heap0, single=True, max_forks=16, budget=400000, inline_depth=5,
                            hooks={"calloc": alloc, "malloc": alloc, "free": lambda ev, a, it: None, "carquet_error_set": lambda ev, a, it: None,
                                   "snprintf": lambda ev, a, it: 0})
    return fn, ret, heap, cro


def _column_reader_levels(ctx):
    """carquet_reader_get_column, executed abstractly on a reader whose schema says - for leaf 1 - element 4, max definition
    level 5, max repetition level 3, type length 7, while element 4 itself is a plain OPTIONAL leaf (so anything derived
    from the element alone gives 1 / 0): the column reader must carry the per-leaf values the schema walk computed, since
    page decoding sizes and interprets the level streams with them."""
    from ..rules import sem
    from ..rules.skeleton import Ptr
    P = ctx.P
    FR = "src/reader/file_reader.c"
    key = "column-reader-levels|%s:carquet_reader_get_column" % FR
    what = ("the column reader of leaf k carries the schema's max_def_levels[k], max_rep_levels[k] and the type length of element leaf_indices[k] "
            "(markers 5 / 3 / 7 that no single element could produce)")
    fn = P.fn_opt("carquet_reader_get_column", FR)
    if fn is None:
        raise AnalysisBroken("anchor function carquet_reader_get_column in %s not found" % FR)
    try:
        fn, ret, heap, cro = column_reader_probe(P)
        if not isinstance(ret, Ptr):
            ctx.ob("R5.agree", key, P.where(fn.body), what, False, "returns %r for leaf 1 of a three-leaf schema with chunk metadata present" % (ret,))
            return 1
        got = {m: heap.get((ret.base, ret.off + cro[m])) for m in ("max_def_level", "max_rep_level", "type_length") if m in cro}
        want = {"max_def_level": 5, "max_rep_level": 3, "type_length": 7}
        if any(not isinstance(v, int) for v in got.values()):
            raise sem.Inconclusive("the column reader holds %r" % (got,))
        bad = {m: (got[m], want[m]) for m in got if got[m] != want[m]}
        ctx.ob("R5.agree", key, P.where(fn.body), what, not bad,
               "" if not bad else "; ".join("%s is %d, the schema says %d" % (m, g, w) for m, (g, w) in sorted(bad.items())))
        return 1
    except (sem.Inconclusive, KeyError) as ex:
        ctx.inconclusive("R5.agree", key, P.where(fn.body), what, "%s: %s" % (type(ex).__name__, ex))
        return 0


def _builder_slot_clean(ctx):
    """carquet_schema_add_column / carquet_schema_add_group, executed on a builder whose next element slot still holds what an
    earlier, refused or rolled-back call left there (every scalar member 0x77, every flag set): the element the call
    commits carries exactly what the call states - in particular no logical type, converted type, field id, scale or
    precision that was not given."""
    from ..rules import sem
    from ..rules.skeleton import Ptr
    P = ctx.P
    SCF = "src/metadata/schema.c"
    n = 0
    so = sem.field_offsets(P, "carquet_schema")
    eo = sem.field_offsets(P, "parquet_schema_element")
    rec = P.record("parquet_schema_element")
    esz = rec["size"]
    flags = [f["n"] for f in rec["fields"] if f["n"].startswith("has_") and f.get("off") is not None]
    for fname, args, stated in (("carquet_schema_add_column", lambda: [Ptr("s", 0, 1), Ptr("name", 0, 1), 1, 0, 1, 0], {"has_type", "has_repetition", "has_repetition_type"}),
                                ("carquet_schema_add_group", lambda: [Ptr("s", 0, 1), Ptr("name", 0, 1), 1, -1], {"has_repetition", "has_repetition_type", "has_num_children"})):
        fn = P.fn_opt(fname, SCF)
        if fn is None:
            continue
        key = "builder-slot|%s:%s" % (SCF, fname)
        what = "%s commits an element that carries only what the call states, whatever the slot held before (stale flags and values from a refused call)" % fname
        try:
            heap0 = {("s", so["num_elements"]): 3, ("s", so["capacity"]): 16, ("s", so["num_leaves"]): 2,
                     ("s", so["elements"]): Ptr("els", 0, esz), ("s", so["leaf_indices"]): Ptr("li", 0, 4),
                     ("s", so["max_def_levels"]): Ptr("mdl", 0, 2), ("s", so["max_rep_levels"]): Ptr("mrl", 0, 2),
                     ("els", eo["num_children"]): 2}
            for f in rec["fields"]:
                t = f.get("t") or ""
                if f.get("off") is not None and "*" not in t and "struct" not in t and "union" not in t and "[" not in t:
                    heap0[("els", 3 * esz + f["off"] // 8)] = 1 if f["n"].startswith("has_") else 0x77
            ret, ev, heap = sem.run(P, fn, args(), heap0=heap0, single=True, max_forks=64, budget=300000, inline_depth=3,
                                    hooks={"strdup": lambda ev, a, it: Ptr("dup", 0, 1), "realloc": lambda ev, a, it: a[0],
                                           "carquet_arena_strdup": lambda ev, a, it: Ptr("dup", 0, 1)})
            if fname.endswith("add_column") and ret != 0:
                raise sem.Inconclusive("returns %r" % (ret,))
            if heap.get(("s", so["num_elements"])) != 4:
                raise sem.Inconclusive("the call did not commit an element (num_elements %r)" % heap.get(("s", so["num_elements"])))
            zs = set()
            for zb, zl, zh in heap.get(("\0zeroed", 0), ()):
                if zb == "els":
                    zs |= set(range(zl, zh))
            stale = []
            for fl in flags:
                v = heap.get(("els", 3 * esz + eo[fl]))
                if v is None and (3 * esz + eo[fl]) in zs:
                    v = 0
                if fl not in stated and v not in (0, None) and not isinstance(v, type(None)):
                    stale.append(fl)
            n += 1
            ctx.ob("R5.agree", key, P.where(fn.body), what + " (%d presence flags examined)" % len(flags), not stale,
                   "" if not stale else "the committed element still says %s, which the call did not state" % ", ".join(stale[:5]))
        except (sem.Inconclusive, KeyError) as ex:
            ctx.inconclusive("R5.agree", key, P.where(fn.body), what, "%s: %s" % (type(ex).__name__, ex))
    return n
