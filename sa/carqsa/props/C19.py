"""C19 - allocation failure: clean error or correct result (R1 over the whole library)."""
from .. import callgraph
from ..rules import results as R
from ..rules import ownership
from ..rules.flow import find_path_avoiding, describe_path
from ..util import is_assign

EXPLANATION = (
    "Static decision of structural clauses of C19 over every function of the library (src/**): (R1.alloc) "
    "the result of every allocator call (malloc/calloc/realloc/strdup, arena allocators, "
    "carquet_buffer_advance) is NULL-tested on every CFG path before it is dereferenced, indexed or "
    "handed to a libc memory routine or to a callee that dereferences that parameter unconditionally "
    "(one-level callee summaries); (R1.status) the status returned by every callee that may allocate "
    "(transitively reaches an allocator in the call graph) is consumed on every path - returned, tested, "
    "passed on, stored in a longer-lived object, or stored in a local that is read before it is "
    "overwritten or the function exits (liveness on clang's CFG); (R1.sticky) a function that initialises "
    "a Thrift encoder/decoder tests its sticky error state before returning CARQUET_OK; (R2) resource "
    "pairing on error paths is decided by the ownership engine (see rules/ownership). (R1.fail) the "
    "branch taken when an allocator returned NULL leaves through an error signal - a failure constant, a "
    "cleanup jump, a failure stored in the status - and never returns CARQUET_OK/true/non-NULL nor the "
    "result of further work. (R1.atomic) a failed growth leaves the object as it was: before a realloc "
    "whose NULL branch reports failure, no count/capacity member (one the file uses as a bound in a "
    "comparison) of the object that owns the reallocated pointer is changed unless the failing branch "
    "restores it. R1.alloc accepts a NULL test made by a predicate helper the pointer is handed to, reads "
    "`*slot = malloc(..); if (!*slot)` as tested, and only reports feasible paths (branch outcomes about "
    "the sign of an unmodified local or the value of an unmodified lvalue must not contradict each "
    "other); R1.status accepts a status that is lost on a path which itself returns a failure constant. "
    "(6) a member released on a failure path is reset before the object is used or destroyed again (R27, library-wide: free/close/fclose/munmap or a function that frees its parameter, the member given directly or through a local copy that can still be current). (7) R1.sticky for objects that carry their own status member (the RLE encoder): after a void helper that can record a failure there, no constant success return is reached without reading the member. (7) carquet_column_read_batch executed with the page loader hooked to fail, in its peek form (whose result the batch reader discards) and as a real read: nothing is delivered and values_remaining is unchanged, so the failure surfaces at the next real read instead of becoming `column exhausted, success`. (8) carquet_page_writer_finalize executed on a page buffer that still holds 99 stale bytes (the state a failed attempt leaves behind): the page it emits is header plus body only, so a flush retried by close after an allocation failure does not append a second header behind the first (rule shared with C05). Decides these clauses; a NULL result that is tolerated rather than dereferenced is not decided.")

ALLOC_EXT = {"malloc", "calloc", "realloc", "strdup", "strndup", "aligned_alloc", "posix_memalign"}


def _sticky_members(ctx, fns):
    """R1.sticky for objects that carry their own `status` member (the RLE encoder, the Thrift encoder/decoder): a helper
    that can store a failure there has reported it nowhere else, so a status-returning function that called one on
    its object must not reach a constant success return without reading the member in between."""
    P = ctx.P
    byfile = {}
    for f in fns:
        byfile.setdefault(f.file, []).append(f)

    def status_param(f):
        out = []
        for i, p_ in enumerate(f.params):
            t = p_["t"].replace("const ", "").replace("*", "").strip()
            rec = P.records.get(t) or P.records.get(t[:-2] if t.endswith("_t") else t)
            if "*" in p_["t"] and rec and any(fl["n"] == "status" and "status" in fl["t"] for fl in rec["fields"]):
                out.append((i, p_["d"], rec["name"]))
        return out
    # setters: file-local (or any library) functions that store a non-success value into X->status of a parameter X
    setters = {}
    changed = True
    rounds = 0
    while changed and rounds < 5:
        changed = False
        rounds += 1
        for f in fns:
            for i, d, rec in status_param(f):
                if (f.name, i) in setters:
                    continue
                direct = any(is_assign(n) and n.c[0].strip().k == "MemberExpr" and n.c[0].strip().name == "status"
                             and n.c[0].strip().get("rec") == rec and n.c[1].cv != 0
                             and n.c[0].strip().c[0].strip_casts().k == "DeclRefExpr" and n.c[0].strip().c[0].strip_casts().get("d") == d
                             for n in f.body.walk())
                via = any(c.callee and any((g.name, ai) in setters for g in P.by_name.get(c.callee, []))
                          and a.strip_casts().k == "DeclRefExpr" and a.strip_casts().get("d") == d
                          for c in f.calls() for ai, a in enumerate(c.args()) if a is not None)
                if direct or via:
                    setters[(f.name, i)] = rec
                    changed = True
    n = 0
    for fn in fns:
        if fn.ret != "carquet_status_t" or fn.cfg is None:
            continue
        oks = [r for r in fn.returns() if r.c and r.c[0] is not None and r.c[0].cv == 0]
        if not oks:
            continue
        for i, d, rec in status_param(fn):
            def reads_status(e, d=d):
                return e.k == "MemberExpr" and e.name == "status" and e.c and e.c[0].strip_casts().k == "DeclRefExpr" and \
                    e.c[0].strip_casts().get("d") == d
            w = fn.cfg.where()
            for c in fn.calls():
                hit = [ai for ai, a in enumerate(c.args()) if a is not None and a.strip_casts().k == "DeclRefExpr"
                       and a.strip_casts().get("d") == d and any((g.name, ai) in setters for g in P.by_name.get(c.callee or "", []))]
                if not hit or c.i not in w:
                    continue
                if any(g.ret == "carquet_status_t" for g in P.by_name.get(c.callee or "", [])):
                    continue        # it reports through its result as well: dropped results are R1.status's business
                n += 1
                b, idx = w[c.i]
                path = find_path_avoiding(fn.cfg, reads_status, lambda e: e in oks, None, (b, idx + 1))
                key = "sticky-member|%s:%s|%s@%d" % (P.rel(fn.file), fn.name, c.callee, n)
                ctx.ob("R1.sticky", key, P.where(c),
                       "%s: after %s(), which can record a failure in the object's status member, no constant success return is reached "
                       "without reading that member" % (fn.name, c.callee), path is None,
                       "path: %s" % describe_path(fn, fn.cfg, path) if path else "")
    return n


def run(ctx):
    P = ctx.P
    ctx.clause("C19.R1 allocation results tested before use; allocating callees' statuses consumed; sticky codec status tested")
    ctx.clause("C19.R1.fail the NULL branch of every allocation test reports a failure (no success return, no continuing with further work)")
    ctx.clause("C19.R2 resources are released, handed over or returned exactly once on every path")
    fns = [f for f in P.lib_functions() if P.rel(f.file).startswith("src/")]
    cg = callgraph.get(P)
    may_alloc_keys = cg.reaches_external(ALLOC_EXT)
    may_alloc = set(k[1] for k in may_alloc_keys)
    statusf = R.status_functions(P)
    # int-returning codec wrappers are status-like too
    statusf |= {"carquet_gzip_compress", "carquet_gzip_decompress", "carquet_zstd_compress",
                "carquet_zstd_decompress"}
    summ = R.param_deref_summaries(P, fns)
    n1 = R.check_allocations(ctx, fns, "R1.alloc", summaries=summ)
    n2 = R.check_status_calls(ctx, fns, statusf & may_alloc, "R1.status")
    ctx.count("alloc_sites", n1)
    ctx.count("allocating_status_sites", n2)
    ctx.count("functions", len(fns))
    ctx.count("may_allocate_functions", len(may_alloc))
    ctx.floor("C19 allocator call sites", n1, 120)
    ctx.floor("C19 allocating status call sites", n2, 120)

    from ..rules import allocfail
    nf = allocfail.check(ctx, fns)
    ctx.clause("C19.8 a page finalize retried after a failure starts from an empty page buffer (what the failed attempt left is not part of the page)")
    ctx.floor("C19 writer configurations through a retried finalize", _retried_finalize(ctx), 24)
    ctx.clause("C19.7 a page load that fails inside carquet_column_read_batch (peek or read) delivers nothing and leaves the count of undelivered values unchanged")
    ctx.floor("C19 failed-load call forms", _failed_load_keeps_rows(ctx), 3)
    ctx.clause("C19.6 a member released on a failure path is reset before the object is used or destroyed again (rule shared with C07.5)")
    from ..rules import stalefield
    ctx.count("member_release_sites", stalefield.check(ctx, [f for f in P.lib_functions() if P.rel(f.file).startswith("src/")]))
    ctx.clause("C19.5 a failed growth leaves counts and capacities unchanged (the object never claims room it does not have)")
    na = allocfail.check_atomic(ctx, fns)
    ctx.floor("C19 growth sites with a failure exit", na, 12)
    ctx.count("allocation_null_branches", nf)
    ctx.floor("C19 allocation NULL branches", nf, 100)

    n3 = ownership.check(ctx, fns, "R2", "own")
    ctx.count("acquisition_sites", n3)
    ctx.floor("C19 acquisition sites", n3, 110)

    # sticky codec state
    ns = 0
    for fn in fns:
        for init, tests, field in (("thrift_encoder_init", {"thrift_encoder_has_error"}, "status"),
                                   ("thrift_decoder_init", {"thrift_decoder_has_error"}, "status")):
            for call in fn.calls(init):
                ns += 1
                obj = call.args()[0].strip_casts()
                if obj.k == "UnaryOperator" and obj.op == "&":
                    obj = obj.c[0].strip_casts()
                name = obj.name if obj.k == "DeclRefExpr" else None

                def is_test(e):
                    if e.k == "CallExpr" and e.callee in tests:
                        return True
                    if e.k == "MemberExpr" and e.name == field and e.c and \
                            e.c[0].strip_casts().k == "DeclRefExpr" and e.c[0].strip_casts().name == name:
                        return True
                    return False
                oks = [r for r in fn.returns() if r.c and r.c[0] is not None and r.c[0].cv == 0
                       and fn.ret == "carquet_status_t"]
                key = "sticky|%s:%s|%s" % (P.rel(fn.file), fn.name, init)
                if not oks:
                    ctx.ok("R1.sticky", key, P.where(call), "no constant success return after %s" % init,
                           nontrivial=False)
                    continue
                w = fn.cfg.where()
                if call.i not in w:
                    ctx.inconclusive("R1.sticky", key, P.where(call), "init call not in CFG")
                    continue
                b, idx = w[call.i]
                path = find_path_avoiding(fn.cfg, is_test, lambda e: e in oks, None, (b, idx + 1))
                ctx.ob("R1.sticky", key, P.where(call),
                       "%s: the sticky error state of the codec initialised by %s is tested before "
                       "CARQUET_OK is returned" % (fn.name, init), path is None,
                       "path: %s" % describe_path(fn, fn.cfg, path) if path else "")
    ctx.floor("C19 sticky codec initialisations", ns, 6)
    nsm = _sticky_members(ctx, fns)
    ctx.floor("C19 calls that may set a sticky status member", nsm, 4)


def _failed_load_keeps_rows(ctx, fail_name="CARQUET_ERROR_OUT_OF_MEMORY", rule="R1.fail-state", key_prefix="failed-load"):
    """carquet_column_read_batch with the page loader hooked to fail (as it does when an allocation inside it fails), for the
    peek form (max_values = 0, whose result the batch reader discards) and for a real read: the call reports nothing read or an
    error, and the reader still counts the rows as undelivered - a failure that marked them consumed would let the next call
    report success with the rows missing."""
    from ..rules import sem
    from ..rules.skeleton import Ptr
    from ..extract import AnalysisBroken
    P = ctx.P
    CR = "src/reader/column_reader.c"
    fn = P.fn_opt("carquet_column_read_batch", CR)
    if fn is None:
        raise AnalysisBroken("anchor function carquet_column_read_batch in %s not found" % CR)
    key = "%s|%s:carquet_column_read_batch" % (key_prefix, CR)
    what = ("when the page load inside carquet_column_read_batch fails, the call delivers only what earlier pages of the same call delivered (nothing on a peek or "
            "a first page) and the reader's count of undelivered values drops by exactly that")
    try:
        cro = sem.field_offsets(P, "carquet_column_reader")
        phys = P.enum("carquet_physical_type")
        status = P.enum("carquet_status") if "carquet_status" in P.enums else {}
        fail_status = status.get(fail_name, 2)
        bad, done = None, 0
        for label, maxv, first_ok in (("peek (max_values = 0)", 0, 0), ("read of up to 10 values", 10, 0),
                                      ("read of up to 10 values whose first page delivers 4 before the next load fails", 10, 4)):
            heap0 = {}
            rec = P.record("carquet_column_reader")
            for f in rec["fields"]:
                t = (f.get("t") or "")
                if f.get("off") is not None and "[" not in t and "struct" not in t:
                    heap0[("cr", f["off"] // 8)] = 0
            heap0[("cr", cro["values_remaining"])] = 100
            heap0[("cr", cro["type"])] = phys["CARQUET_PHYSICAL_INT32"]
            calls = []

            def load(ev, a, it, calls=calls, first_ok=first_ok):
                calls.append(1)
                if first_ok and len(calls) == 1:
                    # the page reader as it behaves on success: it delivers first_ok values and counts them off
                    left_ = it.heap.get(("cr", cro["values_remaining"]))
                    it.heap[("cr", cro["values_remaining"])] = left_ - first_ok if isinstance(left_, int) else left_
                    sem.set_out(it, a[5], first_ok)
                    return 0
                return fail_status
            ret, ev, heap = sem.run(P, fn, [Ptr("cr", 0, 1), Ptr("vals", 0, 4), maxv, 0, 0], heap0=heap0, single=True, max_forks=16, budget=200000, inline_depth=3,
                                    hooks={"carquet_read_next_page": load, "carquet_error_set": lambda ev, a, it: None, "snprintf": lambda ev, a, it: 0})
            done += 1
            if not calls:
                raise sem.Inconclusive("%s: the page loader is not reached" % label)
            left = heap.get(("cr", cro["values_remaining"]))
            if not isinstance(ret, int) or not isinstance(left, int):
                raise sem.Inconclusive("%s: returns %r, values_remaining %r" % (label, ret, left))
            if bad is None and ((ret > first_ok) or left != 100 - first_ok):
                bad = "%s: returns %d and leaves %d of 100 values to deliver%s" % (label, ret, left, " - the column now looks exhausted and the failure is never reported" if left == 0 else "")
        ctx.ob(rule, key, P.where(fn.body), what + " (%d call forms)" % done, bad is None, bad or "")
        return done
    except (sem.Inconclusive, KeyError) as ex:
        ctx.inconclusive(rule, key, P.where(fn.body), what, "%s: %s" % (type(ex).__name__, ex))
        return 0


def _retried_finalize(ctx):
    """A finalize that failed half-way (its header already in the page buffer, the body's allocation refused) is retried by the
    next flush or by close: the retry must start from an empty page buffer. Shared with C05: carquet_page_writer_finalize
    executed over 48 writer configurations on a page buffer that still holds bytes of an earlier attempt."""
    from ..rules import sem
    from . import C05
    P = ctx.P
    fin = P.fn("carquet_page_writer_finalize", C05.PW)
    key = "retry-finalize|%s:carquet_page_writer_finalize" % C05.PW
    what = "a finalize started on a page buffer that still holds bytes of an earlier (failed) attempt emits the header and the body only"
    try:
        verdicts, nconf = C05.finaliser_verdicts(P)
        v = verdicts.get("page-bytes")
        ctx.ob("R1.fail-state", key, P.where(fin.body), what + " (%d writer configurations)" % nconf, v is None, v or "")
        return nconf
    except (sem.Inconclusive, KeyError) as ex:
        ctx.inconclusive("R1.fail-state", key, P.where(fin.body), what, "%s: %s" % (type(ex).__name__, ex))
        return 0
