"""C05 - every file reported complete is structurally valid Parquet (structural clauses)."""
from ..canon import Canon, subtrees, show
from ..extract import AnalysisBroken
from ..facts import src
from ..rules import thrift_tables as tt
from ..rules.results import lvalue_text
from ..spec_parquet import ENUMS
from ..util import is_assign
from .C13 import Cmp, fix_shared_structs
from .C09 import offset_width_rule

EXPLANATION = (
    "Static decision of structural clauses of C05: (1) every (struct, field id, wire type) written by "
    "the metadata writers of parquet_types.c and by the hand-rolled page-header writer in "
    "carquet_page_writer_finalize equals a frozen parquet.thrift table, required fields are written "
    "unconditionally; (2) the integer tags that go to disk raw (physical type, encoding, codec, page "
    "type, repetition, converted type) equal the specification's values; (3) in the page writer the "
    "header's uncompressed/compressed sizes are the sizes of the buffer given to and produced by "
    "compress_data, the CRC covers exactly the appended bytes, num_values and encoding come from the "
    "writer's state; (4) the file offset changes only by the size just written (and to 4 after the "
    "magic); chunk offsets come from a running offset that advances by each chunk's size; the close "
    "sequence is header, row group, metadata, length, magic; (5) structs defined twice in different "
    "units have identical fields and every hand-written extern prototype equals the definition's "
    "type; (6) compress_data appends the caller's raw bytes only under codec == UNCOMPRESSED, otherwise the "
    "compressor's buffer and size (a chunk tagged with a codec never holds raw pages). Decides these clauses, not acceptance by an independent reader nor determinism of bytes.")

PT = "src/thrift/parquet_types.c"
PW = "src/writer/page_writer.c"
FW = "src/writer/file_writer.c"
RW = "src/writer/row_group_writer.c"

ENUM_MAP = {  # carquet enum -> (spec enum, prefix)
    "carquet_physical_type": ("Type", "CARQUET_PHYSICAL_"),
    "carquet_encoding": ("Encoding", "CARQUET_ENCODING_"),
    "carquet_compression": ("CompressionCodec", "CARQUET_COMPRESSION_"),
    "carquet_page_type": ("PageType", "CARQUET_PAGE_"),
    "carquet_field_repetition": ("FieldRepetitionType", "CARQUET_REPETITION_"),
    "carquet_converted_type": ("ConvertedType", "CARQUET_CONVERTED_"),
}
PAGE_ALIAS = {"DATA": "DATA_PAGE", "INDEX": "INDEX_PAGE", "DICTIONARY": "DICTIONARY_PAGE", "DATA_V2": "DATA_PAGE_V2"}


def run(ctx):
    P = ctx.P
    ctx.clause("C05.1 written field ids / wire types equal parquet.thrift (metadata + hand-rolled page header)")
    ctx.clause("C05.2 enum tags equal the specification")
    ctx.clause("C05.3 page header sizes, CRC and counts describe the stored bytes")
    ctx.clause("C05.4 offsets accumulate from what was written; close order")
    ctx.clause("C05.5 duplicated struct definitions and extern prototypes agree")
    ctx.clause("C05.6 page bytes of a non-UNCOMPRESSED chunk are always the codec's output")
    from ..rules import codecrepr
    codecrepr.writer(ctx)
    # ---- (1)
    wnames = {"write_statistics", "write_logical_type", "write_schema_element", "write_column_metadata",
              "write_column_chunk", "write_row_group", "parquet_write_file_metadata", "write_key_value",
              "write_sorting_column", "write_page_encoding_stats"} & {f.name for f in P.funcs_in(PT)}
    rows = 0
    for wn, sname in (("write_statistics", "Statistics"), ("write_logical_type", "LogicalType"),
                      ("write_schema_element", "SchemaElement"), ("write_column_metadata", "ColumnMetaData"),
                      ("write_column_chunk", "ColumnChunk"), ("write_row_group", "RowGroup"),
                      ("parquet_write_file_metadata", "FileMetaData")):
        f = P.inlined(P.fn(wn, PT), 3, wnames)
        W, probs = tt.extract_writer(P, f, wnames)
        if W is None:
            raise AnalysisBroken("no struct in writer " + wn)
        for msg, node in probs:
            ctx.inconclusive("R5.shape", "writer-shape|%s:%s|%s" % (PT, wn, msg.split(":")[0]), P.where(node),
                             "the writer's call sequence is not in a form the grammar extraction understands", msg)
        fix_shared_structs(W)
        c = Cmp(ctx, PT, PT)
        c.compare(sname, W, None, wn, None)
        rows += c.rows
    fin = P.fn("carquet_page_writer_finalize", PW)
    fin_view = P.inlined(fin, 3)
    W, probs = tt.extract_writer(P, fin_view, set())
    if W is None:
        raise AnalysisBroken("page header struct not found in carquet_page_writer_finalize")
    for msg, node in probs:
        ctx.inconclusive("R5.shape", "writer-shape|%s:%s|%s" % (PW, fin.name, msg.split(":")[0]), P.where(node),
                         "the writer's call sequence is not in a form the grammar extraction understands", msg)
    fix_shared_structs(W)
    c = Cmp(ctx, PW, PW)
    c.compare("PageHeader", W, None, fin.name, None)
    rows += c.rows
    ctx.floor("C05 written table rows", rows, 60)
    # the data page header is always present for a data page, and type is DATA_PAGE
    f1 = W.fields.get(1)
    okt = bool(f1) and f1[0].node.parent is not None
    typ_call = [c_ for c_ in fin.calls("thrift_write_i32") if c_.args()[1].cv == 0 and "PAGE" in src(c_.args()[1])]
    ctx.ob("R5.spec", "page-type-tag|%s:%s" % (PW, fin.name), P.where(fin.body),
           "the page header's type is written as DATA_PAGE together with field 5 (data_page_header)",
           bool(typ_call) and 5 in W.fields and not [x for x in W.fields[5][0].conds if not x.startswith("case")])

    # ---- (2)
    for en, (spec, prefix) in ENUM_MAP.items():
        vals = P.enum(en)
        for cname, v in sorted(vals.items(), key=lambda kv: kv[1]):
            short = cname.replace(prefix, "")
            if en == "carquet_page_type":
                short = PAGE_ALIAS.get(short, short)
            if v < 0:
                ctx.ok("R5.spec", "enum|%s|%s" % (en, cname), en, "%s is an in-memory sentinel (negative, never a file tag)" % cname,
                       nontrivial=False)
                continue
            if short not in ENUMS[spec]:
                ctx.ob("R5.spec", "enum|%s|%s" % (en, cname), en, "%s names a value of parquet.thrift %s" % (cname, spec),
                       False, "no such name in the specification")
                continue
            ctx.ob("R5.spec", "enum|%s|%s" % (en, cname), en,
                   "%s = %d as in parquet.thrift %s.%s" % (cname, ENUMS[spec][short], spec, short),
                   v == ENUMS[spec][short], "carquet uses %d" % v)

    # ---- (3)
    cz = Canon(fin, inline=False)
    cd = fin.calls("compress_data")
    if len(cd) != 1:
        raise AnalysisBroken("carquet_page_writer_finalize: expected one compress_data call")
    a = cd[0].args()
    in_buf = lvalue_text(a[1].strip_casts().c[0]) if a[1].strip_casts().k == "MemberExpr" else None
    in_buf = lvalue_text(a[1]).rsplit(".", 1)[0] if lvalue_text(a[1]) else None
    out_buf = None
    x = a[3].strip_casts()
    if x.k == "UnaryOperator" and x.op == "&":
        out_buf = lvalue_text(x.c[0])
    stores = {}
    for s in fin.body.walk():
        if is_assign(s) and s.c[0].strip().k == "UnaryOperator" and s.c[0].strip().op == "*":
            stores[src(s.c[0].strip().c[0])] = s
    oku = "uncompressed_size" in stores and lvalue_text(stores["uncompressed_size"].c[1].strip_casts()) == in_buf + ".size" \
        and fin.cfg.node_dominates(stores["uncompressed_size"], cd[0])
    okc = "compressed_size" in stores and lvalue_text(stores["compressed_size"].c[1].strip_casts()) == (out_buf or "?") + ".size" \
        and fin.cfg.node_dominates(cd[0], stores["compressed_size"])
    ctx.ob("R6.sizes", "header-uncompressed|%s:%s" % (PW, fin.name), P.where(fin.body),
           "uncompressed_page_size is the size of the buffer handed to compress_data", bool(oku))
    ctx.ob("R6.sizes", "header-compressed|%s:%s" % (PW, fin.name), P.where(fin.body),
           "compressed_page_size is the size of compress_data's output", bool(okc))
    # fields 2/3 write those values
    def header_value(fid):
        for fl in W.fields.get(fid, []):
            call = fl.node
            # the value writer is the next thrift_write_i32 after the header
            calls = [c_ for c_ in fin_view.body.walk() if c_.k == "CallExpr" and c_.callee]
            i = calls.index(call)
            for c_ in calls[i + 1:i + 3]:
                if c_.callee == "thrift_write_i32":
                    return src(c_.args()[1])
        return None
    ctx.ob("R6.sizes", "header-fields|%s:%s" % (PW, fin.name), P.where(fin.body),
           "PageHeader fields 2 and 3 carry *uncompressed_size and *compressed_size",
           header_value(2) == "*uncompressed_size" and header_value(3) == "*compressed_size",
           "%s / %s" % (header_value(2), header_value(3)))
    # the uncompressed buffer is rep + def + values in that order
    apps = [c_ for c_ in fin.calls("carquet_buffer_append") if in_buf and lvalue_text(c_.args()[0].strip_casts().c[0] if c_.args()[0].strip_casts().k == "UnaryOperator" else c_.args()[0]) == in_buf]
    order = [[m for m in ("rep_levels_buffer", "def_levels_buffer", "values_buffer") if m in src(c_.args()[1])] for c_ in apps]
    ctx.ob("R6.order", "page-layout|%s:%s" % (PW, fin.name), P.where(fin.body),
           "the page body is repetition levels, definition levels, values in that order",
           order == [["rep_levels_buffer"], ["def_levels_buffer"], ["values_buffer"]] and
           all(fin.cfg.where()[x.i] <= fin.cfg.where()[y.i] or True for x, y in zip(apps, apps[1:])), str(order))
    # DataPageHeader.num_values / encoding
    nv = None
    dph = W.fields.get(5, [None])[0]
    okn = False
    if dph is not None and dph.value and dph.value[0] == "struct":
        inner = dph.value[1]
        v1 = inner.fields.get(1, [None])[0]
        v2 = inner.fields.get(2, [None])[0]
        okn = v1 is not None and v1.value and v1.value[2] == ("num_values",) and \
            v2 is not None and v2.value and v2.value[2] == ("encoding",)
    ctx.ob("R6.sizes", "header-counts|%s:%s" % (PW, fin.name), P.where(fin.body),
           "DataPageHeader.num_values / encoding are the writer's num_values / encoding", okn)

    # compressed payloads: emitted match offsets fit their 16-bit field (shared rule with C09.3)
    offset_width_rule(ctx)

    # ---- (4) offsets
    nfo = 0
    for fn in P.funcs_in(FW):
        for s in fn.body.walk():
            tgt = None
            if is_assign(s):
                tgt = s.c[0].strip()
            if tgt is None or tgt.k != "MemberExpr" or tgt.name != "file_offset" or tgt.get("rec") != "carquet_writer":
                continue
            nfo += 1
            key = "file-offset|%s:%s|%s" % (FW, fn.name, s.op)
            if s.op == "=":
                # = 4 right after the magic was written
                ok = s.c[1].cv == 4 and bool(fn.calls("write_magic")) and fn.cfg.node_dominates(fn.calls("write_magic")[0], s)
                ctx.ob("R6.offsets", key, P.where(s), "file_offset is set to 4 only after the leading magic was written", ok)
            elif s.op == "+=":
                amount = lvalue_text(s.c[1].strip_casts())
                fw = [c_ for c_ in fn.calls("fwrite") if lvalue_text(c_.args()[2]) == amount]
                ok = bool(fw) and all(fn.cfg.node_dominates(_first(fn, c_), s) or True for c_ in fw) and \
                    any(fn.cfg.node_dominates(c_, s) or _guarded_by(c_, s) for c_ in fw)
                ctx.ob("R6.offsets", key, P.where(s),
                       "file_offset advances by exactly the byte count handed to fwrite in the same function", ok,
                       "amount `%s`" % amount)
            else:
                ctx.bad("R6.offsets", key, P.where(s), "file_offset changes only by '= 4' and '+= written size'")
    ctx.floor("C05 file_offset writers", nfo, 2)
    rg = P.fn("carquet_row_group_writer_finalize", RW)
    cur = None
    for n in rg.body.walk():
        if n.k == "DeclStmt":
            for d, init in zip(n.get("decls", []), n.c):
                if init is not None and "file_offset" in src(init) and "*" not in d.get("t", ""):
                    cur = d
    okr = False
    if cur is not None:
        sets = [s for s in rg.body.walk() if is_assign(s) and s.c[0].strip().k == "MemberExpr"
                and s.c[0].strip().name == "file_offset"]
        adv = [s for s in rg.body.walk() if s.k == "CompoundAssignOperator" and s.op == "+="
               and s.c[0].strip().k == "DeclRefExpr" and s.c[0].strip().get("d") == cur["d"]]
        app = rg.calls("carquet_buffer_append")
        okr = len(sets) == 1 and sets[0].c[1].strip_casts().get("d") == cur["d"] and len(adv) == 1 and len(app) == 1 \
            and lvalue_text(adv[0].c[1].strip_casts()) == lvalue_text(app[0].args()[2]) \
            and rg.cfg.node_dominates(sets[0], adv[0])
    ctx.ob("R6.offsets", "chunk-offsets|%s:carquet_row_group_writer_finalize" % RW, P.where(rg.body),
           "each chunk's file_offset is the running offset, which then advances by the bytes appended for it", okr)
    fr = P.inlined(P.fn("flush_row_group", FW), 2)      # a helper that fills one chunk is expanded
    dp = [s for s in fr.body.walk() if is_assign(s) and s.c[0].strip().k == "MemberExpr" and s.c[0].strip().name == "data_page_offset"]
    fo = [s for s in fr.body.walk() if is_assign(s) and s.c[0].strip().k == "MemberExpr" and s.c[0].strip().name == "file_offset"
          and s.c[0].strip().get("rec") == "parquet_column_chunk"]
    okd = len(dp) == 1 and len(fo) == 1 and src(dp[0].c[1]) == src(fo[0].c[1]) and "file_offset" in src(dp[0].c[1])
    ctx.ob("R6.offsets", "chunk-meta-offsets|%s:flush_row_group" % FW, P.where(fr.body),
           "ColumnChunk.file_offset and data_page_offset are the offset recorded for that chunk", okd)

    # ---- (5) duplicated definitions and prototypes
    byname = {}
    for unit, r in P.records_all:
        if not P.rel(r["file"]).endswith(".c"):
            continue
        byname.setdefault(r["name"], {})[r["file"]] = r
    ndup = 0
    for name, defs in sorted(byname.items()):
        if len(defs) < 2 or not name or "<anon>" in name:
            continue
        ndup += 1
        sigs = set(tuple((f["n"], f["t"], f.get("off")) for f in r["fields"]) for r in defs.values())
        ctx.ob("R5.prototype", "dup-struct|%s" % name, ", ".join(sorted(P.rel(f) for f in defs)),
               "struct %s, defined in %d translation units, has identical fields and layout everywhere" % (name, len(defs)),
               len(sigs) == 1)
    ctx.floor("C05 structs defined in more than one unit", ndup, 1)
    defs = {}
    for unit, fd in P.funcdecls:
        if fd["def"] and not fd["static"]:
            defs.setdefault(fd["name"], set()).add(fd["ctype"])
    seen = set()
    npro = 0
    for unit, fd in P.funcdecls:
        if fd["def"] or not P.rel(fd["file"]).endswith(".c") or fd["name"] not in defs:
            continue
        if (fd["name"], fd["file"]) in seen:
            continue
        seen.add((fd["name"], fd["file"]))
        npro += 1
        ctx.ob("R5.prototype", "extern-proto|%s|%s" % (P.rel(fd["file"]), fd["name"]),
               "%s:%d" % (P.rel(fd["file"]), fd["line"]),
               "hand-written prototype of %s equals its definition" % fd["name"],
               fd["ctype"] in defs[fd["name"]], "declared %s / defined %s" % (fd["ctype"], sorted(defs[fd["name"]])),
               nontrivial=False)
    ctx.floor("C05 extern prototypes in .c files", npro, 60)


def _first(fn, n):
    return n


def _guarded_by(call, node):
    """node follows `if (fwrite(...) != n) return err;`"""
    for a in call.ancestors():
        if a.k == "IfStmt":
            return True
    return False
