"""C05 - every file reported complete is structurally valid Parquet (structural clauses)."""
from ..canon import Canon, subtrees, show
from ..extract import AnalysisBroken
from ..facts import src
from ..rules import thrift_tables as tt
from ..rules.results import lvalue_text
from ..spec_parquet import ENUMS
from ..util import is_assign
from .C13 import Cmp, fix_shared_structs
from .C09 import offset_width_rule

EXPLANATION = (
    "Static decision of structural clauses of C05: (1) every (struct, field id, wire type) written by the "
    "metadata writers of parquet_types.c and by the page-header writer equals a frozen parquet.thrift "
    "table, required fields are written unconditionally; (2) the integer tags that go to disk raw equal "
    "the specification's values; (3) carquet_page_writer_finalize, executed abstractly over 48 writer "
    "configurations (level streams present or not, CRC on/off, statistics on/off, UNCOMPRESSED / SNAPPY; "
    "buffers, the Thrift encoder, the CRC and the codec hooked): the body is rep, def, values in that "
    "order, *uncompressed_size / field 2 are the body bytes, *compressed_size / field 3 are what the "
    "codec produced, field 4 is the CRC of exactly the stored payload and is written iff CRC is on, the "
    "type field is DATA_PAGE with field 5 present, num_values and encoding are the writer's, and the page "
    "buffer is cleared, receives the header, then exactly the codec's output; the lazily built CRC tables "
    "are built before every read of them; (4) offsets: the writer's file_offset changes only to 4 after "
    "the magic and by the byte count handed to fwrite (directly or through a write helper); "
    "carquet_row_group_writer_finalize executed for 1..3 columns records for chunk i the running offset "
    "and its appended size; flush_row_group executed for 1..3 chunks copies offset, sizes, counts, type "
    "and codec of each chunk into its ColumnChunk, sets data_page_offset to the same offset, starts the "
    "row group at the file offset and advances it by the bytes written; (5) structs defined twice in "
    "different units have identical fields and every hand-written extern prototype equals the "
    "definition's type; (6) compress_data appends the caller's raw bytes only under codec == "
    "UNCOMPRESSED; emitted match offsets fit their 16-bit field; (7) determinism, structural part: in "
    "the functions reachable from the carquet_writer_* entry points (call graph, dispatch slots resolved) "
    "every mutable static local is overwritten before it is read in each call, every mutable file-scope "
    "variable used is thread-local or a lazily built call-independent table, and nothing consults the "
    "clock, the process or a random source. (9) every LogicalType member is written under the specification's union field id and its parameters parse back (write_logical_type executed per member and per parameter combination; the root probe cannot reach a union). (10) carquet_column_writer_create, executed for every physical type x codec with the page-writer constructor hooked, hands on exactly the type, encoding and codec it was given, and carquet_page_writer_create stores them: the pages of a chunk are produced with the codec the row-group writer records in ColumnMetaData.codec, for every column type. Decides these clauses, not acceptance by an independent reader "
    "nor byte equality of two runs (allocator addresses and library codecs are outside the rule).")

PT = "src/thrift/parquet_types.c"
PW = "src/writer/page_writer.c"
FW = "src/writer/file_writer.c"
RW = "src/writer/row_group_writer.c"

ENUM_MAP = {  # carquet enum -> (spec enum, prefix)
    "carquet_physical_type": ("Type", "CARQUET_PHYSICAL_"),
    "carquet_encoding": ("Encoding", "CARQUET_ENCODING_"),
    "carquet_compression": ("CompressionCodec", "CARQUET_COMPRESSION_"),
    "carquet_page_type": ("PageType", "CARQUET_PAGE_"),
    "carquet_field_repetition": ("FieldRepetitionType", "CARQUET_REPETITION_"),
    "carquet_converted_type": ("ConvertedType", "CARQUET_CONVERTED_"),
}
PAGE_ALIAS = {"DATA": "DATA_PAGE", "INDEX": "INDEX_PAGE", "DICTIONARY": "DICTIONARY_PAGE", "DATA_V2": "DATA_PAGE_V2"}


def finaliser_verdicts(P):
    """({clause: None | first failing configuration}, configurations) for carquet_page_writer_finalize, from the
    semantic trace of rules/pagefin.py (raises sem.Inconclusive when a configuration cannot be executed)."""
    fin = P.fn("carquet_page_writer_finalize", PW)
    from ..rules import pagefin
    S = pagefin.SIZES
    page_data_tag = P.enum("carquet_page_type").get("CARQUET_PAGE_DATA")
    verdicts = {k: None for k in ("page-type-tag", "page-layout", "header-uncompressed", "header-compressed",
                                  "header-fields", "header-counts", "header-crc", "page-bytes")}
    nconf = 0

    def fail(k, msg):
        if verdicts[k] is None:
            verdicts[k] = msg
    for crc in (False, True):
        for stats, minmax in ((False, False), (True, False), (True, True), (False, True)):
            for rep, deff in ((True, True), (False, True), (False, False)):
                for codec in (0, P.enum("carquet_compression")["CARQUET_COMPRESSION_SNAPPY"]):
                    T = pagefin.trace(P, crc=crc, stats=stats, minmax=minmax, rep=rep, deff=deff, codec=codec)
                    nconf += 1
                    cfg_ = "crc=%d stats=%d minmax=%d rep=%d def=%d codec=%d" % (crc, stats, minmax, rep, deff, codec)
                    if T.ret != 0:
                        fail("page-bytes", "%s: returns %s" % (cfg_, T.ret))
                        continue
                    want = [(t_, S[t_]) for t_, on in (("rep", rep), ("def", deff), ("val", True)) if on]
                    total = sum(n_ for _, n_ in want)
                    body = [e for e in T.events if e[0] == "append" and isinstance(e[2], tuple) and e[2][0] in S]
                    if [(e[2][0], e[3]) for e in body] != want or len(set(e[1] for e in body)) != 1:
                        fail("page-layout", "%s: body appends %s" % (cfg_, [(e[1], e[2][0], e[3]) for e in body]))
                        continue
                    ubuf = body[0][1]
                    udata = ("data@%s+%s" % ubuf, 0)
                    csize = pagefin.COMPRESSED if codec else total
                    if T.outs["usize"] != total:
                        fail("header-uncompressed", "%s: *uncompressed_size = %s, body holds %d bytes" % (cfg_, T.outs["usize"], total))
                    f2, f3 = T.field(1, 2), T.field(1, 3)
                    if not f2 or f2[1] != ("thrift_write_i32", total) or not f3 or f3[1] != ("thrift_write_i32", csize):
                        fail("header-fields", "%s: fields 2/3 carry %s / %s, expected %d / %d" % (cfg_, f2, f3, total, csize))
                    if T.outs["csize"] != csize:
                        fail("header-compressed", "%s: *compressed_size = %s, codec produced %d" % (cfg_, T.outs["csize"], csize))
                    if codec:
                        cd_ = [e for e in T.events if e[0] == "codec"]
                        if cd_ != [("codec", udata, total)]:
                            fail("page-bytes", "%s: codec input %s, expected the %d body bytes" % (cfg_, cd_, total))
                        cap = [e for e in T.events if e[0] == "append" and e[2] == ("scratch", 0)]
                    else:
                        cap = [e for e in T.events if e[0] == "append" and e[2] == udata]
                    if len(cap) != 1 or cap[0][3] != csize:
                        fail("page-bytes", "%s: the codec result is appended %s" % (cfg_, cap))
                        continue
                    cdata = ("data@%s+%s" % cap[0][1], 0)
                    last = T.events[max(i for i, e in enumerate(T.events) if e[0] == "append")]
                    thr = [i for i, e in enumerate(T.events) if e[0].startswith("thrift_write")]
                    if last[1] != T.outs["page_buffer"] or last[2] != cdata or last[3] != csize or \
                            T.events.index(last) < max(thr, default=0) or \
                            ("enc-init", T.outs["page_buffer"]) not in T.events or \
                            ("clear", T.outs["page_buffer"]) not in T.events or \
                            T.events.index(("clear", T.outs["page_buffer"])) > T.events.index(("enc-init", T.outs["page_buffer"])):
                        fail("page-bytes", "%s: the page buffer is not cleared, given the header, then the %d payload bytes: %s"
                             % (cfg_, csize, [e for e in T.events if not e[0].startswith("thrift_write")]))
                    f4 = T.field(1, 4)
                    if crc:
                        # the ranges folded into the value field 4 carries, each spelled as the sources it holds:
                        # the stored payload (= the body sections in order when no codec ran) or a section buffer
                        chain = pagefin.crc_chain(T, f4[1][1]) if f4 else None
                        stored = want if not codec else [("compressed", csize)]
                        got = []
                        for b_, n_ in (chain or []):
                            if b_ in (cdata, udata) and not codec and n_ == total:
                                got += want
                            elif b_ == cdata and codec and n_ == csize:
                                got.append(("compressed", csize))
                            elif isinstance(b_, tuple) and b_[0] in S and b_[1] == 0:
                                got.append((b_[0], n_))
                            else:
                                got.append(("?%s" % (b_,), n_))
                        if chain is None:
                            fail("header-crc", "%s: field 4 is %s, not a value the CRC routines returned" % (cfg_, f4))
                        elif got != stored:
                            fail("header-crc", "%s: field 4 is the CRC of %s, the stored payload is %s" % (cfg_, got, stored))
                    if not crc and f4 is not None:
                        fail("header-crc", "%s: field 4 written with CRC disabled" % cfg_)
                    f1, f5 = T.field(1, 1), T.field(1, 5)
                    if not f1 or f1[1] != ("thrift_write_i32", page_data_tag) or not f5 or f5[1] != ("struct",):
                        fail("page-type-tag", "%s: type field %s, data_page_header %s" % (cfg_, f1, f5))
                    n1, n2 = T.field(2, 1), T.field(2, 2)
                    if not n1 or n1[1][1:] != (321,) or not n2 or n2[1][1:] != (8,):
                        fail("header-counts", "%s: num_values %s encoding %s" % (cfg_, n1, n2))
    return verdicts, nconf


def _run(ctx):
    P = ctx.P
    ctx.clause("C05.1 written field ids / wire types equal parquet.thrift (metadata + hand-rolled page header)")
    ctx.clause("C05.2 enum tags equal the specification")
    ctx.clause("C05.3 page header sizes, CRC and counts describe the stored bytes")
    ctx.clause("C05.4 offsets accumulate from what was written; close order")
    ctx.clause("C05.5 duplicated struct definitions and extern prototypes agree")
    ctx.clause("C05.6 page bytes of a non-UNCOMPRESSED chunk are always the codec's output")
    ctx.clause("C05.10 the codec and encoding a column's pages are produced with are the ones its writer was created with - the value the chunk metadata records (every type x codec)")
    ctx.floor("C05 type x codec combinations through the writer constructors", _codec_passthrough(ctx), 60)
    ctx.clause("C05.7 no state is carried from one writer call to the next (static locals, globals, clock/entropy)")
    from ..rules import hidden
    from .. import callgraph
    cg = callgraph.get(P)
    wroots = set(f.key() for f in P.functions.values() if f.name.startswith("carquet_writer_") and not f.static)
    wreach = [P.functions[k] for k in sorted(cg.reachable(wroots))]
    ctx.floor("C05 functions reachable from the writer entry points", len(wreach), 90)
    ndecl, nglob, ncall = hidden.check(ctx, wreach, sorted(set(P.rel(f.file) for f in wreach)))
    ctx.floor("C05 local declarations examined for static storage", ndecl, 300)
    ctx.floor("C05 calls examined for clock/entropy sources", ncall, 400)
    from ..rules import codecrepr
    codecrepr.writer(ctx)
    # ---- (1)
    wnames = {"write_statistics", "write_logical_type", "write_schema_element", "write_column_metadata",
              "write_column_chunk", "write_row_group", "parquet_write_file_metadata", "write_key_value",
              "write_sorting_column", "write_page_encoding_stats"} & {f.name for f in P.funcs_in(PT)}
    rows = 0
    for wn, sname in (("write_statistics", "Statistics"), ("write_logical_type", "LogicalType"),
                      ("write_schema_element", "SchemaElement"), ("write_column_metadata", "ColumnMetaData"),
                      ("write_column_chunk", "ColumnChunk"), ("write_row_group", "RowGroup"),
                      ("parquet_write_file_metadata", "FileMetaData")):
        f = P.inlined(P.fn(wn, PT), 3, wnames)
        W, probs = tt.extract_writer(P, f, wnames)
        if W is None:
            raise AnalysisBroken("no struct in writer " + wn)
        for msg, node in probs:
            ctx.inconclusive("R5.shape", "writer-shape|%s:%s|%s" % (PT, wn, msg.split(":")[0]), P.where(node),
                             "the writer's call sequence is not in a form the grammar extraction understands", msg)
        fix_shared_structs(W)
        c = Cmp(ctx, PT, PT)
        c.compare(sname, W, None, wn, None)
        rows += c.rows
    fin = P.fn("carquet_page_writer_finalize", PW)
    fin_view = P.inlined(fin, 3)
    W, probs = tt.extract_writer(P, fin_view, set())
    if W is None:
        raise AnalysisBroken("page header struct not found in carquet_page_writer_finalize")
    for msg, node in probs:
        ctx.inconclusive("R5.shape", "writer-shape|%s:%s|%s" % (PW, fin.name, msg.split(":")[0]), P.where(node),
                         "the writer's call sequence is not in a form the grammar extraction understands", msg)
    fix_shared_structs(W)
    c = Cmp(ctx, PW, PW)
    c.compare("PageHeader", W, None, fin.name, None)
    rows += c.rows
    ctx.floor("C05 written table rows", rows, 60)
    # ---- (2)
    for en, (spec, prefix) in ENUM_MAP.items():
        vals = P.enum(en)
        for cname, v in sorted(vals.items(), key=lambda kv: kv[1]):
            short = cname.replace(prefix, "")
            if en == "carquet_page_type":
                short = PAGE_ALIAS.get(short, short)
            if v < 0:
                ctx.ok("R5.spec", "enum|%s|%s" % (en, cname), en, "%s is an in-memory sentinel (negative, never a file tag)" % cname,
                       nontrivial=False)
                continue
            if short not in ENUMS[spec]:
                ctx.ob("R5.spec", "enum|%s|%s" % (en, cname), en, "%s names a value of parquet.thrift %s" % (cname, spec),
                       False, "no such name in the specification")
                continue
            ctx.ob("R5.spec", "enum|%s|%s" % (en, cname), en,
                   "%s = %d as in parquet.thrift %s.%s" % (cname, ENUMS[spec][short], spec, short),
                   v == ENUMS[spec][short], "carquet uses %d" % v)

    # ---- (3) what the finaliser does, configuration by configuration (semantic trace: buffers, the
    # Thrift encoder, the CRC and the codec are hooked; helpers, gotos and hoisted locals do not matter)
    from ..rules import pagefin
    verdicts, nconf = {}, 0
    try:
        verdicts, nconf = finaliser_verdicts(P)
        what = {"page-type-tag": "the page header's type is written as DATA_PAGE together with field 5 (data_page_header)",
                "page-layout": "the page body is repetition levels, definition levels, values in that order, each only when present",
                "header-uncompressed": "*uncompressed_size is the number of body bytes handed to the codec",
                "header-compressed": "*compressed_size is the number of bytes the codec produced",
                "header-fields": "PageHeader fields 2 and 3 carry the uncompressed and compressed sizes",
                "header-counts": "DataPageHeader.num_values / encoding are the writer's num_values / encoding",
                "header-crc": "field 4 is the CRC of exactly the stored payload bytes, written iff CRC is enabled",
                "page-bytes": "the page buffer is cleared, receives the header, then exactly the codec's output"}
        rulemap = {"page-type-tag": "R5.spec", "page-layout": "R6.order"}
        for k, msg in verdicts.items():
            ctx.ob(rulemap.get(k, "R6.sizes"), "%s|%s:%s" % (k, PW, fin.name), P.where(fin.body),
                   what[k] + " (%d writer configurations, abstract execution)" % nconf, msg is None, msg or "")
    except (pagefin.sem.Inconclusive, KeyError, AnalysisBroken) as ex:
        ctx.inconclusive("R6.sizes", "page-trace|%s:%s" % (PW, fin.name), P.where(fin.body),
                         "abstract execution of the page finaliser", "%s: %s" % (type(ex).__name__, ex))
    ctx.floor("C05 page finaliser configurations", nconf, 40)

    # the stored CRC is the IEEE CRC only if the lookup tables are built before they are read
    from ..rules import lazyinit
    nl, inst = lazyinit.check(ctx, ["src/util/crc32.c"])
    ctx.floor("C05 lazily initialised tables in crc32.c", len(inst), 1)

    # compressed payloads: emitted match offsets fit their 16-bit field (shared rule with C09.3)
    offset_width_rule(ctx)

    # ---- (4) offsets
    nfo = 0
    for fn in P.funcs_in(FW):
        for s in fn.body.walk():
            tgt = None
            if is_assign(s):
                tgt = s.c[0].strip()
            if tgt is None or tgt.k != "MemberExpr" or tgt.name != "file_offset" or tgt.get("rec") != "carquet_writer":
                continue
            nfo += 1
            key = "file-offset|%s:%s|%s" % (FW, fn.name, s.op)
            amount_node = s.c[1] if s.op == "+=" else None
            if s.op == "=" and s.c[1].cv is None:
                # `off = writer->file_offset; ...; writer->file_offset = off + n;` is `+= n` when nothing in
                # between can store the member (no other store here, no call to a function of the file that does)
                r = s.c[1].strip_casts()
                if r.k == "BinaryOperator" and r.op == "+":
                    from ..canon import info as _linfo
                    for a_, b_ in ((r.c[0], r.c[1]), (r.c[1], r.c[0])):
                        x_ = a_.strip_casts()
                        if x_.k == "DeclRefExpr" and x_.get("dk") == "local":
                            d0 = _linfo(fn).single_def(x_.get("d"))
                            d0 = d0.strip_casts() if d0 is not None else None
                            if d0 is not None and d0.k == "MemberExpr" and d0.name == "file_offset" and \
                                    lvalue_text(d0) == lvalue_text(tgt):
                                others = [q for q in fn.body.walk() if is_assign(q) and q is not s and
                                          q.c[0].strip().k == "MemberExpr" and q.c[0].strip().name == "file_offset" and
                                          q.c[0].strip().get("rec") == "carquet_writer"]
                                storers = set(g_.name for g_ in P.funcs_in(FW) if g_.key() != fn.key() and any(
                                    is_assign(q) and q.c[0].strip().k == "MemberExpr" and q.c[0].strip().name == "file_offset"
                                    and q.c[0].strip().get("rec") == "carquet_writer"
                                    for q in g_.body.walk()))
                                calls_storer = any(c_.callee in storers for c_ in P.inlined(fn, 3).calls())
                                if not others and not calls_storer:
                                    amount_node = b_
            if amount_node is None and s.op == "=":
                # = 4 right after the magic was written
                ok = s.c[1].cv == 4 and bool(fn.calls("write_magic")) and fn.cfg.node_dominates(fn.calls("write_magic")[0], s)
                ctx.ob("R6.offsets", key, P.where(s), "file_offset is set to 4 only after the leading magic was written", ok)
            elif amount_node is not None:
                an_ = amount_node.strip_casts()
                if an_.k == "DeclRefExpr" and an_.get("dk") == "local":
                    # a named temporary for the amount (`const int64_t n = (int64_t)size;`) stands for its only value
                    from ..canon import info as _linfo2
                    d1 = _linfo2(fn).single_def(an_.get("d"))
                    if d1 is not None and d1.strip_casts().k in ("DeclRefExpr", "MemberExpr"):
                        an_ = d1.strip_casts()
                amount = lvalue_text(an_)
                # fwrite itself, or a helper of the file that hands that argument to fwrite as the byte count
                wrappers = {}
                for g_ in P.funcs_in(FW):
                    for c_ in g_.calls("fwrite"):
                        x_ = c_.args()[2].strip_casts()
                        if x_.k == "DeclRefExpr" and x_.get("dk") == "param" and c_.args()[1].cv == 1:
                            wrappers[g_.name] = [q["n"] for q in g_.params].index(x_.name)
                fw = [c_ for c_ in fn.calls("fwrite") if lvalue_text(c_.args()[2]) == amount]
                fw += [c_ for c_ in fn.calls() if c_.callee in wrappers and wrappers[c_.callee] < len(c_.args())
                       and lvalue_text(c_.args()[wrappers[c_.callee]]) == amount]
                ok = bool(fw) and all(fn.cfg.node_dominates(_first(fn, c_), s) or True for c_ in fw) and \
                    any(fn.cfg.node_dominates(c_, s) or _guarded_by(c_, s) for c_ in fw)
                ctx.ob("R6.offsets", key, P.where(s),
                       "file_offset advances by exactly the byte count handed to fwrite in the same function", ok,
                       "amount `%s`" % amount)
            else:
                ctx.bad("R6.offsets", key, P.where(s), "file_offset changes only by '= 4' and '+= written size'")
    ctx.floor("C05 file_offset writers", nfo, 2)
    rg = P.fn("carquet_row_group_writer_finalize", RW)
    # abstract execution for 1..3 columns with distinct chunk sizes (the column finalizer and the buffer
    # append are hooked): the offset recorded for chunk i is the writer's file offset plus the bytes of
    # chunks 0..i-1, and its recorded size is the byte count appended for it
    from ..rules import sem
    try:
        wo = sem.field_offsets(P, "carquet_row_group_writer")
        io = sem.field_offsets(P, "column_chunk_info")
        isz = P.record("column_chunk_info")["size"]
        badr = None
        for N in range(1, 4):
            heap0 = {("w", wo["num_columns"]): N, ("w", wo["column_writers"]): sem.Ptr("cw", 0, 8),
                     ("w", wo["column_infos"]): sem.Ptr("ci", 0, isz), ("w", wo["file_offset"]): 5000}
            for i in range(N):
                heap0[("cw", 8 * i)] = sem.Ptr("col%d" % i, 0, 1)
            sizes = [1000 + 37 * i for i in range(N)]

            def fin(ev, a, it):
                name = getattr(a[0], "base", None)
                idx = int(name[3:]) if isinstance(name, str) and name.startswith("col") else -1
                if len(a) > 2 and idx >= 0:
                    sem.set_out(it, a[1], sem.Ptr("bytes%d" % idx, 0, 1))
                    sem.set_out(it, a[2], sizes[idx])
                for k_, o in enumerate(a[3:]):
                    sem.set_out(it, o, 70 + k_)
                return 0
            bo_ = sem.field_offsets(P, "carquet_buffer")

            def b_app(ev, a, it):
                # the growable buffer keeps its fill: code may read `buffer.size` instead of carrying a running offset
                ev.append(("append", getattr(a[1], "base", a[1]), a[2]))
                if isinstance(a[0], sem.Ptr) and isinstance(a[0].off, int) and isinstance(a[2], int):
                    k_ = (a[0].base, a[0].off + bo_["size"])
                    cur = it.heap.get(k_, 0)
                    it.heap[k_] = cur + a[2] if isinstance(cur, int) else sem.U
                return 0

            def b_clr(ev, a, it):
                if isinstance(a[0], sem.Ptr) and isinstance(a[0].off, int):
                    it.heap[(a[0].base, a[0].off + bo_["size"])] = 0
                return 0
            args = [sem.Ptr("w", 0, 1), sem.Ptr("data_out", 0, 8), sem.Ptr("size_out", 0, 8), 10]
            ret, ev, heap = sem.run(P, rg, args, heap0=heap0, single=True, max_forks=64, hooks={
                "carquet_column_writer_finalize": fin,
                "carquet_buffer_append": b_app, "carquet_buffer_clear": b_clr})
            run = 5000
            for i in range(N):
                got_off = heap.get(("ci", i * isz + io["file_offset"]))
                got_sz = heap.get(("ci", i * isz + io["total_compressed_size"]))
                if (got_off != run or got_sz != sizes[i] or ("append", "bytes%d" % i, sizes[i]) not in ev) and badr is None:
                    badr = "%d column(s): chunk %d records offset %s (expected %d) and size %s (expected %d); appends %s" % (
                        N, i, got_off, run, got_sz, sizes[i], ev)
                run += sizes[i]
        ctx.ob("R6.offsets", "chunk-offsets|%s:carquet_row_group_writer_finalize" % RW, P.where(rg.body),
               "each chunk's recorded file_offset is the running offset, which then advances by the bytes appended for it "
               "(1..3 columns with distinct chunk sizes, abstract execution)", badr is None, badr or "")
    except (sem.Inconclusive, KeyError, AnalysisBroken) as ex:
        ctx.inconclusive("R6.offsets", "chunk-offsets|%s:carquet_row_group_writer_finalize" % RW, P.where(rg.body),
                         "abstract execution of row-group finalize", str(ex))
    fr = P.fn("flush_row_group", FW)
    # abstract execution of the row-group flush for 1..3 chunks (row-group writer, stdio and the arena
    # are hooked): every ColumnChunk record carries the offset, sizes and counts recorded for that chunk,
    # data_page_offset is that same offset, and the file offset advances by the bytes written
    try:
        fo_ = sem.field_offsets(P, "carquet_writer")
        io = sem.field_offsets(P, "column_chunk_info")
        co = sem.field_offsets(P, "parquet_column_chunk")
        mo = sem.field_offsets(P, "parquet_column_metadata")
        ro = sem.field_offsets(P, "row_group_info")
        go = sem.field_offsets(P, "parquet_row_group")
        isz, csz, rsz = (P.record(r_)["size"] for r_ in ("column_chunk_info", "parquet_column_chunk", "row_group_info"))
        badm = None
        for N in range(1, 4):
            heap0 = {("fw", fo_["current_row_group"]): sem.Ptr("rg", 0, 1), ("fw", fo_["current_row_group_rows"]): 10,
                     ("fw", fo_["file"]): sem.Ptr("FILE", 0, 1), ("fw", fo_["num_row_groups"]): 1,
                     ("fw", fo_["row_groups_capacity"]): 4, ("fw", fo_["row_groups"]): sem.Ptr("rgs", 0, rsz),
                     ("fw", fo_["file_offset"]): 4004, ("fw", fo_["total_rows"]): 90}
            for i in range(N):
                heap0[("ci", i * isz + io["file_offset"])] = 4004 + 300 * i
                heap0[("ci", i * isz + io["total_compressed_size"])] = 300 + i
                heap0[("ci", i * isz + io["total_uncompressed_size"])] = 900 + i
                heap0[("ci", i * isz + io["num_values"])] = 50 + i
                heap0[("ci", i * isz + io["type"])] = 1 + i
                heap0[("ci", i * isz + io["compression"])] = i
                heap0[("ci", i * isz + io["path"])] = sem.Ptr("path%d" % i, 0, 1)
            nall = [0]

            def rgfin(ev, a, it):
                sem.set_out(it, a[1], sem.Ptr("rgbytes", 0, 1))
                sem.set_out(it, a[2], 1234)
                return 0

            def acalloc(ev, a, it):
                nall[0] += 1
                ev.append(("calloc", a[1], a[2], "arena%d" % nall[0]))
                return sem.Ptr("arena%d" % nall[0], 0, a[2] if isinstance(a[2], int) else 1)
            ret, ev, heap = sem.run(P, fr, [sem.Ptr("fw", 0, 1)], heap0=heap0, single=True, max_forks=64, hooks={
                "carquet_row_group_writer_finalize": rgfin,
                "fwrite": lambda ev, a, it: ev.append(("fwrite", getattr(a[0], "base", a[0]), a[1], a[2])) or a[2],
                "memset": lambda ev, a, it: a[0], "realloc": lambda ev, a, it: a[0],
                "carquet_row_group_writer_total_byte_size": lambda ev, a, it: 1234,
                "carquet_row_group_writer_num_columns": lambda ev, a, it, N=N: N,
                "carquet_row_group_writer_get_column_info":
                    lambda ev, a, it, N=N: sem.Ptr("ci", a[1] * isz, isz) if isinstance(a[1], int) and 0 <= a[1] < N else 0,
                "carquet_arena_calloc": acalloc,
                "carquet_arena_strdup": lambda ev, a, it: sem.Ptr("dup", 0, 1),
                "carquet_row_group_writer_destroy": lambda ev, a, it: None})
            cols = [e for e in ev if e[0] == "calloc" and e[2] == csz]
            if ret != 0 or len(cols) != 1 or cols[0][1] != N:
                badm = badm or "%d chunk(s): returns %s, chunk table allocations %s" % (N, ret, cols)
                continue
            base = cols[0][3]
            for i in range(N):
                got = {"file_offset": heap.get((base, i * csz + co["file_offset"])),
                       "data_page_offset": heap.get((base, i * csz + co["metadata"] + mo["data_page_offset"])),
                       "total_compressed_size": heap.get((base, i * csz + co["metadata"] + mo["total_compressed_size"])),
                       "total_uncompressed_size": heap.get((base, i * csz + co["metadata"] + mo["total_uncompressed_size"])),
                       "num_values": heap.get((base, i * csz + co["metadata"] + mo["num_values"])),
                       "type": heap.get((base, i * csz + co["metadata"] + mo["type"])),
                       "codec": heap.get((base, i * csz + co["metadata"] + mo["codec"]))}
                want = {"file_offset": 4004 + 300 * i, "data_page_offset": 4004 + 300 * i, "total_compressed_size": 300 + i,
                        "total_uncompressed_size": 900 + i, "num_values": 50 + i, "type": 1 + i, "codec": i}
                if got != want and badm is None:
                    badm = "%d chunk(s): ColumnChunk %d records %s, the chunk info says %s" % (
                        N, i, {k: v for k, v in got.items() if want[k] != v}, {k: v for k, v in want.items() if got[k] != v})
            rgo = heap.get(("rgs", rsz * 1 + ro["metadata"] + go["file_offset"]))
            if (rgo != 4004 or heap.get(("fw", fo_["file_offset"])) != 4004 + 1234 or
                    ("fwrite", "rgbytes", 1, 1234) not in ev) and badm is None:
                badm = "%d chunk(s): row group offset %s (expected 4004), file offset afterwards %s (expected %d), writes %s" % (
                    N, rgo, heap.get(("fw", fo_["file_offset"])), 4004 + 1234, [e for e in ev if e[0] == "fwrite"])
        ctx.ob("R6.offsets", "chunk-meta-offsets|%s:flush_row_group" % FW, P.where(fr.body),
               "ColumnChunk.file_offset and data_page_offset are the offset recorded for that chunk; sizes, counts, type and "
               "codec are the chunk's; the row group starts at the file offset, which advances by the bytes written "
               "(1..3 chunks, abstract execution)", badm is None, badm or "")
    except (sem.Inconclusive, KeyError, AnalysisBroken) as ex:
        ctx.inconclusive("R6.offsets", "chunk-meta-offsets|%s:flush_row_group" % FW, P.where(fr.body),
                         "abstract execution of the row-group flush", "%s: %s" % (type(ex).__name__, ex))

    # ---- (5) duplicated definitions and prototypes
    byname = {}
    for unit, r in P.records_all:
        if not P.rel(r["file"]).endswith(".c"):
            continue
        byname.setdefault(r["name"], {})[r["file"]] = r
    ndup = 0
    for name, defs in sorted(byname.items()):
        if len(defs) < 2 or not name or "<anon>" in name:
            continue
        ndup += 1
        sigs = set(tuple((f["n"], f["t"], f.get("off")) for f in r["fields"]) for r in defs.values())
        ctx.ob("R5.prototype", "dup-struct|%s" % name, ", ".join(sorted(P.rel(f) for f in defs)),
               "struct %s, defined in %d translation units, has identical fields and layout everywhere" % (name, len(defs)),
               len(sigs) == 1)
    ctx.floor("C05 structs defined in more than one unit", ndup, 1)
    defs = {}
    for unit, fd in P.funcdecls:
        if fd["def"] and not fd["static"]:
            defs.setdefault(fd["name"], set()).add(fd["ctype"])
    seen = set()
    npro = 0
    for unit, fd in P.funcdecls:
        if fd["def"] or not P.rel(fd["file"]).endswith(".c") or fd["name"] not in defs:
            continue
        if (fd["name"], fd["file"]) in seen:
            continue
        seen.add((fd["name"], fd["file"]))
        npro += 1
        ctx.ob("R5.prototype", "extern-proto|%s|%s" % (P.rel(fd["file"]), fd["name"]),
               "%s:%d" % (P.rel(fd["file"]), fd["line"]),
               "hand-written prototype of %s equals its definition" % fd["name"],
               fd["ctype"] in defs[fd["name"]], "declared %s / defined %s" % (fd["ctype"], sorted(defs[fd["name"]])),
               nontrivial=False)
    ctx.floor("C05 extern prototypes in .c files", npro, 60)


def _first(fn, n):
    return n


def _guarded_by(call, node):
    """node follows `if (fwrite(...) != n) return err;`"""
    for a in call.ancestors():
        if a.k == "IfStmt":
            return True
    return False


def run(ctx):
    _run(ctx)
    from ..rules import thriftrt
    from .. import report
    ctx.clause("C05.8 what the public writers emit for a fully populated object has parquet.thrift's ids, wire types, element types and required fields (semantic probe)")
    thriftrt.check(ctx, rule="R5.spec", roundtrip=False)
    probes = [o for o in ctx.obs if o.key.startswith("spec|")]
    decided = len(probes) >= 3 and not any(o.status != report.DISCHARGED for o in probes)
    # the LogicalType union is out of the root probe's reach (one member at a time): its writer is executed per
    # member (union field ids of the specification) and per parameter combination (write then parse)
    ctx.clause("C05.9 every LogicalType member is written under the specification's union field id, with parameters that parse back")
    from ..rules import logicaltype
    nlt = logicaltype.check(ctx)
    nlp, lp_ok = logicaltype.params_roundtrip(ctx)
    ctx.floor("C05 LogicalType members and parameter round trips", nlt + nlp, 40)
    lt_obs = [o for o in ctx.obs if o.key.startswith(("logical-type|", "logical-params|"))]
    logical_ok = lp_ok and bool(lt_obs) and all(o.status == report.DISCHARGED for o in lt_obs)
    ctx.count("extraction_gaps_settled_by_probe", thriftrt.settle_extraction(ctx, decided, logical_ok=logical_ok))


def _codec_passthrough(ctx):
    """The codec (and encoding) a column's pages are produced with is the one the column writer was created with - the
    same value the row-group writer records as ColumnMetaData.codec. carquet_column_writer_create is executed for every
    physical type x codec with carquet_page_writer_create hooked (what it receives must be what came in), and
    carquet_page_writer_create for every type x codec (what it stores must be what it received)."""
    from ..rules import sem
    from ..rules.skeleton import Ptr
    P = ctx.P
    n = 0
    phys = P.enum("carquet_physical_type")
    codecs = P.enum("carquet_compression")
    cw = P.fn_opt("carquet_column_writer_create", "src/writer/column_writer.c")
    pw = P.fn_opt("carquet_page_writer_create", "src/writer/page_writer.c")
    if cw is None or pw is None:
        raise AnalysisBroken("anchor functions carquet_column_writer_create / carquet_page_writer_create not found")
    k = [0]

    def alloc(ev, a, it):
        k[0] += 1
        return Ptr("obj%d" % k[0], 0, 1)
    base_hooks = {"calloc": alloc, "malloc": alloc, "free": lambda ev, a, it: None, "carquet_buffer_init": lambda ev, a, it: None,
                  "carquet_buffer_init_capacity": lambda ev, a, it: 0}
    # (a) column writer -> page writer
    key = "codec-passthrough|src/writer/column_writer.c:carquet_column_writer_create"
    what = "carquet_column_writer_create creates its page writer with the type, encoding and codec it was given (every physical type x codec)"
    try:
        bad, done = None, 0
        for tn, tv in sorted(phys.items(), key=lambda x: x[1]):
            for cn, cv in sorted(codecs.items(), key=lambda x: x[1]):
                seen = []

                def pwc(ev, a, it, seen=seen):
                    seen.append(tuple(a[:3]))
                    return Ptr("pwobj", 0, 1)
                ret, ev, heap = sem.run(P, cw, [tv, 8, cv, 1, 0, 12, 4096], heap0={}, hooks=dict(base_hooks, carquet_page_writer_create=pwc),
                                        single=True, max_forks=8, budget=50000, inline_depth=2)
                done += 1
                if bad is None and seen != [(tv, 8, cv)]:
                    bad = "%s with %s: the page writer is created with (type, encoding, codec) = %s" % (tn.replace("CARQUET_PHYSICAL_", ""), cn.replace("CARQUET_COMPRESSION_", ""), seen)
        n += done
        ctx.ob("R5.agree", key, P.where(cw.body), what + " (%d combinations)" % done, bad is None, bad or "")
    except (sem.Inconclusive, KeyError) as ex:
        ctx.inconclusive("R5.agree", key, P.where(cw.body), what, "%s: %s" % (type(ex).__name__, ex))
    # (b) page writer stores what it received
    key = "codec-passthrough|src/writer/page_writer.c:carquet_page_writer_create"
    what = "carquet_page_writer_create stores the type, encoding and codec it was given (every physical type x codec)"
    try:
        wo = sem.field_offsets(P, "carquet_page_writer")
        bad, done = None, 0
        for tn, tv in sorted(phys.items(), key=lambda x: x[1]):
            for cn, cv in sorted(codecs.items(), key=lambda x: x[1]):
                ret, ev, heap = sem.run(P, pw, [tv, 8, cv, 1, 0, 12], heap0={}, hooks=base_hooks, single=True, max_forks=8, budget=50000, inline_depth=2)
                done += 1
                if not isinstance(ret, Ptr):
                    raise sem.Inconclusive("returns %r" % (ret,))
                got = tuple(heap.get((ret.base, ret.off + wo[m])) for m in ("type", "encoding", "compression"))
                if bad is None and got != (tv, 8, cv):
                    bad = "%s with %s: the page writer holds (type, encoding, codec) = %s" % (tn.replace("CARQUET_PHYSICAL_", ""), cn.replace("CARQUET_COMPRESSION_", ""), got)
        n += done
        ctx.ob("R5.agree", key, P.where(pw.body), what + " (%d combinations)" % done, bad is None, bad or "")
    except (sem.Inconclusive, KeyError) as ex:
        ctx.inconclusive("R5.agree", key, P.where(pw.body), what, "%s: %s" % (type(ex).__name__, ex))
    return n
