"""C03 - fread / mmap / buffer equivalence (sibling implementation diff + view ownership)."""
from ..canon import Canon
from ..extract import AnalysisBroken
from ..facts import src
from ..rules.flow import find_path_avoiding, describe_path
from ..rules.siblings import Summary, diff
from ..util import is_assign

EXPLANATION = (
    "Static decision of structural clauses of C03: (1) the mmap and the stdio variant of each page loader "
    "({load_dictionary_page_mmap, load_dictionary_page_fread}, {load_next_page_mmap, "
    "load_next_page_fread}) are executed abstractly on the same scenarios of valid pages (page type x CRC "
    "present/verified/matching x codec x levels x value counts x physical type x position in the chunk x "
    "alignment of the mapping; the header parser, positioned reads, CRC, codecs, allocator and page "
    "decoders are hooked): both accept and refuse the same pages, an accepted page reaches the same "
    "codec/decoder with the same bytes and sizes (the zero-copy view counts as decoding the stored bytes "
    "in place), and both leave the same page geometry and counts in the column reader; (2) ownership of "
    "what is published: in every scenario a pointer into the mapping is stored in decoded_values exactly "
    "together with decoded_ownership = VIEW (so what is handed out as a view is the mapping itself, never "
    "a recycled heap buffer), and a decoded_values buffer that is a view is never passed to free - by the "
    "traces for the loaders and their helpers, by a typestate rule on decoded_ownership for the other "
    "functions of src/reader; (3) the three footer readers reject short files, a wrong trailing magic and "
    "an oversized footer length (their gating is decided under C18). (4) R45: the functions that hand out a pointer into the bytes being parsed are found as a fixed point (carquet_buffer_reader_peek returns reader->data + pos; thrift_read_binary returns its result; a copying wrapper that hands the input pointer through on one branch joins the set), and at every call of one of them the result is only read, compared or copied - never stored through a member, a pointer or an array element: parsed metadata that pointed into the footer would be valid under mmap / buffer and dangling under stdio, which frees the footer after parsing. (state) the page and footer readers keep no file-scope or static state (a remembered stream position would make the stdio path depend on an earlier reader while mmap and buffer do not) - every mutable file-scope variable and static local under src/reader/ is thread-local, never written, or an accepted idempotent lazy table (rule shared with C07). (6) R46 as in C04.17 over src/reader: the decode buffers of the stdio and the mmap / buffer loaders are grown to at least the page that does not fit (a loader that under-allocates on a later, larger page makes one access mode fail where the others succeed). (7) carquet_read_next_page executed on a loaded page once per ownership tag (owned / view): the copies into the caller's value and level arrays - source and byte count - are identical, so the zero-copy path of the mmap and buffer readers hands out the same levels the stdio path does. Decides these clauses, not row "
    "alignment of batches nor that nothing else invalidates zero-copy data before close.")

PR = "src/reader/page_reader.c"
FRD = "src/reader/file_reader.c"
MR = "src/reader/mmap_reader.c"
VOC = {"parquet_parse_page_header", "decompress_page", "carquet_read_dictionary_page",
       "carquet_read_data_page_v1", "carquet_crc32", "carquet_page_is_zero_copy_eligible",
       "get_value_size", "parquet_parse_file_metadata", "build_schema", "carquet_read_u32_le"}
HR = {"parquet_page_header", "parquet_data_page_header", "parquet_dictionary_page_header",
      "parquet_data_page_header_v2", "parquet_column_metadata", "carquet_reader_options"}
SF = {"page_loaded", "page_num_values", "page_values_read", "page_header_size", "page_compressed_size",
      "data_start_offset", "has_dictionary", "page_data_for_values"}

# (group, feature key prefix) -> reason.  A difference whose key starts with the prefix is accepted.
ALLOW = {
    "loaders": [
        ("arg:parquet_parse_page_header#1", "header window: min(bytes available in the mapping, 256) vs bytes actually read"),
        ("guard:compressed_page_size,dictionary_page_offset||!= -> ['CARQUET_ERROR_FILE_SEEK']", "positioned read of the fread variant"),
        ("guard:dictionary_page_offset||!= -> ['CARQUET_ERROR_FILE_SEEK']", "positioned read of the fread variant"),
        ("guard:compressed_page_size||!= -> ['CARQUET_ERROR_FILE_READ']", "short read of the fread variant"),
        ("guard:compressed_page_size||!= -> ['CARQUET_ERROR_FILE_SEEK']", "positioned read of the fread variant"),
        ("guard:||< -> ['CARQUET_ERROR_FILE_READ']", "short header read of the fread variant"),
        ("guard:compressed_page_size||! -> ['CARQUET_ERROR_OUT_OF_MEMORY']", "the fread variant allocates the compressed buffer"),
        ("call:carquet_page_is_zero_copy_eligible", "zero-copy hand-out exists only on mapped data"),
        ("arg:carquet_page_is_zero_copy_eligible", "zero-copy hand-out exists only on mapped data"),
        ("guard:compressed_page_size||!=> -> ['CARQUET_ERROR_INVALID_PAGE']", "file-extent validation of the mapped variant (fread fails safely on short reads)"),
        ("guard:compressed_page_size,uncompressed_page_size", "file-extent validation of the mapped variant"),
        ("guard:num_values||!< -> ['CARQUET_ERROR_INVALID_PAGE']", "count validation before the zero-copy hand-out"),
        ("guard:num_values,compressed_page_size", "zero-copy pages must hold their values"),
        ("guard:compressed_page_size,num_values", "zero-copy pages must hold their values"),
        ("set:carquet_column_reader.page_num_values", "zero-copy branch publishes the header's num_values, the decode path the decoded count"),
        ("set:carquet_column_reader.page_data_for_values", "retained buffer: decompressed copy (mmap) vs page buffer (fread)"),
    ],
    "footers": [
        ("guard:file_size||< ->", "size test spelled over reader->file_size vs a local"),
        ("guard:file", "stdio failures of the fread variant"),
        ("set:carquet_reader.file_size", "fread learns the size with ftell"),
        ("set:carquet_reader.", "open_buffer initialises the reader itself; the path-based readers are initialised by carquet_reader_open"),
        ("guard:schema", "result test of build_schema spelled on different objects"),
        ("guard:||! ->", "allocation failure tests"),
        ("leading-magic", "read_footer does not test the leading PAR1 (irrelevant for valid files; C18 tests the trailing magic)"),
    ],
}


def allowed(group, key):
    for pre, why in ALLOW[group]:
        if key.startswith(pre):
            return why
    return None


def run(ctx):
    P = ctx.P
    ctx.clause("C03.6 the loaders' decode buffers are grown to at least the page that does not fit (R46, shared with C04.17)")
    from ..rules import growth
    ctx.count("growth_branches", growth.check(ctx, [f for f in P.lib_functions() if P.rel(f.file).startswith("src/reader/")]))
    ctx.clause("C03.5 the page and footer readers keep no file-scope or static state (a remembered stream position would make the stdio path depend on an earlier reader while mmap and buffer do not) (rule shared with C07)")
    from . import C07 as _c07
    ctx.count("file_scope_variables_examined", _c07.global_state(ctx, scope="src/reader/", rule="R7.reader-state"))
    ctx.clause("C03.1 page-loader siblings agree (callee/argument provenance/guards/cursor assignments)")
    ctx.clause("C03.2 footer readers agree")
    ctx.clause("C03.3 a DATA_VIEW pointer is never freed")
    ctx.clause("C03.7 what a read hands to the caller (values, definition and repetition levels) does not depend on the ownership tag of the decoded page (owned buffer vs view of the mapping)")
    ctx.floor("C03 ownership values through carquet_read_next_page", _level_handout(ctx), 2)
    ctx.clause("C03.4 parsed metadata does not point into the footer bytes it was parsed from: the stdio reader frees them after parsing, the mmap and buffer readers keep them")
    from ..rules import borrowed
    nb, bnames = borrowed.check(ctx, sorted(set(P.rel(f.file) for f in P.lib_functions() if P.rel(f.file).startswith(("src/thrift/", "src/reader/", "src/metadata/", "src/core/")))))
    ctx.floor("C03 calls of functions that hand out a pointer into the parser's input", nb, 4)
    _loader_siblings(ctx)

    # footers: the three readers are compared through their rejection sets (their guard
    # dominance is decided under C18)
    # error-code multiset of the validation guards: every reader rejects with INVALID_FOOTER (size,
    # footer length) and INVALID_MAGIC (trailing magic)
    for name, file_ in (("read_footer", FRD), ("read_footer_mmap", FRD), ("carquet_reader_open_buffer", MR)):
        f = P.fn(name, file_)
        codes = []
        for n in f.body.walk():
            if n.k == "IfStmt":
                kids = [x for x in n.c if x is not None]
                for x in kids[1].walk():
                    if x.k == "DeclRefExpr" and x.get("dk") == "enum" and x.name.startswith("CARQUET_ERROR_INVALID"):
                        codes.append(x.name)
        ok = codes.count("CARQUET_ERROR_INVALID_FOOTER") >= 2 and codes.count("CARQUET_ERROR_INVALID_MAGIC") >= 1
        ctx.ob("R9.siblings", "footer-rejections|%s:%s" % (file_, name), P.where(f.body),
               "%s rejects short files, a wrong trailing magic and an oversized footer length" % name, ok,
               str(sorted(set(codes))))

    # ---- view ownership
    nfree = 0
    for fn in P.funcs_under("src/reader/"):
        if P.rel(fn.file) == PR:
            continue        # the loaders and their helpers: decided by abstract execution in _loader_siblings
        frees = [c for c in fn.calls("free") if c.args() and c.args()[0].strip_casts().k == "MemberExpr"
                 and c.args()[0].strip_casts().name == "decoded_values"]
        if not frees:
            continue

        def clears(e):
            if is_assign(e) and e.op == "=":
                l = e.c[0].strip()
                if l.k == "MemberExpr" and l.name == "decoded_values":
                    r = e.c[1].strip_casts()
                    return r.cv == 0 or (r.k == "CallExpr" and r.callee in ("malloc", "calloc", "realloc"))
            return False

        def cut(B, si):
            if B.cond is None:
                return False
            t = Canon(fn, inline=False)(B.cond)
            if t[0] == "bin" and t[1] in ("==", "!=") and any(
                    isinstance(x, tuple) and x[0] == "member" and x[2] == "decoded_ownership" for x in (t[2], t[3])):
                const = [x for x in (t[2], t[3]) if x[0] == "int"]
                if not const:
                    return False
                owned = const[0][1] == 0           # CARQUET_DATA_OWNED == 0
                eq = t[1] == "=="
                # edge on which the pointer is known to be owned
                known_owned_on_true = (owned and eq) or (not owned and not eq)
                return (si == 0) == known_owned_on_true
            return False
        for fr in frees:
            nfree += 1
            path = find_path_avoiding(fn.cfg, clears, lambda e: e is fr, cut)
            if path is not None and fn.static:
                # a helper that releases the buffers: the ownership test (or the reset of a view) may be
                # its callers' - then every path to each call must pass it
                from ..rules.whomay import callers_of
                cs = callers_of(P, fn)
                if cs:
                    path = None
                    for g in cs:
                        for call in g.calls(fn.name):
                            def clears_g(e):
                                if is_assign(e) and e.op == "=":
                                    l = e.c[0].strip()
                                    if l.k == "MemberExpr" and l.name == "decoded_values":
                                        r = e.c[1].strip_casts()
                                        return r.cv == 0 or (r.k == "CallExpr" and r.callee in ("malloc", "calloc", "realloc"))
                                return False

                            def cut_g(B, si, g=g):
                                if B.cond is None:
                                    return False
                                t = Canon(g, inline=False)(B.cond)
                                if t[0] == "bin" and t[1] in ("==", "!=") and any(
                                        isinstance(x, tuple) and x[0] == "member" and x[2] == "decoded_ownership" for x in (t[2], t[3])):
                                    const = [x for x in (t[2], t[3]) if x[0] == "int"]
                                    if not const:
                                        return False
                                    owned = const[0][1] == 0
                                    eq = t[1] == "=="
                                    return (si == 0) == ((owned and eq) or (not owned and not eq))
                                return False
                            pg = find_path_avoiding(g.cfg, clears_g, lambda e: e is call, cut_g)
                            if pg is not None:
                                path = pg
            ctx.ob("R2.view", "view-free|%s:%s" % (P.rel(fn.file), fn.name), P.where(fr),
                   "free(decoded_values) is reached only when the buffer is owned (never a mmap view)",
                   path is None, "path: %s" % describe_path(fn, fn.cfg, path) if path else "")
    ctx.floor("C03 free(decoded_values) sites outside the loaders", nfree, 2)
    own = P.enum("carquet_data_ownership")
    if own.get("CARQUET_DATA_OWNED") != 0:
        raise AnalysisBroken("CARQUET_DATA_OWNED is no longer 0")


def _ptr_base(e):
    x = e.strip_casts()
    while True:
        if x.k in ("ParenExpr", "ImplicitCastExpr", "CStyleCastExpr"):
            x = x.c[0]
        elif x.k == "BinaryOperator" and x.op in ("+", "-"):
            x = x.c[0].strip_casts()
        elif x.k == "ConditionalOperator":
            return None
        else:
            break
    if x.k == "DeclRefExpr" and x.get("dk") == "local":
        return x.get("d")
    if x.k == "MemberExpr" and x.name == "mmap_data":
        return "mmap_data"
    return None


def _mapped_locals(fn):
    """{decl id: name} of pointer locals whose every definition is pointer arithmetic on
    file_reader->mmap_data or on another such local (greatest fixpoint)."""
    defs = {}
    names = {}
    for n in fn.body.walk():
        if n.k == "DeclStmt":
            for d, init in zip(n.get("decls", []), n.c):
                if "d" in d and "*" in (d.get("t") or ""):
                    names[d["d"]] = d["n"]
                    defs.setdefault(d["d"], [])
                    if init is not None:
                        defs[d["d"]].append(init)
        elif is_assign(n):
            t = n.c[0].strip()
            if t.k == "DeclRefExpr" and t.get("dk") == "local" and t.get("d") in defs:
                defs[t.get("d")].append(n.c[1] if n.op == "=" else n.c[0])
        elif n.k == "UnaryOperator" and n.op == "&":
            t = n.c[0].strip_casts()
            if t.k == "DeclRefExpr" and t.get("d") in defs:
                defs[t.get("d")].append(None)      # address escapes: unknown definitions
    ok = {d: True for d in defs if defs[d]}
    ok["mmap_data"] = True
    changed = True
    while changed:
        changed = False
        for d, ds in defs.items():
            if not ok.get(d):
                continue
            for e in ds:
                b = _ptr_base(e) if e is not None else None
                if b is None or not ok.get(b):
                    ok[d] = False
                    changed = True
                    break
    return {d: names.get(d, d) for d, v in ok.items() if v and d != "mmap_data"}


def _loader_siblings(ctx):
    """The mmap and the stdio variant of each loader, executed abstractly on the same scenarios (page
    type x CRC situation x codec x levels x value counts x physical type x position in the chunk): same verdict (page accepted or
    refused), the same bytes handed to the same consumers, the same reader state afterwards. Plus the
    ownership of what is published: a pointer into the mapping goes out only with the VIEW tag, and a
    buffer that is a view is never handed to free."""
    from ..rules import loaders as LD, sem
    P = ctx.P
    pt = P.enum("carquet_page_type")
    cd = P.enum("carquet_compression")
    own = P.enum("carquet_data_ownership")
    phys = P.enum("carquet_physical_type")
    VIEW = own.get("CARQUET_DATA_VIEW")
    if VIEW is None:
        raise AnalysisBroken("CARQUET_DATA_VIEW vanished")
    UNC, SNAPPY = cd["CARQUET_COMPRESSION_UNCOMPRESSED"], cd["CARQUET_COMPRESSION_SNAPPY"]

    def scenarios(isdict):
        out = []
        kinds = [pt["CARQUET_PAGE_DICTIONARY"], pt["CARQUET_PAGE_DATA"], pt["CARQUET_PAGE_DATA_V2"], pt["CARQUET_PAGE_INDEX"]]
        for ptype in kinds:
            for crc in ((0, 1, 0, 9), (1, 1, 0x55, 0x55), (1, 1, 0x55, 0x56), (1, 0, 0x55, 0x56)):
                for codec in (UNC, SNAPPY):
                    for levels in (True, False):
                        out.append(dict(page_type=ptype, has_crc=crc[0], verify=crc[1], stored_crc=crc[2], computed_crc=crc[3],
                                        codec=codec, levels=levels))
        good = pt["CARQUET_PAGE_DICTIONARY"] if isdict else pt["CARQUET_PAGE_DATA"]
        base = LD.DICT_OFF if isdict else LD.DATA_OFF
        # (the property speaks of valid files: sizes and counts are non-negative and inside the file)
        for geo in (dict(num_values=0), dict(num_values=30), dict(csize=0, usize=0, num_values=0),
                    dict(file_size=base + LD.HEADER_SIZE + LD.CSIZE), dict(ptype=phys["CARQUET_PHYSICAL_BYTE_ARRAY"]),
                    dict(ptype=phys["CARQUET_PHYSICAL_INT64"], num_values=15), dict(current_page=4096),
                    dict(map_align=3), dict(map_align=1, ptype=phys["CARQUET_PHYSICAL_INT64"], num_values=15),
                    dict(view_state=True, capacity=1), dict(view_state=True)):
            for codec in (UNC, SNAPPY):
                for levels in (True, False):
                    sc = dict(page_type=good, has_crc=0, verify=1, stored_crc=0, computed_crc=0, codec=codec, levels=levels)
                    sc.update(geo)
                    out.append(sc)
        return out

    def norm(name, sc, ret, ev, out):
        isdict = "dictionary" in name
        base = LD.DICT_OFF if isdict else LD.DATA_OFF + sc.get("current_page", 0)
        if "fread" in name:
            rd = [e for e in ev if e[0] == "read" and e[1] == base + LD.HEADER_SIZE]
            payload = rd[0][2] if rd else None
        else:
            payload = ("map", base + LD.HEADER_SIZE)

        def nm(p_):
            if p_ == payload and payload is not None:
                return "payload"
            if isinstance(p_, tuple) and p_ and isinstance(p_[0], str) and p_[0].startswith("m") and p_[0][1:].isdigit():
                return "tmp"
            return p_
        cons = []
        for e in ev:
            if e[0] == "decompress":
                cons.append(("decompress", e[1], nm(e[2]), e[3], nm(e[4]), e[5]))
            elif e[0] in ("consume-dict", "consume-page"):
                cons.append((e[0], nm(e[1]), e[2]))
        view = out["decoded_values"] is not None and isinstance(out["decoded_values"], tuple) and out["decoded_values"][0] == "map" \
            and out["decoded_values"] == payload
        if view and ret == 0:
            cons.append(("consume-page", "payload", sc.get("csize", LD.CSIZE)))
        state = {k_: out[k_] for k_ in ("page_loaded", "page_num_values", "page_header_size", "page_compressed_size", "data_start_offset")}
        return ("ok" if ret == 0 else "refused"), cons, state, payload

    nsc = 0
    for a, b in (("load_dictionary_page_mmap", "load_dictionary_page_fread"), ("load_next_page_mmap", "load_next_page_fread")):
        verd = {"sibling-verdict": None, "sibling-consumers": None, "sibling-state": None, "view-tag": None, "view-free": None}
        key0 = "%s:%s/%s" % (PR, a, b)
        try:
            for sc in scenarios("dictionary" in a):
                nsc += 1
                res = {}
                for name in (a, b):
                    ret, ev, out = LD.trace(P, name, **sc)
                    res[name] = (ret, ev, out) + norm(name, sc, ret, ev, out)
                    # ownership of what is published / released
                    if ret == 0:
                        dv = out["decoded_values"]
                        inmap = isinstance(dv, tuple) and dv and dv[0] == "map"
                        if inmap != (out["decoded_ownership"] == VIEW) and verd["view-tag"] is None:
                            verd["view-tag"] = "%s, %s: decoded_values = %s with decoded_ownership = %s" % (
                                name, _sc(sc), dv, out["decoded_ownership"])
                    bad_free = [e for e in ev if e[0] == "free" and isinstance(e[1], tuple) and e[1] and e[1][0] == "map"]
                    if bad_free and verd["view-free"] is None:
                        verd["view-free"] = "%s, %s: free() of %s, a pointer into the mapping" % (name, _sc(sc), bad_free[0][1])
                ra, rb = res[a], res[b]
                if ra[3] != rb[3] and verd["sibling-verdict"] is None:
                    verd["sibling-verdict"] = "%s: %s returns %s, %s returns %s" % (_sc(sc), a, ra[0], b, rb[0])
                elif ra[3] == "ok":
                    if ra[4] != rb[4] and verd["sibling-consumers"] is None:
                        verd["sibling-consumers"] = "%s: %s feeds %s, %s feeds %s" % (_sc(sc), a, ra[4], b, rb[4])
                    if ra[5] != rb[5] and verd["sibling-state"] is None:
                        d_ = {k_: (ra[5][k_], rb[5][k_]) for k_ in ra[5] if ra[5][k_] != rb[5][k_]}
                        verd["sibling-state"] = "%s: reader state differs (mmap, stdio): %s" % (_sc(sc), d_)
            what = {"sibling-verdict": "the mmap and the stdio loader accept and refuse the same pages",
                    "sibling-consumers": "an accepted page reaches the same codec / decoder with the same bytes and sizes in both",
                    "sibling-state": "both leave the same page geometry and counts in the column reader",
                    "view-tag": "a pointer into the mapping is published in decoded_values exactly with decoded_ownership = VIEW",
                    "view-free": "a decoded_values buffer that is a view into the mapping is never passed to free"}
            for k_, msg in verd.items():
                ctx.ob("R9.siblings" if k_.startswith("sibling") else "R2.view", "%s|%s" % (k_, key0), PR,
                       what[k_] + " (abstract execution of both variants)", msg is None, msg or "")
        except (sem.Inconclusive, KeyError) as ex:
            ctx.inconclusive("R9.siblings", "sibling-trace|" + key0, PR, "abstract execution of %s / %s" % (a, b),
                             "%s: %s" % (type(ex).__name__, ex))
    ctx.floor("C03 loader scenarios", nsc, 150)


def _sc(sc):
    return ", ".join("%s=%s" % (k, v) for k, v in sorted(sc.items()))


def _level_handout(ctx):
    """carquet_read_next_page on an already loaded page, executed once per value of the ownership tag of the decoded values
    (owned buffer after the stdio / decode path, view of the mapping after the zero-copy path): what the caller's value,
    definition-level and repetition-level arrays receive - which source, how many bytes - must be the same. The tag says
    who frees the values; it is not allowed to decide what a read returns."""
    from ..rules import sem
    from ..rules.skeleton import Ptr
    P = ctx.P
    PRF = "src/reader/page_reader.c"
    fn = P.fn_opt("carquet_read_next_page", PRF)
    if fn is None:
        raise AnalysisBroken("anchor function carquet_read_next_page in %s not found" % PRF)
    key = "level-handout|%s:carquet_read_next_page" % PRF
    what = "what carquet_read_next_page copies into the caller's value and level arrays does not depend on whether the decoded values are an owned buffer or a view of the mapping"
    try:
        ro = sem.field_offsets(P, "carquet_column_reader")
        own = P.enum("carquet_data_ownership") if "carquet_data_ownership" in P.enums else None
        if not own:
            own = dict(next(((k, v) for k, v in P.enums.items() if any("DATA_VIEW" in c for c, _ in v["consts"])), (None, {"consts": []}))[1]["consts"])
        if len(own) < 2:
            raise sem.Inconclusive("the ownership enum was not found")
        phys = P.enum("carquet_physical_type")
        seen = {}
        for oname, oval in sorted(own.items(), key=lambda kv: kv[1]):
            heap0 = {}
            for f in P.record("carquet_column_reader")["fields"]:
                t = f.get("t") or ""
                if f.get("off") is not None and "[" not in t and "struct" not in t:
                    heap0[("rd", f["off"] // 8)] = 0
            heap0.update({("rd", ro["page_loaded"]): 1, ("rd", ro["page_num_values"]): 5, ("rd", ro["page_values_read"]): 1, ("rd", ro["values_remaining"]): 9,
                          ("rd", ro["type"]): phys["CARQUET_PHYSICAL_INT32"], ("rd", ro["decoded_values"]): Ptr("dv", 0, 1),
                          ("rd", ro["decoded_def_levels"]): Ptr("dd", 0, 2), ("rd", ro["decoded_rep_levels"]): Ptr("dr", 0, 2),
                          ("rd", ro["decoded_ownership"]): oval})
            copies = []

            def mc(ev, a, it, copies=copies):
                copies.append((a[0].base if isinstance(a[0], Ptr) else a[0], (a[1].base, a[1].off) if isinstance(a[1], Ptr) else a[1], a[2]))
                return a[0]
            ret, ev, heap = sem.run(P, fn, [Ptr("rd", 0, 1), Ptr("vals", 0, 1), 3, Ptr("defl", 0, 2), Ptr("repl", 0, 2), Ptr("nread", 0, 8), Ptr("err", 0, 1)],
                                    heap0=heap0, single=True, max_forks=16, budget=200000, inline_depth=3,
                                    hooks={"memcpy": mc, "__builtin_memcpy": mc, "carquet_error_set": lambda ev, a, it: None})
            seen[oname] = (ret, sorted(copies, key=repr), heap.get(("nread", 0)))
        vals = list(seen.values())
        same = all(v == vals[0] for v in vals)
        ctx.ob("R9.siblings", key, P.where(fn.body), what + " (%d ownership values)" % len(seen), same,
               "" if same else "; ".join("%s: returns %s, copies %s" % (k.replace("CARQUET_DATA_", ""), v[0], [(c[0], c[1][0] if isinstance(c[1], tuple) else c[1], c[2]) for c in v[1]]) for k, v in sorted(seen.items())))
        return len(seen)
    except (sem.Inconclusive, KeyError) as ex:
        ctx.inconclusive("R9.siblings", key, P.where(fn.body), what, "%s: %s" % (type(ex).__name__, ex))
        return 0
