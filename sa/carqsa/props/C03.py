"""C03 - fread / mmap / buffer equivalence (sibling implementation diff + view ownership)."""
from ..canon import Canon
from ..extract import AnalysisBroken
from ..facts import src
from ..rules.flow import find_path_avoiding, describe_path
from ..rules.siblings import Summary, diff
from ..util import is_assign

EXPLANATION = (
    "Static decision of structural clauses of C03 by sibling implementation diff (R9): the page "
    "loaders {load_dictionary_page_mmap, load_dictionary_page_fread} and {load_next_page_mmap, "
    "load_next_page_fread} and the footer readers {read_footer, read_footer_mmap, "
    "carquet_reader_open_buffer} are summarised by feature sets expressed in callee, header-member "
    "and enum-constant names only (which parser/decoder they call, which header field feeds each "
    "size-like argument, which guards on header fields lead to which error code, which header field "
    "feeds each cursor field of the column reader); every difference outside a reasoned allow-list "
    "(I/O calls of the fread variants, the zero-copy branch and file-extent checks of the mmap "
    "variant, the leading-magic test missing from read_footer) is a violation. Plus: a "
    "CARQUET_DATA_VIEW pointer is never passed to free (typestate on decoded_ownership along every "
    "path to free(decoded_values)); the pointer published with the VIEW tag is pointer arithmetic on "
    "file_reader->mmap_data on every definition (never a recycled heap buffer), which is what keeps "
    "zero-copy data valid until close. Decides these clauses, not row alignment of batches nor "
    "validity of zero-copy data until close.")

PR = "src/reader/page_reader.c"
FRD = "src/reader/file_reader.c"
MR = "src/reader/mmap_reader.c"
VOC = {"parquet_parse_page_header", "decompress_page", "carquet_read_dictionary_page",
       "carquet_read_data_page_v1", "carquet_crc32", "carquet_page_is_zero_copy_eligible",
       "get_value_size", "parquet_parse_file_metadata", "build_schema", "carquet_read_u32_le"}
HR = {"parquet_page_header", "parquet_data_page_header", "parquet_dictionary_page_header",
      "parquet_data_page_header_v2", "parquet_column_metadata", "carquet_reader_options"}
SF = {"page_loaded", "page_num_values", "page_values_read", "page_header_size", "page_compressed_size",
      "data_start_offset", "has_dictionary", "page_data_for_values"}

# (group, feature key prefix) -> reason.  A difference whose key starts with the prefix is accepted.
ALLOW = {
    "loaders": [
        ("arg:parquet_parse_page_header#1", "header window: min(bytes available in the mapping, 256) vs bytes actually read"),
        ("guard:compressed_page_size,dictionary_page_offset||!= -> ['CARQUET_ERROR_FILE_SEEK']", "positioned read of the fread variant"),
        ("guard:dictionary_page_offset||!= -> ['CARQUET_ERROR_FILE_SEEK']", "positioned read of the fread variant"),
        ("guard:compressed_page_size||!= -> ['CARQUET_ERROR_FILE_READ']", "short read of the fread variant"),
        ("guard:compressed_page_size||!= -> ['CARQUET_ERROR_FILE_SEEK']", "positioned read of the fread variant"),
        ("guard:||< -> ['CARQUET_ERROR_FILE_READ']", "short header read of the fread variant"),
        ("guard:compressed_page_size||! -> ['CARQUET_ERROR_OUT_OF_MEMORY']", "the fread variant allocates the compressed buffer"),
        ("call:carquet_page_is_zero_copy_eligible", "zero-copy hand-out exists only on mapped data"),
        ("arg:carquet_page_is_zero_copy_eligible", "zero-copy hand-out exists only on mapped data"),
        ("guard:compressed_page_size||!=> -> ['CARQUET_ERROR_INVALID_PAGE']", "file-extent validation of the mapped variant (fread fails safely on short reads)"),
        ("guard:compressed_page_size,uncompressed_page_size", "file-extent validation of the mapped variant"),
        ("guard:num_values||!< -> ['CARQUET_ERROR_INVALID_PAGE']", "count validation before the zero-copy hand-out"),
        ("guard:num_values,compressed_page_size", "zero-copy pages must hold their values"),
        ("guard:compressed_page_size,num_values", "zero-copy pages must hold their values"),
        ("set:carquet_column_reader.page_num_values", "zero-copy branch publishes the header's num_values, the decode path the decoded count"),
        ("set:carquet_column_reader.page_data_for_values", "retained buffer: decompressed copy (mmap) vs page buffer (fread)"),
    ],
    "footers": [
        ("guard:file_size||< ->", "size test spelled over reader->file_size vs a local"),
        ("guard:file", "stdio failures of the fread variant"),
        ("set:carquet_reader.file_size", "fread learns the size with ftell"),
        ("set:carquet_reader.", "open_buffer initialises the reader itself; the path-based readers are initialised by carquet_reader_open"),
        ("guard:schema", "result test of build_schema spelled on different objects"),
        ("guard:||! ->", "allocation failure tests"),
        ("leading-magic", "read_footer does not test the leading PAR1 (irrelevant for valid files; C18 tests the trailing magic)"),
    ],
}


def allowed(group, key):
    for pre, why in ALLOW[group]:
        if key.startswith(pre):
            return why
    return None


def run(ctx):
    P = ctx.P
    ctx.clause("C03.1 page-loader siblings agree (callee/argument provenance/guards/cursor assignments)")
    ctx.clause("C03.2 footer readers agree")
    ctx.clause("C03.3 a DATA_VIEW pointer is never freed")
    nfeat = 0
    for a, b in (("load_dictionary_page_mmap", "load_dictionary_page_fread"),
                 ("load_next_page_mmap", "load_next_page_fread")):
        A = Summary(P, P.fn(a, PR), VOC, {"carquet_column_reader"}, header_records=HR, state_fields=SF, errnames=True)
        B = Summary(P, P.fn(b, PR), VOC, {"carquet_column_reader"}, header_records=HR, state_fields=SF, errnames=True)
        nfeat += len(A.features) + len(B.features)
        same = sorted(k for k in A.features if A.features[k] == B.features.get(k))
        for k in same:
            ctx.ok("R9.siblings", "sibling|%s:%s/%s|%s" % (PR, a, b, k), PR, "feature `%s` agrees" % k,
                   "%s" % sorted(map(str, A.features[k])), nontrivial=True)
        for k, xa, xb in diff(A, B):
            key = "sibling|%s:%s/%s|%s" % (PR, a, b, k)
            why = allowed("loaders", k)
            if why is None and k.startswith("guard:") and (k.endswith("-> ['CARQUET_ERROR_OUT_OF_MEMORY']") or (
                    (xa or xb) and set(map(str, xa or [])) | set(map(str, xb or [])) <= {"CARQUET_ERROR_OUT_OF_MEMORY"})):
                why = "which allocations a variant makes (and so which allocation-failure exits it has) is an I/O-mode detail"
            what = "mmap and fread variants agree on `%s`" % k
            if why:
                ctx.suppressed("R9.siblings", key, PR, what, why)
            else:
                ctx.bad("R9.siblings", key, PR, what, "only %s: %s; only %s: %s" % (a, xa, b, xb))
    ctx.floor("C03 loader features", nfeat, 80)

    # footers: the three readers are compared through their rejection sets (their guard
    # dominance is decided under C18)
    # error-code multiset of the validation guards: every reader rejects with INVALID_FOOTER (size,
    # footer length) and INVALID_MAGIC (trailing magic)
    for name, file_ in (("read_footer", FRD), ("read_footer_mmap", FRD), ("carquet_reader_open_buffer", MR)):
        f = P.fn(name, file_)
        codes = []
        for n in f.body.walk():
            if n.k == "IfStmt":
                kids = [x for x in n.c if x is not None]
                for x in kids[1].walk():
                    if x.k == "DeclRefExpr" and x.get("dk") == "enum" and x.name.startswith("CARQUET_ERROR_INVALID"):
                        codes.append(x.name)
        ok = codes.count("CARQUET_ERROR_INVALID_FOOTER") >= 2 and codes.count("CARQUET_ERROR_INVALID_MAGIC") >= 1
        ctx.ob("R9.siblings", "footer-rejections|%s:%s" % (file_, name), P.where(f.body),
               "%s rejects short files, a wrong trailing magic and an oversized footer length" % name, ok,
               str(sorted(set(codes))))

    # ---- view ownership
    nfree = 0
    for fn in P.funcs_under("src/reader/"):
        frees = [c for c in fn.calls("free") if c.args() and c.args()[0].strip_casts().k == "MemberExpr"
                 and c.args()[0].strip_casts().name == "decoded_values"]
        if not frees:
            continue

        def clears(e):
            if is_assign(e) and e.op == "=":
                l = e.c[0].strip()
                if l.k == "MemberExpr" and l.name == "decoded_values":
                    r = e.c[1].strip_casts()
                    return r.cv == 0 or (r.k == "CallExpr" and r.callee in ("malloc", "calloc", "realloc"))
            return False

        def cut(B, si):
            if B.cond is None:
                return False
            t = Canon(fn, inline=False)(B.cond)
            if t[0] == "bin" and t[1] in ("==", "!=") and any(
                    isinstance(x, tuple) and x[0] == "member" and x[2] == "decoded_ownership" for x in (t[2], t[3])):
                const = [x for x in (t[2], t[3]) if x[0] == "int"]
                if not const:
                    return False
                owned = const[0][1] == 0           # CARQUET_DATA_OWNED == 0
                eq = t[1] == "=="
                # edge on which the pointer is known to be owned
                known_owned_on_true = (owned and eq) or (not owned and not eq)
                return (si == 0) == known_owned_on_true
            return False
        for fr in frees:
            nfree += 1
            path = find_path_avoiding(fn.cfg, clears, lambda e: e is fr, cut)
            if path is not None and fn.static:
                # a helper that releases the buffers: the ownership test (or the reset of a view) may be
                # its callers' - then every path to each call must pass it
                from ..rules.whomay import callers_of
                cs = callers_of(P, fn)
                if cs:
                    path = None
                    for g in cs:
                        for call in g.calls(fn.name):
                            def clears_g(e):
                                if is_assign(e) and e.op == "=":
                                    l = e.c[0].strip()
                                    if l.k == "MemberExpr" and l.name == "decoded_values":
                                        r = e.c[1].strip_casts()
                                        return r.cv == 0 or (r.k == "CallExpr" and r.callee in ("malloc", "calloc", "realloc"))
                                return False

                            def cut_g(B, si, g=g):
                                if B.cond is None:
                                    return False
                                t = Canon(g, inline=False)(B.cond)
                                if t[0] == "bin" and t[1] in ("==", "!=") and any(
                                        isinstance(x, tuple) and x[0] == "member" and x[2] == "decoded_ownership" for x in (t[2], t[3])):
                                    const = [x for x in (t[2], t[3]) if x[0] == "int"]
                                    if not const:
                                        return False
                                    owned = const[0][1] == 0
                                    eq = t[1] == "=="
                                    return (si == 0) == ((owned and eq) or (not owned and not eq))
                                return False
                            pg = find_path_avoiding(g.cfg, clears_g, lambda e: e is call, cut_g)
                            if pg is not None:
                                path = pg
            ctx.ob("R2.view", "view-free|%s:%s" % (P.rel(fn.file), fn.name), P.where(fr),
                   "free(decoded_values) is reached only when the buffer is owned (never a mmap view)",
                   path is None, "path: %s" % describe_path(fn, fn.cfg, path) if path else "")
    ctx.floor("C03 free(decoded_values) sites", nfree, 5)
    own = P.enum("carquet_data_ownership")
    if own.get("CARQUET_DATA_OWNED") != 0:
        raise AnalysisBroken("CARQUET_DATA_OWNED is no longer 0")
    # the view is published together with its ownership tag
    ln = P.fn("load_next_page_mmap", PR)
    views = [a for a in ln.body.walk() if is_assign(a) and a.c[0].strip().k == "MemberExpr"
             and a.c[0].strip().name == "decoded_values" and a.c[1].cv is None
             and a.c[1].strip_casts().k not in ("CallExpr", "IntegerLiteral")]
    tags = [a for a in ln.body.walk() if is_assign(a) and a.c[0].strip().k == "MemberExpr"
            and a.c[0].strip().name == "decoded_ownership" and a.c[1].cv == 1]
    okv = len(views) == 1 and len(tags) == 1 and ln.cfg.where()[views[0].i][0] == ln.cfg.where()[tags[0].i][0]
    # ... and what is published as a view really is a pointer into the mapping (it stays valid until
    # the reader is closed), never a heap buffer the column reader recycles
    mapped = _mapped_locals(ln)
    for v in views:
        b = _ptr_base(v.c[1])
        okp = b is not None and b in mapped
        ctx.ob("R2.view", "view-provenance|%s:load_next_page_mmap" % PR, P.where(v),
               "the pointer published as CARQUET_DATA_VIEW is derived from file_reader->mmap_data on every path",
               okp, "value `%s`; locals derived from the mapping: %s" % (src(v.c[1])[:40], sorted(n for n in mapped.values())))
    ctx.ob("R2.view", "view-tag|%s:load_next_page_mmap" % PR, P.where(ln.body),
           "a pointer into the mapping is stored in decoded_values only together with decoded_ownership = VIEW", okv)


def _ptr_base(e):
    x = e.strip_casts()
    while True:
        if x.k in ("ParenExpr", "ImplicitCastExpr", "CStyleCastExpr"):
            x = x.c[0]
        elif x.k == "BinaryOperator" and x.op in ("+", "-"):
            x = x.c[0].strip_casts()
        elif x.k == "ConditionalOperator":
            return None
        else:
            break
    if x.k == "DeclRefExpr" and x.get("dk") == "local":
        return x.get("d")
    if x.k == "MemberExpr" and x.name == "mmap_data":
        return "mmap_data"
    return None


def _mapped_locals(fn):
    """{decl id: name} of pointer locals whose every definition is pointer arithmetic on
    file_reader->mmap_data or on another such local (greatest fixpoint)."""
    defs = {}
    names = {}
    for n in fn.body.walk():
        if n.k == "DeclStmt":
            for d, init in zip(n.get("decls", []), n.c):
                if "d" in d and "*" in (d.get("t") or ""):
                    names[d["d"]] = d["n"]
                    defs.setdefault(d["d"], [])
                    if init is not None:
                        defs[d["d"]].append(init)
        elif is_assign(n):
            t = n.c[0].strip()
            if t.k == "DeclRefExpr" and t.get("dk") == "local" and t.get("d") in defs:
                defs[t.get("d")].append(n.c[1] if n.op == "=" else n.c[0])
        elif n.k == "UnaryOperator" and n.op == "&":
            t = n.c[0].strip_casts()
            if t.k == "DeclRefExpr" and t.get("d") in defs:
                defs[t.get("d")].append(None)      # address escapes: unknown definitions
    ok = {d: True for d in defs if defs[d]}
    ok["mmap_data"] = True
    changed = True
    while changed:
        changed = False
        for d, ds in defs.items():
            if not ok.get(d):
                continue
            for e in ds:
                b = _ptr_base(e) if e is not None else None
                if b is None or not ok.get(b):
                    ok[d] = False
                    changed = True
                    break
    return {d: names.get(d, d) for d, v in ok.items() if v and d != "mmap_data"}
