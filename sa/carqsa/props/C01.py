"""C01 - write-then-read round trip (necessary structural clauses)."""
import itertools

from ..canon import Canon
from ..extract import AnalysisBroken
from ..facts import src
from ..rules import results as R
from ..rules.flow import find_path_avoiding, describe_path
from ..rules.skeleton import Interp, Ptr, U, Budget, Stop
from ..util import switch_table, find_switches, is_assign
from . import C11

EXPLANATION = (
    "Static decision of necessary structural clauses of C01: (1) the PLAIN codec tables: the page "
    "writer's add_values and carquet_decode_plain are executed abstractly once per physical type value "
    "(and for values outside the enum) with every carquet_encode_plain_* / carquet_decode_plain_* hooked "
    "- the codec reached per type is the same on both sides and unknown types are refused; (2) nothing "
    "buffered is lost: carquet_column_writer_finalize executed over {empty, non-empty page} x {page "
    "finaliser fails, append fails} finalizes a non-empty page, appends exactly the bytes and size the "
    "page writer returned to the column buffer, and only then resets the page writer; "
    "carquet_row_group_writer_finalize, executed for 0..3 columns x failure position, finalizes every "
    "column in order and appends exactly the bytes each returned; (3) every status on the write path "
    "(src/writer/*, the RLE and PLAIN encoders, buffer.c) is consumed on every path; (4) the hybrid level "
    "encoder never pads in mid-stream and writes pending literals before a run (shared with C11.1) and "
    "PLAIN encoders append exactly what the decoders consume (C11.2); (5) PLAIN BYTE_ARRAY by "
    "cursor-skeleton execution over abstract inputs (length fields drawn from {0,1,5}, contents unknown, "
    "0..3 values): the decoder accepts every exactly fitting page - including a trailing empty string - "
    "with consumed = sum(4+len), rejects a page one byte short, never reads outside the page, and the "
    "encoder appends sum(4+len) bytes; (6) compress_data, decompress_page and the four page loaders, "
    "executed once per codec value and size relation, store/copy the caller's bytes only for UNCOMPRESSED "
    "and otherwise use exactly that codec's compressor/decompressor with the stored bytes and full "
    "buffers (no size-based shortcut). All executions are abstract execution (the repository's own "
    "constant-propagation interpreter over the clang AST: configuration values are concrete, file "
    "contents and buffers are Unknown, callees at the boundary of the function are hooked and recorded as "
    "events, every path is enumerated). (7) tag bytes built by OR-ing shifted fields (Snappy / LZ4 "
    "elements, RLE run headers, Thrift field and list headers) hold every field value the guards on the "
    "path admit. (8) carquet_page_writer_add_values followed by carquet_page_writer_num_values, executed with the encoders hooked over NULL / value mixes: the pending count is the number of level entries handed in, so a page of NULLs only is flushed and counted like any other. (R46) a decode or encode buffer that is grown because a page does not fit is grown to at least the page (a later, larger page is a second use): the capacity stored in a `request > capacity` branch is the request, an expression every arm of which contains it, or a value the branch compares with it (clamp or doubling loop) - geometric growth alone serves the first request and under-allocates a later one above twice the capacity. (10) what the reader's built-in Snappy and LZ4 decompressors return for valid streams built from the format documents is what the formats define (rule shared with C10): a page the writer compressed is only as readable as its decompressor is right on every element form, not just on the forms carquet's own compressors emit today. Decides these clauses, not value/null-position equality (the "
    "multi-batch level layout is a known value-level limitation described in DESIGN.md).")

PW = "src/writer/page_writer.c"
CW = "src/writer/column_writer.c"
RW = "src/writer/row_group_writer.c"
PL = "src/encoding/plain.c"
TYPES = {"CARQUET_PHYSICAL_BOOLEAN": "boolean", "CARQUET_PHYSICAL_INT32": "int32",
         "CARQUET_PHYSICAL_INT64": "int64", "CARQUET_PHYSICAL_INT96": "int96",
         "CARQUET_PHYSICAL_FLOAT": "float", "CARQUET_PHYSICAL_DOUBLE": "double",
         "CARQUET_PHYSICAL_BYTE_ARRAY": "byte_array",
         "CARQUET_PHYSICAL_FIXED_LEN_BYTE_ARRAY": "fixed_byte_array"}


def run(ctx):
    P = ctx.P
    ctx.clause("C01.10 the built-in block decompressors return what the formats define for valid format-built streams (rule shared with C10)")
    from ..rules import blockfmt
    ctx.floor("C01 format-built streams through the block decompressors", blockfmt.check(ctx, valid_only=True), 60)
    ctx.clause("C01.9 a decode or encode buffer that is grown because a page does not fit is grown to at least the page (a later, larger page is a second use) (R46)")
    from ..rules import growth
    ngr = growth.check(ctx, [f for f in P.lib_functions() if P.rel(f.file).startswith(("src/reader/", "src/writer/", "src/core/", "src/encoding/",))])
    ctx.count("growth_branches", ngr)
    ctx.clause("C01.1 writer/reader PLAIN codec tables agree")
    ctx.clause("C01.2 nothing buffered is lost at finalize")
    ctx.clause("C01.3 write-path statuses consumed")
    ctx.clause("C01.4 level encoder never pads mid-stream; PLAIN sizes agree")
    ctx.clause("C01.5 PLAIN BYTE_ARRAY accepts exactly fitting pages (skeleton with abstract lengths)")
    ctx.clause("C01.6 the codec tag alone decides raw vs codec stream, in compress_data and in decompress_page")
    ctx.clause("C01.8 the page writer's pending count is the number of level entries it was given, NULL entries included (an all-NULL page is a page)")
    ctx.floor("C01 page-count batch sequences", _page_counts(ctx), 4)
    ctx.clause("C01.7 tag bytes written by the compressors, the level encoder and the Thrift encoder hold every field value their guards admit")
    from ..rules import fieldfit
    nff, nffd = fieldfit.check(ctx, P.funcs_in("src/compression/snappy.c", "src/compression/lz4.c", "src/encoding/rle.c", "src/thrift/thrift_encode.c"))
    ctx.floor("C01 packed tag bytes decided", nffd, 8)
    from ..rules import codecrepr
    codecrepr.writer(ctx)
    codecrepr.reader(ctx)
    codecrepr.loaders(ctx)
    av = P.fn("carquet_page_writer_add_values", PW)
    dp = P.fn("carquet_decode_plain", PL)
    codecrepr.plain_tables(ctx)

    # ---- (2)
    cf = P.fn("carquet_column_writer_finalize", CW)
    # column finalize is executed abstractly (empty / non-empty current page x failure of the page
    # finaliser or of the append; the page writer and the buffer are hooked): a non-empty page is
    # finalized, exactly its bytes are appended to the column buffer, then the page writer is reset; an
    # empty page is skipped; a failure stops before the reset and is returned
    from ..rules import sem
    verd = {"finalize-flushes": None, "flush-order": None, "flush-bytes": None, "flush-skip-empty": None, "flush-fail": None}
    nsc = 0
    try:
        co = sem.field_offsets(P, "carquet_column_writer_internal")
        bo = sem.field_offsets(P, "carquet_buffer")
        for nvals in (0, 5):
            for fail in (None, "finalize", "append"):
                if nvals == 0 and fail:
                    continue
                nsc += 1
                heap0 = {("cw", co["page_writer"]): sem.Ptr("pw", 0, 1), ("cw", co["column_buffer"] + bo["size"]): 500,
                         ("cw", co["column_buffer"] + bo["data"]): sem.Ptr("colbuf", 0, 1),
                         ("cw", co["total_values"]): 40, ("cw", co["total_uncompressed_size"]): 1000,
                         ("cw", co["total_compressed_size"]): 600, ("cw", co["num_pages"]): 2}

                def pfin(ev, a, it, fail=fail):
                    ev.append(("finalize", getattr(a[0], "base", a[0])))
                    sem.set_out(it, a[1], sem.Ptr("pagebytes", 0, 1))
                    sem.set_out(it, a[2], 77)
                    if len(a) > 3:
                        sem.set_out(it, a[3], 100)
                    if len(a) > 4:
                        sem.set_out(it, a[4], 70)
                    return 5 if fail == "finalize" else 0

                def app(ev, a, it, fail=fail):
                    ev.append(("append", (a[0].base, a[0].off) if isinstance(a[0], sem.Ptr) else a[0], getattr(a[1], "base", a[1]), a[2]))
                    return 6 if fail == "append" else 0
                args = [sem.Ptr("cw", 0, 1)] + [sem.Ptr("o%d" % i, 0, 8) for i in range(5)]
                ret, ev, heap = sem.run(P, cf, args, heap0=heap0, single=True, max_forks=64, hooks={
                    "carquet_page_writer_num_values": lambda ev, a, it, nvals=nvals: nvals,
                    "carquet_page_writer_finalize": pfin, "carquet_buffer_append": app,
                    "carquet_page_writer_reset": lambda ev, a, it: ev.append(("reset", getattr(a[0], "base", a[0])))})
                sc = "%d buffered value(s)%s" % (nvals, ", %s fails" % fail if fail else "")
                colbuf = ("cw", co["column_buffer"])
                if nvals == 0:
                    if [e for e in ev if e[0] in ("finalize", "append")] or ret != 0:
                        verd["flush-skip-empty"] = verd["flush-skip-empty"] or "%s: %s, returns %s" % (sc, ev, ret)
                    continue
                if fail is None:
                    if not ev or ev[0] != ("finalize", "pw"):
                        verd["finalize-flushes"] = verd["finalize-flushes"] or "%s: %s" % (sc, ev)
                    elif [e[0] for e in ev] != ["finalize", "append", "reset"] or ret != 0:
                        verd["flush-order"] = verd["flush-order"] or "%s: %s, returns %s" % (sc, ev, ret)
                    elif ev[1] != ("append", colbuf, "pagebytes", 77):
                        verd["flush-bytes"] = verd["flush-bytes"] or "%s: %s" % (sc, ev[1])
                else:
                    want = ["finalize"] if fail == "finalize" else ["finalize", "append"]
                    if [e[0] for e in ev] != want or ret != (5 if fail == "finalize" else 6):
                        verd["flush-fail"] = verd["flush-fail"] or "%s: %s, returns %s" % (sc, ev, ret)
        what = {"finalize-flushes": "column finalize flushes a non-empty current page before reporting the chunk",
                "flush-order": "a page is finalized, appended to the column buffer, and only then reset",
                "flush-bytes": "the bytes appended are exactly (page_data, page_size) returned by the page writer",
                "flush-skip-empty": "a page is skipped only when it holds no values",
                "flush-fail": "a failing page finaliser / append is returned and the page writer is not reset"}
        for k_, msg in verd.items():
            ctx.ob("R6.order" if k_ in ("flush-order", "flush-bytes") else "R6.must-pass",
                   "%s|%s:carquet_column_writer_finalize" % (k_, CW), P.where(cf.body),
                   what[k_] + " (%d scenarios, abstract execution)" % nsc, msg is None, msg or "")
    except (sem.Inconclusive, KeyError) as ex:
        ctx.inconclusive("R6.must-pass", "finalize-trace|%s:carquet_column_writer_finalize" % CW, P.where(cf.body),
                         "abstract execution of column finalize", "%s: %s" % (type(ex).__name__, ex))
    ctx.floor("C01 column finalize scenarios", nsc, 4)
    rg = P.fn("carquet_row_group_writer_finalize", RW)
    # abstract execution for 0..3 columns (the column finalizer and the buffer append are hooked): every
    # column is finalized and its bytes appended, in column order; a failing column stops with its error
    from ..rules import sem
    wo = sem.field_offsets(P, "carquet_row_group_writer")
    badr = None
    try:
        for N in range(0, 4):
            for fail_at in [None] + list(range(N)):
                heap0 = {("w", wo["num_columns"]): N, ("w", wo["column_writers"]): sem.Ptr("cw", 0, 8),
                         ("w", wo["column_infos"]): sem.Ptr("ci", 0, P.record("carquet_column_info")["size"] if "carquet_column_info" in P.records else 64)}
                for i in range(N):
                    heap0[("cw", 8 * i)] = sem.Ptr("col%d" % i, 0, 1)

                def fin(ev, a, it, fail_at=fail_at):
                    name = getattr(a[0], "base", None)
                    ev.append(("finalize", name))
                    idx = int(name[3:]) if isinstance(name, str) and name.startswith("col") else -1
                    if len(a) > 2:
                        sem.set_out(it, a[1], sem.Ptr("bytes%d" % idx, 0, 1))
                        sem.set_out(it, a[2], 1000 + idx)
                    for o in a[3:]:
                        sem.set_out(it, o, 7)
                    return 5 if fail_at == idx else 0
                args = [sem.Ptr("w", 0, 1), sem.Ptr("data_out", 0, 8), sem.Ptr("size_out", 0, 8), 10]
                paths = sem.run(P, rg, args, heap0=heap0, single=False, max_forks=64, hooks={
                    "carquet_column_writer_finalize": fin,
                    "carquet_buffer_append": lambda ev, a, it: ev.append(("append", getattr(a[1], "base", a[1]), a[2])) or 0,
                    "carquet_buffer_clear": lambda ev, a, it: 0})
                upto = N if fail_at is None else fail_at
                want = []
                for i in range(upto):
                    want += [("finalize", "col%d" % i), ("append", "bytes%d" % i, 1000 + i)]
                if fail_at is not None:
                    want.append(("finalize", "col%d" % fail_at))
                for ret, ev, heap in paths:
                    okp = ev == want and ((fail_at is None and ret == 0) or (fail_at is not None and ret == 5))
                    if not okp and badr is None:
                        badr = "%d column(s)%s: %s, returns %s" % (N, "" if fail_at is None else ", column %d fails" % fail_at, ev, ret)
        ctx.ob("R6.must-pass", "rowgroup-all-columns|%s:carquet_row_group_writer_finalize" % RW, P.where(rg.body),
               "row-group finalize finalizes every column 0..num_columns-1 in order and appends exactly the bytes each "
               "returned; a failing column returns its error (0..3 columns x failure position)", badr is None, badr or "")
    except (sem.Inconclusive, KeyError) as ex:
        ctx.inconclusive("R6.must-pass", "rowgroup-all-columns|%s:carquet_row_group_writer_finalize" % RW, P.where(rg.body),
                         "abstract execution of row-group finalize", str(ex))

    # ---- (3)
    fns = P.funcs_under("src/writer/") + P.funcs_in("src/encoding/rle.c", PL, "src/core/buffer.c")
    statusf = R.status_functions(P)
    n = R.check_status_calls(ctx, fns, statusf, "R1.status", pid_key="wstatus")
    ctx.floor("C01 write-path status call sites", n, 60)

    # ---- (4)
    C11.run_pad_rule(ctx)
    C11.run_order_rule(ctx)
    C11._plain(ctx)

    # ---- (5)
    _byte_array(ctx)


def _byte_array(ctx):
    P = ctx.P
    dec = P.fn("carquet_decode_plain_byte_array", PL)
    enc = P.fn("carquet_encode_plain_byte_array", PL)
    bad = []
    runs = 0
    for count in range(0, 4):
        for lens in itertools.product((0, 1, 5), repeat=count):
            total = sum(4 + l for l in lens)
            # abstract page: concrete length fields, unknown contents
            layout = {}
            pos = 0
            for l in lens:
                for k in range(4):
                    layout[pos + k] = (l >> (8 * k)) & 0xFF
                pos += 4 + l
            for size, fits in ((total, True), (total - 1, False), (total + 2, True)):
                if size < 0:
                    continue
                it = Interp(P, dec, budget=200000, max_forks=64)

                def mem(base, off, n_, layout=layout, size=size):
                    if base != "in" or off + n_ > size:
                        return None
                    if all((off + k) in layout for k in range(n_)):
                        return sum(layout[off + k] << (8 * k) for k in range(n_))
                    return None
                it.memory = mem
                try:
                    outs = it.run([Ptr("in", 0, 1), size, Ptr("out", 0, 16), count])
                except (Budget, Stop) as ex:
                    ctx.inconclusive("R4.skeleton", "bytearray-fit|%s" % PL, P.where(dec.body), str(ex))
                    return
                for acc, ret in outs:
                    runs += 1
                    for a in acc:
                        if a.base == "in" and (a.lo < 0 or a.hi > size):
                            bad.append("lens=%s size=%d: read [%d,%d) outside the page" % (list(lens), size, a.lo, a.hi))
                    if len(outs) != 1:
                        bad.append("lens=%s: decoder's control flow depends on unknown bytes" % (list(lens),))
                    elif fits and ret != total:
                        bad.append("page of values with lengths %s (%d bytes, size %d) is %s instead of consuming %d bytes"
                                   % (list(lens), total, size, "rejected" if ret == -1 else "reported as %s" % ret, total))
                    elif not fits and count > 0 and ret != -1:
                        bad.append("lens=%s: page one byte short is accepted (returns %s)" % (list(lens), ret))
            # encoder
            appended = []
            it = Interp(P, enc, budget=200000, max_forks=64)
            C11._hooks(it, appended)

            def emem(base, off, n_, lens=lens):
                if base != "in":
                    return None
                i, f = divmod(off, 16)
                if i < len(lens):
                    if f == 8 and n_ == 4:
                        return lens[i]
                    if f == 0 and n_ == 8:
                        return Ptr("d%d" % i, 0, 1)
                return None
            it.memory = emem
            try:
                outs = it.run([Ptr("in", 0, 16), count, U])
            except (Budget, Stop) as ex:
                ctx.inconclusive("R4.skeleton", "bytearray-fit|%s" % PL, P.where(enc.body), str(ex))
                return
            tot = sum(x for x in appended if isinstance(x, int))
            if len(outs) == 1 and tot != total:
                bad.append("encoder appends %d bytes for lengths %s, decoder needs %d" % (tot, list(lens), total))
    ctx.count("bytearray_skeleton_runs", runs)
    rec = P.records.get("carquet_byte_array")
    lay_ok = rec is not None and [(f["n"], f.get("off")) for f in rec["fields"]] == [("data", 0), ("length", 64)]
    if not lay_ok:
        raise AnalysisBroken("carquet_byte_array layout changed; the abstract input model must be updated")
    ctx.ob("R4.skeleton", "bytearray-fit|%s" % PL, P.where(dec.body),
           "PLAIN BYTE_ARRAY: every exactly fitting page of 0..3 values with lengths in {0,1,5} is consumed "
           "completely, a page one byte short is refused, no read leaves the page, the encoder appends sum(4+len)",
           not bad, "; ".join(bad[:3]))


def _page_counts(ctx):
    """carquet_page_writer_add_values followed by carquet_page_writer_num_values, executed abstractly (level and value
    encoders hooked): the count the column writer tests for `page is empty` and adds to the chunk's value count is the
    number of level entries handed in - NULL entries included. A page of NULLs only is still a page that has to be written."""
    from ..rules import sem
    from ..rules.skeleton import Ptr
    P = ctx.P
    PWF = "src/writer/page_writer.c"
    add = P.fn_opt("carquet_page_writer_add_values", PWF)
    cnt = P.fn_opt("carquet_page_writer_num_values", PWF)
    if add is None or cnt is None:
        raise AnalysisBroken("anchor functions carquet_page_writer_add_values / carquet_page_writer_num_values not found in %s" % PWF)
    key = "page-count|%s:carquet_page_writer_num_values" % PWF
    what = ("after add_values the page writer reports every level entry it was given as pending - entries that are NULL included "
            "(the column writer skips a page whose count is 0 and sums the counts into the chunk's num_values)")
    try:
        rec = P.record("carquet_page_writer")
        wo = sem.field_offsets(P, "carquet_page_writer")
        phys = P.enum("carquet_physical_type")
        bad = None
        done = 0
        for label, batches in (("3 entries, all NULL", [[0, 0, 0]]), ("3 entries, none NULL", [[1, 1, 1]]), ("NULL, value, NULL", [[0, 1, 0]]),
                               ("3 NULL entries, then 2 values", [[0, 0, 0], [1, 1]]), ("a REQUIRED column, 4 values", [None])):
            heap = {}
            for f in rec["fields"]:
                t = (f.get("t") or "")
                if f.get("off") is not None and "*" not in t and "[" not in t and "struct" not in t and "carquet_buffer" not in t:
                    heap[("pw", f["off"] // 8)] = 0
            heap[("pw", wo["type"])] = phys["CARQUET_PHYSICAL_INT32"]
            heap[("pw", wo["max_def_level"])] = 0 if batches == [None] else 1
            total = 0
            for dl in batches:
                n_ = 4 if dl is None else len(dl)
                total += n_
                h = dict(heap)
                for i in range(8):
                    h.pop(("dl", 2 * i), None)
                if dl is not None:
                    for i, v in enumerate(dl):
                        h[("dl", 2 * i)] = v
                hooks = {"encode_levels": lambda ev, a, it: 0, "update_statistics_i32": lambda ev, a, it: None}
                for nm in P.by_name:
                    if nm.startswith("carquet_encode_plain_") or nm.startswith("update_statistics_"):
                        hooks[nm] = (lambda ev, a, it: 0)
                ret, ev, heap = sem.run(P, add, [Ptr("pw", 0, 1), Ptr("vals", 0, 4), n_, Ptr("dl", 0, 2) if dl is not None else 0, 0], heap0=h, hooks=hooks,
                                        single=True, max_forks=16, budget=200000, inline_depth=3)
                if ret != 0:
                    raise sem.Inconclusive("%s: add_values returns %r" % (label, ret))
            got, ev2, heap2 = sem.run(P, cnt, [Ptr("pw", 0, 1)], heap0=heap, hooks={}, single=True, max_forks=4, budget=20000)
            done += 1
            if not isinstance(got, int):
                raise sem.Inconclusive("%s: the count is %r" % (label, got))
            if got != total and bad is None:
                bad = "%s: %d entries handed in, carquet_page_writer_num_values reports %d%s" % (
                    label, total, got, " - the page looks empty and is never written" if got == 0 else "")
        ctx.ob("R5.agree", key, P.where(cnt.body), what + " (%d batch sequences)" % done, bad is None, bad or "")
        return done
    except (sem.Inconclusive, KeyError) as ex:
        ctx.inconclusive("R5.agree", key, P.where(cnt.body), what, "%s: %s" % (type(ex).__name__, ex))
        return 0
