"""C20 - Bloom filters: no false negatives (structural) + Parquet SBBF/XXH64 constants."""
from collections import Counter

from ..canon import Canon, fold, show, subtrees
from ..extract import AnalysisBroken
from ..facts import src
from ..util import assignments, const_fingerprint, is_assign

EXPLANATION = (
    "Static decision of structural clauses of C20 on src/metadata/bloom_filter.c and "
    "src/util/xxhash.c: (1) every store to filter bits is monotone (|=) or the initialisation of "
    "a freshly allocated buffer; (2) block_check tests exactly the (word, bit) expression that "
    "block_insert sets, and every 'false' answer is guarded by that test; (3) insert_hash and "
    "check_hash select the block through the same expression; (4) each typed insert/check pair "
    "hashes the same bytes with seed 0; (5) write/read/merge preserve the bits (verbatim copy, "
    "size guards, OR-merge under an equal-size guard); create, executed for every requested size 0..200, "
    "yields a zeroed buffer of whole 32-byte blocks described exactly by num_bytes/num_blocks; insert "
    "writes and check reads all 8 words of the block; every typed insert reaches insert_hash and the early "
    "exits of insert_hash/check_hash coincide; carquet_xxhash64, executed abstractly with opaque input bytes and "
    "seed for every length 0..72 (0..160 thorough), returns a term whose canonical form equals that of the XXH64 "
    "specification written over the same bytes (a differing formula needs an input on which both evaluate "
    "differently to count as a violation; when the term cannot be extracted the rule falls back to the constant "
    "fingerprint and the consumption schedule for lengths 0..200); (6) constants and shapes equal the Parquet "
    "split-block Bloom filter specification (SALT words, 8 words per 32-byte block, bit from the "
    "top 5 bits of salt*key, key = low 32 bits, block index = ((h>>32)*n)>>32) and XXH64's "
    "prime/rotation/shift constants (call-site-expanded (operator, constant) fingerprint); (7) no byte "
    "assembly of type int in the hash can carry bit 31 into the 64-bit lane (sign extension on widening). "
    "(8) a typed insert/check hashes its value parameter as given: no store to the parameter before the hash (a 'canonicalised' -0.0 makes insert and check disagree and the bits stop being those of the plain-encoded value). Decides these clauses, not hash/value equality for every input.")

BF = "src/metadata/bloom_filter.c"
XX = "src/util/xxhash.c"
REC = "carquet_bloom_filter"

SPEC_SALT = [0x47b6137b, 0x44974d91, 0x8824ad5b, 0xa2b7289d, 0x705495c7, 0x2df1424b,
             0x9efc4947, 0x5c6bfb31]
P1, P2, P3, P4, P5 = (0x9E3779B185EBCA87, 0xC2B2AE3D27D4EB4F, 0x165667B19E3779F9,
                      0x85EBCA77C2B2AE63, 0x27D4EB2F165667C5)
# XXH64 reference algorithm, helpers expanded at each call site: minimum number of sites
SPEC_XXH = {("*", P2): 11, ("*", P1): 16, ("+", P4): 5, ("+", P3): 1, ("*", P3): 1, ("*", P5): 1,
            ("+", P5): 1, ("+", P1): 1, ("+", P2): 2, ("-", P1): 1,
            ("arg", 31): 9, ("arg", 1): 1, ("arg", 7): 1, ("arg", 12): 1, ("arg", 18): 1,
            ("arg", 27): 1, ("arg", 23): 1, ("arg", 11): 1,
            (">>", 33): 1, (">>", 29): 1, (">>", 32): 1, (">=", 32): 1}


def nocast(t):
    if isinstance(t, tuple):
        if t[0] == "cast":
            return nocast(t[2])
        return tuple(nocast(x) for x in t)
    return t


def has_data_member(t):
    return any(isinstance(s, tuple) and s[0] == "member" and s[2] == "data" for s in subtrees(t))


def u(v, bits=64):
    return v & ((1 << bits) - 1) if v is not None else None


def run(ctx):
    P = ctx.P
    fns = {f.name: f for f in P.funcs_in(BF)}
    need = ["carquet_bloom_filter_create", "carquet_bloom_filter_from_data",
            "carquet_bloom_filter_insert_hash", "carquet_bloom_filter_check_hash",
            "carquet_bloom_filter_write", "carquet_bloom_filter_read", "carquet_bloom_filter_merge"]
    for n in need:
        if n not in fns:
            raise AnalysisBroken("anchor function %s missing in %s" % (n, BF))
    ctx.clause("C20.1 monotone stores, insert/check symmetry, typed pairs, serialisation guards")
    ctx.clause("C20.2 Parquet SBBF constants/shapes and XXH64 constants")
    ctx.clause("C20.3 the byte assemblies of the hash keep bit 31 clear when widened to 64 bits")
    from ..rules import widen
    widen.check_signext(ctx, ["src/util/xxhash.c", "src/metadata/bloom_filter.c"])

    # ---- which static-function parameters receive filter bits (one level through call sites)
    # helpers that return a pointer into the bits (`return filter->data + idx * 32;`)
    bits_returning = set()
    for f in fns.values():
        if "*" in (f.ret or "") and f.static:
            czf = Canon(f)
            if any(r.c and r.c[0] is not None and has_data_member(czf(r.c[0])) for r in f.returns()):
                bits_returning.add(f.name)

    def from_bits_helper(t):
        return any(isinstance(s, tuple) and s[0] == "call" and isinstance(s[1], tuple) and s[1][0] == "func" and s[1][1] in bits_returning
                   for s in subtrees(t))
    bits_params = {}  # fn name -> set(param index)
    for f in fns.values():
        cz = Canon(f)
        for call in f.calls():
            tgt = fns.get(call.callee)
            if tgt is None:
                continue
            for idx, a in enumerate(call.args()):
                ta = cz(a)
                if has_data_member(ta) or from_bits_helper(ta):
                    bits_params.setdefault(tgt.name, set()).add(idx)

    def is_bits(f, cz, expr):
        t = cz(expr)
        if has_data_member(t) or from_bits_helper(t):
            return True
        for s in subtrees(t):
            if isinstance(s, tuple) and s[0] == "param" and s[1] in bits_params.get(f.name, ()):
                return True
        return False

    # ---- (1) monotone stores
    nstores = 0
    for f in fns.values():
        cz = Canon(f)
        allocs_data = any(is_assign(a) and a.op == "=" and a.c[0].strip().k == "MemberExpr"
                          and a.c[0].strip().name == "data"
                          and any(c.callee in ("malloc", "calloc") for c in a.c[1].walk()
                                  if c.k == "CallExpr")
                          for a in assignments(f.body))
        for a in f.body.walk():
            if is_assign(a) or (a.k == "UnaryOperator" and a.op in ("++", "--")):
                lhs = a.c[0].strip()
                if lhs.k not in ("ArraySubscriptExpr", "UnaryOperator"):
                    continue
                if lhs.k == "UnaryOperator" and lhs.op != "*":
                    continue
                base = lhs.c[0]
                if not is_bits(f, cz, base):
                    continue
                nstores += 1
                key = "monotone-store|%s:%s|%s" % (BF, f.name, a.op)
                ctx.ob("R11.monotone", key, P.where(a),
                       "store to filter bits `%s` must be monotone (|=)" % src(a),
                       a.op == "|=", "op is %s" % a.op)
            elif a.k == "CallExpr" and a.callee in ("memset", "memcpy", "memmove") and a.args() and f.name not in ("carquet_bloom_filter_from_data", "carquet_bloom_filter_merge"):
                if is_bits(f, cz, a.args()[0]):
                    nstores += 1
                    key = "bulk-store|%s:%s|%s" % (BF, f.name, a.callee)
                    ctx.ob("R11.monotone", key, P.where(a),
                           "bulk write `%s` to filter bits only as initialisation of a buffer "
                           "allocated in the same function" % src(a), allocs_data,
                           "function allocates ->data" if allocs_data else "no allocation here")
    ctx.floor("C20 filter-bit stores", nstores, 2)

    cr = fns["carquet_bloom_filter_create"]      # zero-initialisation is decided with the geometry below

    # ---- (2) insert/check symmetry, (3) block selection, (6a) mask and index formulas: decided on the formulas
    # the functions compute (hash carried as an opaque term through abstract execution)
    from ..rules import sbbf
    nsb = sbbf.check(ctx)
    ctx.floor("C20 SBBF formula obligations", nsb, 12)
    # SALT
    # the salt table (whatever its name): a constant array of 8 32-bit words of this file. Its values also enter the
    # mask formulas compared above; this obligation reports the table itself.
    salts = []
    for unit, g in P.globals:
        if P.rel(g["file"]) == BF and g.get("init") is not None and g.get("const") and "[8]" in g["t"] and "int" in g["t"]:
            salts.append([x.cv if x.cv is not None else x.strip_casts().get("v") for x in g["init"].kids()])
    if len(salts) == 1:
        ctx.ob("R5.spec", "salt|%s" % BF, BF, "the salt table equals the 8 Parquet salt words",
               [u(x, 32) for x in salts[0]] == SPEC_SALT, str([hex(u(x, 32)) for x in salts[0]]))

    ch = fns["carquet_bloom_filter_check_hash"]
    # returns of check_hash: never a constant false
    for r in ch.returns():
        if r.c and r.c[0] is not None and r.c[0].cv == 0:
            ctx.bad("R11.symmetry", "const-false|%s:%s" % (BF, ch.name), P.where(r),
                    "check_hash returns a constant false (false negative)")

    # ---- (4) typed pairs
    pairs = 0
    for ty, size in (("i32", 4), ("i64", 8), ("float", 4), ("double", 8), ("bytes", None)):
        fi, fc = fns.get("carquet_bloom_filter_insert_" + ty), fns.get("carquet_bloom_filter_check_" + ty)
        if fi is None or fc is None:
            raise AnalysisBroken("typed bloom pair %s missing" % ty)
        pairs += 1
        hi, hc = fi.calls("carquet_xxhash64"), fc.calls("carquet_xxhash64")
        key = "typed-pair|%s:%s" % (BF, ty)
        if len(hi) != 1 or len(hc) != 1:
            ctx.bad("R11.symmetry", key, P.where(fi.body), "insert/check must hash through carquet_xxhash64 once")
            continue
        ai = [nocast(Canon(fi)(a)) for a in hi[0].args()]
        ac = [nocast(Canon(fc)(a)) for a in hc[0].args()]
        same = ai == ac and fi.params[1]["t"] == fc.params[1]["t"]
        ctx.ob("R11.symmetry", key, P.where(hc[0]),
               "insert_%s and check_%s hash the same bytes with the same seed" % (ty, ty), same,
               "%s / %s" % ([show(x) for x in ai], [show(x) for x in ac]))
        seed0 = ai[2] == ("int", 0) and ac[2] == ("int", 0)
        plain = True
        if size is not None:
            plain = ai[1] == ("int", size) and ai[0][0] == "un" and ai[0][1] == "&"
        ctx.ob("R5.spec", "typed-hash-spec|%s:%s" % (BF, ty), P.where(hi[0]),
               "hash = XXH64(plain little-endian bytes of the value, seed 0)", seed0 and plain,
               show(("call", ("func", "xxh64")) + tuple(ai)))
        # the bytes hashed are the caller's value as given: a typed function that rewrites its value parameter before
        # hashing (a "canonical" zero, a rounded float) makes insert and check disagree on exactly those values, and
        # the bits stop being those of the plain-encoded value
        from ..canon import info as _info
        for f_, role in ((fi, "insert"), (fc, "check")):
            if size is None:
                continue
            pd = f_.params[1]["d"]
            touched = [n for n in f_.body.walk() if (is_assign(n) or (n.k == "UnaryOperator" and n.op in ("++", "--")))
                       and n.c[0].strip().k == "DeclRefExpr" and n.c[0].strip().get("d") == pd]
            ctx.ob("R5.spec", "typed-value-unmodified|%s:%s_%s" % (BF, role, ty), P.where(f_.body),
                   "%s_%s hashes its value parameter as given (no store to it before the hash)" % (role, ty),
                   not touched, "stored to at %s: `%s`" % (P.where(touched[0]), src(touched[0])[:60]) if touched else "")
        # the hash flows to *_hash with the filter
        for f, callee in ((fi, "carquet_bloom_filter_insert_hash"), (fc, "carquet_bloom_filter_check_hash")):
            cs = f.calls(callee)
            okflow = False
            if len(cs) == 1:
                a = [nocast(Canon(f)(x)) for x in cs[0].args()]
                okflow = (a[0][0] == "param" and a[0][1] == 0 and a[1][0] == "call"
                          and a[1][1] == ("func", "carquet_xxhash64"))
            ctx.ob("R11.symmetry", "typed-flow|%s:%s" % (BF, f.name), P.where(f.body),
                   "%s passes (filter, xxhash64(...)) to %s" % (f.name, callee), okflow)
        # every value handed to insert_<ty> is inserted: no path leaves without the insert_hash call
        from ..rules.flow import reaches_exit_avoiding, describe_path
        pth = reaches_exit_avoiding(fi.cfg, lambda e: e.k == "CallExpr" and e.callee == "carquet_bloom_filter_insert_hash")
        ctx.ob("R6.must-pass", "typed-insert-total|%s:%s" % (BF, fi.name), P.where(fi.body),
               "%s inserts every value it is given (no exit without insert_hash); check_%s hashes every probe"
               % (fi.name, ty), pth is None, "path: %s" % describe_path(fi, fi.cfg, pth) if pth else "")
        for r in fc.returns():
            e = r.c[0].strip() if r.c and r.c[0] is not None else None
            ctx.ob("R11.symmetry", "typed-return|%s:%s" % (BF, fc.name), P.where(r),
                   "typed check returns check_hash's answer unmodified",
                   e is not None and e.k == "CallExpr" and e.callee == "carquet_bloom_filter_check_hash")
    ctx.floor("C20 typed pairs", pairs, 5)
    # insert_hash may decline to insert only where check_hash answers "maybe": the early-exit guards
    # of the two are the same conditions, and check's early answer is true
    ih, ch = fns.get("carquet_bloom_filter_insert_hash"), fns.get("carquet_bloom_filter_check_hash")
    if ih is None or ch is None:
        raise AnalysisBroken("insert_hash/check_hash missing")

    def early(f):
        out = []
        for g in f.body.kids():
            if g.k == "IfStmt":
                kids = [x for x in g.c if x is not None]
                rs = [r for r in kids[1].walk() if r.k == "ReturnStmt"]
                if rs:
                    out.append((nocast(Canon(f, inline=False)(kids[0])), rs))
        return out
    ei, ec = early(ih), early(ch)
    ctx.ob("R11.symmetry", "hash-early-exits|%s" % BF, P.where(ih.body),
           "insert_hash skips the insertion exactly under the conditions for which check_hash answers true",
           [c for c, _ in ei] == [c for c, _ in ec] and
           all(r.c and r.c[0] is not None and r.c[0].cv == 1 for _, rs in ec for r in rs),
           "%s / %s" % ([show(c) for c, _ in ei], [show(c) for c, _ in ec]))

    # ---- (5) serialisation / merge
    wr = fns["carquet_bloom_filter_write"]
    mc = wr.calls("memcpy")
    okw = False
    if len(mc) == 1:
        a = [nocast(Canon(wr)(x)) for x in mc[0].args()]
        okw = (a[0] == ("param", 1, "uint8_t *") and a[1] == ("member", ("param", 0, "carquet_bloom_filter_t *"), "data")
               and a[2] == ("member", ("param", 0, "carquet_bloom_filter_t *"), "num_bytes"))
    ctx.ob("R6.copy", "write-verbatim|%s:carquet_bloom_filter_write" % BF, P.where(wr.body),
           "write copies data[0..num_bytes) verbatim to the output", okw)
    # capacity guard dominates memcpy
    guard = None
    for n in wr.body.walk():
        if n.k == "IfStmt":
            c = nocast(Canon(wr)(n.c[[i for i, x in enumerate(n.c) if x is not None][0]]))
            if c == ("bin", "<", ("param", 2, "size_t"), ("member", ("param", 0, "carquet_bloom_filter_t *"), "num_bytes")):
                guard = n
    okg = False
    if guard is not None and mc:
        thenb = [x for x in guard.c if x is not None][1]
        rets_err = [r for r in thenb.walk() if r.k == "ReturnStmt" and r.c and r.c[0].cv not in (0, None)]
        okg = bool(rets_err) and wr.cfg.node_dominates(
            [x for x in guard.c if x is not None][0].strip() if False else _first_cfg_node(wr, guard), mc[0])
    ctx.ob("R6.guard", "write-capacity|%s:carquet_bloom_filter_write" % BF, P.where(wr.body),
           "output_capacity < num_bytes is refused before the copy", okg)
    bw = [a for a in assignments(wr.body) if a.c[0].strip().k == "UnaryOperator" and a.c[0].strip().op == "*"]
    okbw = len(bw) == 1 and nocast(Canon(wr)(bw[0].c[1])) == ("member", ("param", 0, "carquet_bloom_filter_t *"), "num_bytes")
    ctx.ob("R6.copy", "write-size|%s:carquet_bloom_filter_write" % BF, P.where(wr.body),
           "*bytes_written = num_bytes", okbw)

    fd = fns["carquet_bloom_filter_from_data"]
    # from_data by abstract execution over sizes: refused unless a whole number (>= 1) of 32-byte blocks;
    # otherwise exactly `size` bytes of the input are copied into a fresh buffer of `size` bytes and
    # num_bytes / num_blocks describe it
    from ..rules import sem
    rec_ = sem.field_offsets(P, "carquet_bloom_filter")
    badf = None
    try:
        for S in (0, 1, 31, 32, 33, 63, 64, 96, 100, 1024):
            def alloc(kind):
                def f(ev, a, it, kind=kind):
                    n_ = a[0] if kind == "malloc" else (a[0] * a[1] if isinstance(a[0], int) and isinstance(a[1], int) else None)
                    k_ = len([e for e in ev if e[0] == "alloc"])
                    ev.append(("alloc", n_))
                    return sem.Ptr("filter" if k_ == 0 else "data", 0, 1)
                return f
            paths = sem.run(P, fd, [sem.Ptr("input", 0, 1), S], heap0={}, single=False, hooks={
                "malloc": alloc("malloc"), "calloc": alloc("calloc"), "free": lambda ev, a, it: 0,
                "memcpy": lambda ev, a, it: ev.append(("copy", getattr(a[0], "base", a[0]), getattr(a[1], "base", a[1]), a[2])) or 0})
            valid = S >= 32 and S % 32 == 0
            for ret, ev, heap in paths:
                if not valid:
                    okf = ret in (0, None) or not isinstance(ret, sem.Ptr)
                else:
                    allocs = [e for e in ev if e[0] == "alloc"]
                    okf = (isinstance(ret, sem.Ptr) and len(allocs) == 2 and allocs[1][1] == S
                           and ("copy", "data", "input", S) in ev
                           and heap.get(("filter", rec_["num_bytes"])) == S and heap.get(("filter", rec_["num_blocks"])) == S // 32)
                if not okf and badf is None:
                    badf = "size %d: returns %s after %s; num_bytes %s num_blocks %s" % (
                        S, ret, ev, heap.get(("filter", rec_["num_bytes"])), heap.get(("filter", rec_["num_blocks"])))
        ctx.ob("R6.copy", "read-verbatim|%s:carquet_bloom_filter_from_data" % BF, P.where(fd.body),
               "from_data refuses sizes that are not whole 32-byte blocks and otherwise copies exactly `size` input bytes "
               "into a buffer of `size` bytes described by num_bytes = size, num_blocks = size / 32 (10 sizes)",
               badf is None, badf or "")
    except sem.Inconclusive as ex:
        ctx.inconclusive("R6.copy", "read-verbatim|%s:carquet_bloom_filter_from_data" % BF, P.where(fd.body), "abstract execution", str(ex))
    rd = fns["carquet_bloom_filter_read"]
    okrd = len(rd.calls("carquet_bloom_filter_from_data")) == 1 and any(
        nocast(Canon(rd)(c.args()[0])) == ("param", 1, "uint8_t *") and
        nocast(Canon(rd)(c.args()[1])) == ("param", 2, "size_t")
        for c in rd.calls("carquet_bloom_filter_from_data"))
    ctx.ob("R6.copy", "read-delegates|%s:carquet_bloom_filter_read" % BF, P.where(rd.body),
           "read restores through from_data(data, data_size)", okrd)

    # create geometry, by abstract execution for every requested size 0..200: the data buffer is the
    # size rounded up to whole 32-byte blocks (at least one), zero-initialised, and the recorded
    # num_bytes / num_blocks describe exactly that buffer
    from ..rules import sem
    rec = sem.field_offsets(P, "carquet_bloom_filter")
    badg = None
    try:
        for req in range(0, 201):
            ev0 = []

            def m_alloc(ev, a, it):
                ev.append(("malloc", a[0]))
                return sem.Ptr("filter" if len([e for e in ev if e[0] in ("malloc", "calloc")]) == 1 else "data", 0, 1)

            def c_alloc(ev, a, it):
                n_ = a[0] * a[1] if isinstance(a[0], int) and isinstance(a[1], int) else None
                ev.append(("calloc", n_))
                return sem.Ptr("filter" if len([e for e in ev if e[0] in ("malloc", "calloc")]) == 1 else "data", 0, 1)
            ret, ev, heap = sem.run(P, cr, [req], heap0={}, hooks={"malloc": m_alloc, "calloc": c_alloc,
                                                                "memset": lambda ev, a, it: ev.append(("memset", a[1], a[2])) or 0})
            want = max(32, (req + 31) // 32 * 32)
            allocs = [e for e in ev if e[0] in ("malloc", "calloc")]
            data_sz = allocs[1][1] if len(allocs) > 1 else None
            zeroed = (len(allocs) > 1 and allocs[1][0] == "calloc") or ("memset", 0, want) in ev
            okg = (data_sz == want and zeroed and heap.get(("filter", rec["num_bytes"])) == want
                   and heap.get(("filter", rec["num_blocks"])) == want // 32)
            if not okg and badg is None:
                badg = "create(%d): data buffer %s bytes (zeroed: %s), num_bytes %s, num_blocks %s; expected %d bytes / %d blocks" % (
                    req, data_sz, zeroed, heap.get(("filter", rec["num_bytes"])), heap.get(("filter", rec["num_blocks"])), want, want // 32)
        ctx.ob("R5.spec", "size-rounding|%s:carquet_bloom_filter_create" % BF, P.where(cr.body),
               "for every requested size 0..200 the filter is a zeroed buffer of whole 32-byte blocks (>= 1) and "
               "num_bytes / num_blocks describe it", badg is None, badg or "")
    except sem.Inconclusive as ex:
        ctx.inconclusive("R5.spec", "size-rounding|%s:carquet_bloom_filter_create" % BF, P.where(cr.body), "abstract execution", str(ex))

    # merge and from_data: decided on what the functions do to the bits (abstract execution with opaque bits)
    nmg = sbbf.merge_rules(ctx)
    ctx.floor("C20 merge scenarios", nmg, 8)
    sbbf.bulk_store_rules(ctx)

    # ---- (6a) XXH64 as a formula: decisive whenever the function can be executed abstractly
    xf = P.fn("carquet_xxhash64", XX)
    from ..rules import xxh
    verdict = xxh.check(ctx, xf, list(range(0, ctx.depth(73, 161))))
    ctx.count("xxh64_formula_verdict_" + verdict, 1)
    if verdict in ("same", "witness"):
        # the constant census and the consumption schedule below are necessary conditions of the formula
        # just compared; they only run when the formula could not be extracted
        return
    # ---- (6b) XXH64 constants
    fp = const_fingerprint(P, xf)
    fpu = Counter()
    for (op, v), n in fp.items():
        fpu[(op, u(v))] += n
    nmiss = 0
    present = set()
    for f_ in P.funcs_in(XX):
        for n_ in f_.body.walk():
            if n_.cv is not None:
                present.add(u(n_.cv))
    for _, g_ in P.globals:
        if P.rel(g_["file"]) == XX and g_.get("init") is not None:
            for n_ in g_["init"].walk():
                if n_.cv is not None:
                    present.add(u(n_.cv))
    for (op, v), need_n in sorted(SPEC_XXH.items(), key=repr):
        have = fpu.get((op, v), 0)
        if op == "-" and have < need_n:
            # seed - P1 may be written seed + (-P1)
            have = fpu.get(("+", u(-v)), 0)
        ok = have >= need_n
        nmiss += 0 if ok else 1
        key_ = "xxh64-const|%s|%s %#x" % (XX, op, v)
        what_ = "XXH64 uses (%s, %#x) at >= %d site(s) (helpers expanded per call site)" % (op, v, need_n)
        if ok:
            ctx.ok("R5.spec", key_, P.rel(xf.file), what_, "found %d" % have)
        elif u(v) not in present:
            ctx.bad("R5.spec", key_, P.rel(xf.file), what_, "the constant %#x does not occur in %s at all" % (v, XX))
        else:
            # the constant is there but used through another shape (a lane loop, a rotation table): the
            # per-site count cannot be compared
            ctx.inconclusive("R5.spec", key_, P.rel(xf.file), what_,
                             "found %d site(s); the constant occurs elsewhere in the file" % have)
    ctx.count("xxh64_fingerprint_pairs", len(fp))
    ctx.floor("XXH64 constant sites", sum(fp.values()), 40)
    _xxh64_schedule(ctx, xf)


def _first_cfg_node(fn, stmt):
    """The first CFG element that belongs to stmt (its condition for if/for/while)."""
    w = fn.cfg.where()
    best = None
    for n in stmt.walk():
        if n.i in w:
            b, idx = w[n.i]
            if best is None or n.i < best.i:
                best = n
    return best


def _xxh64_schedule(ctx, xf):
    """(6c) consumption schedule of XXH64 by cursor-skeleton execution: for every length the stripe
    phase (the loop that feeds the four accumulators) consumes exactly 32*floor(len/32) bytes in 8-byte
    lanes when len >= 32, then 8-byte words while >= 8 remain, at most one 4-byte word, then single
    bytes; every byte is consumed once, in order. Input contents are never read."""
    from ..rules.skeleton import Interp, Ptr, U, Budget, Stop
    P = ctx.P
    params = xf.params
    if len(params) != 3:
        raise AnalysisBroken("carquet_xxhash64: expected (data, length, seed)")
    stripe_loops = [n for n in xf.body.walk() if n.k in ("DoStmt", "WhileStmt", "ForStmt")
                    and sum(1 for c in n.walk() if c.k == "CallExpr" and c.callee == "xxh64_round") >= 4]
    if len(stripe_loops) != 1:
        raise AnalysisBroken("carquet_xxhash64: stripe loop (four accumulator rounds) not found")
    stripe = stripe_loops[0]

    def in_stripe(node):
        x = node
        while x is not None:
            if x is stripe:
                return True
            x = x.parent
        return False
    bad = None
    runs = 0
    NMAX = ctx.depth(200, 700)
    for L in range(0, NMAX + 1):
        it = Interp(P, xf, budget=400000)
        ev = []

        def rd(width):
            def f(i_, node, args, width=width):
                p = args[0]
                if not isinstance(p, Ptr) or p.base != "data":
                    raise Stop("read through an untracked pointer")
                ev.append((p.off, width, in_stripe(node)))
                return U
            return f
        it.hooks["read64_le"] = rd(8)
        it.hooks["read32_le"] = rd(4)
        try:
            outs = it.run([Ptr("data", 0, 1), L, 0])
        except (Budget, Stop) as ex:
            ctx.inconclusive("R4.skeleton", "xxh64-schedule|%s" % XX, P.where(xf.body),
                             "skeleton execution of carquet_xxhash64", str(ex))
            return
        if len(outs) != 1:
            ctx.inconclusive("R4.skeleton", "xxh64-schedule|%s" % XX, P.where(xf.body),
                             "carquet_xxhash64 branches on input contents (%d outcomes)" % len(outs))
            return
        runs += 1
        for a in outs[0][0]:
            if a.base == "data":
                ev.append((a.lo, a.hi - a.lo, in_stripe(a.node)))
        ev.sort()
        want = []
        pos = 0
        if L >= 32:
            while pos + 32 <= L:
                for _ in range(4):
                    want.append((pos, 8, True))
                    pos += 8
        while pos + 8 <= L:
            want.append((pos, 8, False))
            pos += 8
        if pos + 4 <= L:
            want.append((pos, 4, False))
            pos += 4
        while pos < L:
            want.append((pos, 1, False))
            pos += 1
        if ev != want and bad is None:
            diff = next((i for i, (a, b) in enumerate(zip(ev, want)) if a != b), min(len(ev), len(want)))
            bad = "length %d: read #%d is %s, XXH64 reads %s (offset, width, in stripe phase)" % (
                L, diff, ev[diff] if diff < len(ev) else None, want[diff] if diff < len(want) else None)
    ctx.count("xxh64_schedule_runs", runs)
    ctx.ob("R4.skeleton", "xxh64-schedule|%s:carquet_xxhash64" % XX, P.where(xf.body),
           "for every length 0..%d the input is consumed in XXH64's schedule: 32-byte stripes while 32 bytes "
           "remain, then 8-byte words, one 4-byte word, single bytes" % NMAX, bad is None, bad or "")
