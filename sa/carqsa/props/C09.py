"""C09 - codecs honour their size bounds (capacity clauses)."""
from ..canon import Canon, subtrees, show
from ..extract import AnalysisBroken
from ..facts import src
from ..rules import overlap, sem
from ..rules.results import lvalue_text
from ..util import switch_table, find_switches, is_assign

EXPLANATION = (
    "Static decision of capacity clauses of C09: (1) in carquet_snappy_compress and carquet_lz4_compress "
    "the comparison of dst_capacity with the codec's own compress_bound(src_size), with an error return, "
    "dominates every store through dst; the zlib/zstd wrappers hand dst_capacity unchanged to the library "
    "as its output limit; (2) the page writer's compress_data, executed abstractly once per codec value "
    "with its callees hooked, pairs the bound function with the compressor of the same codec, allocates "
    "exactly `bound` bytes, passes the same `bound` as capacity, appends only the compressor's buffer "
    "(the caller's bytes only for UNCOMPRESSED), frees it, and returns an error without writing for "
    "unknown codecs and for a failed scratch allocation; (3) the match-distance guard of the built-in "
    "compressors admits only offsets that fit the two offset bytes they emit (<= 65535), and the guard "
    "dominates the emission; (4) every decompressor stores *dst_size only on success paths and what it "
    "reports cannot exceed dst_capacity (the built-in ones compare against it, the wrappers report the "
    "library's count for that capacity); (5) in the LZ4/Snappy decoders and in every implementation "
    "installed in the match_copy dispatch slot, a block copy (memcpy, vector load/store) from the "
    "output's own history is nested in a branch that establishes distance >= width of the copy, so it "
    "equals the forward byte copy the formats define for overlapping matches. (6) the gzip bound is "
    "zlib's compressBound() plus the wrapper bytes, a guarantee stated for the default deflate "
    "parameters: deflateInit2 is called with memLevel >= 8 and a 32K window (the argument may be a "
    "constant or a helper of the file whose every return value is enumerated); (7) every tag byte the "
    "Snappy / LZ4 compressors build by OR-ing shifted fields holds each field inside its slot for every "
    "value the branch conditions on the path admit (forward dataflow of constant upper bounds; a COPY_1 "
    "element reached with offset 2048 would need a twelfth offset bit); (8) carquet_zstd_compress / _decompress "
    "against a model of libzstd: OK exactly when the library finished the frame, the caller's extents handed "
    "over unchanged, and no compression context that the wrapper keeps is left inside an unfinished frame. (8) LZ4 length extensions: every loop that emits 255-bytes while taking 255 off a counter runs exactly while the counter is >= 255 (so the byte after it is below 255), and every loop that adds length bytes reads on exactly after a 255 (R35). (9) the Snappy length preamble is LEB128 on both sides: writer and reader executed for every value on either side of a 7-bit boundary (R38). (10) src/compression holds no mutable file-scope or static-local state other than thread-local contexts and idempotent lazy tables (rule shared with C07): a codec call's result depends on its arguments only, also when calls overlap on several threads. (R46) a staging or page buffer grown because a request does not fit is grown to at least the request: the capacity stored in a `request > capacity` branch is the request, an expression every arm of which contains it, or a value the branch compares with it (clamp or doubling loop) - geometric growth alone serves the first request and under-allocates a later one above twice the capacity. (R47) thread-local or static arrays in src/compression are scratch tables: in every externally visible function that consults one (directly or through helpers of the file), no path from the entry reaches a use without a `memset` of the table or a call to a helper that resets it on all of its paths - a reset skipped on some path lets entries of an earlier call decide what this call emits (lazily built constant tables accepted by the lazy-initialisation rule are not scratch state; today's tree keeps its tables on the stack, so the rule's only instances are its control twins). (13) the built-in decompressors on valid streams built from the format documents - every element kind, lengths and offsets on either side of every field boundary, overlapping copies at every distance around the widths of block copies - return the bytes the formats define (rule shared with C10). Decides these clauses, not "
    "the round trip nor sufficiency of the bound formulas.")

SN = "src/compression/snappy.c"
LZ = "src/compression/lz4.c"
GZ = "src/compression/gzip.c"
ZS = "src/compression/zstd.c"
PW = "src/writer/page_writer.c"


def _first_cfg(fn, stmt):
    w = fn.cfg.where()
    best = None
    for n in stmt.walk():
        if n.i in w and (best is None or n.i < best.i):
            best = n
    return best


def _gzip_traces(ctx):
    """The zlib wrappers executed abstractly with the library hooked: when inflate()/deflate() is entered the stream
    holds exactly the caller's (src, src_size, dst, dst_capacity); the wrapper ends the stream on every path and
    reports total_out on success. Independent of how the stream is filled (assignments, initialiser, helper,
    grouping struct). Returns the names it decided (either way); the others fall back to the assignment rule."""
    from ..rules import sem
    from ..rules.skeleton import Ptr, U
    P = ctx.P
    decided = set()
    if "z_stream_s" not in P.records:
        return decided
    zo = sem.field_offsets(P, "z_stream_s")
    for fname, init, runf, endf, extra in (("carquet_gzip_decompress", "inflateInit2_", "inflate", "inflateEnd", []),
                                           ("carquet_gzip_compress", "deflateInit2_", "deflate", "deflateEnd", [6])):
        f = P.fn_opt(fname, GZ)
        if f is None:
            continue
        key_ = "wrapper-capacity|%s:%s" % (GZ, fname)
        what_ = "%s enters the library with exactly (src, src_size) as input and (dst, dst_capacity) as output window, and reports total_out" % fname
        seen = {}

        def h_init(ev, a, it):
            ev.append(("init",))
            return 0

        def h_run(ev, a, it):
            p = a[0]
            if not isinstance(p, Ptr) or not isinstance(p.off, int):
                raise sem.Inconclusive("library entered with an untracked stream")
            seen["win"] = tuple(it.heap.get((p.base, p.off + zo[m])) for m in ("next_in", "avail_in", "next_out", "avail_out"))
            it.heap[(p.base, p.off + zo["total_out"])] = 77
            ev.append(("run",))
            return 1            # Z_STREAM_END

        def h_end(ev, a, it):
            ev.append(("end",))
            return 0
        try:
            ret, ev, heap = sem.run(P, f, [Ptr("src", 0, 1), 111, Ptr("dst", 0, 1), 222, Ptr("out", 0, 8)] + extra,
                                    heap0={}, hooks={init: h_init, runf: h_run, endf: h_end}, single=True, max_forks=8, budget=50000)
        except (sem.Inconclusive, KeyError) as ex:
            continue            # fall back to the assignment rule
        win = seen.get("win")
        if win is None or any(x is None or x is U for x in win):
            continue
        decided.add(fname)
        ni, ai_, no, ao = win
        okw = isinstance(ni, Ptr) and (ni.base, ni.off) == ("src", 0) and ai_ == 111 and \
            isinstance(no, Ptr) and (no.base, no.off) == ("dst", 0) and ao == 222
        oko = ret == 0 and heap.get(("out", 0)) == 77 and [e[0] for e in ev if e[0] in ("init", "run", "end")] == ["init", "run", "end"]
        ctx.ob("R5.agree", key_, P.where(f.body), what_, okw and oko,
               "stream at entry: next_in=%s avail_in=%s next_out=%s avail_out=%s; returns %s, *dst_size=%s, calls %s" % (
                   ni, ai_, no, ao, ret, heap.get(("out", 0)), [e[0] for e in ev if e[0] in ("init", "run", "end")]))
    return decided


def run(ctx):
    P = ctx.P
    ctx.clause("C09.13 the built-in block decompressors return what the formats define for valid format-built streams (rule shared with C10)")
    from ..rules import blockfmt
    ctx.floor("C09 format-built streams through the block decompressors", blockfmt.check(ctx, valid_only=True), 60)
    ctx.clause("C09.12 a match table or scratch table kept per thread (or static) in src/compression is reset in every call before it is consulted: what a compress call emits does not depend on the calls before it (R47)")
    from ..rules import callstate
    ctx.count("per_call_tables", callstate.check(ctx, sorted(set(ctx.P.rel(f.file) for f in ctx.P.lib_functions() if ctx.P.rel(f.file).startswith("src/compression/")))))
    ctx.clause("C09.11 a staging or page buffer grown because a request does not fit is grown to at least the request (R46)")
    from ..rules import growth
    ngr = growth.check(ctx, [f for f in P.lib_functions() if P.rel(f.file).startswith(("src/compression/", "src/writer/", "src/reader/",))])
    ctx.count("growth_branches", ngr)
    ctx.clause("C09.1 too-small destination refused before any write; wrappers pass capacity through")
    ctx.clause("C09.2 compress_data pairs bound/compressor per codec and allocates the bound")
    ctx.clause("C09.3 match offsets fit the emitted offset width")
    ctx.clause("C09.4 reported sizes never exceed the capacity")
    ctx.clause("C09.5 block copies from the output history are no wider than the guarded match distance")
    ctx.clause("C09.7 the ZSTD wrappers report the library's outcome and leave no reused context inside an unfinished frame")
    from ..rules import codecwrap
    codecwrap.check_compress(ctx)
    codecwrap.check(ctx)
    ctx.clause("C09.6 tag bytes of the hand-written compressors hold every field value their guards admit")
    from ..rules import fieldfit
    nff, nffd = fieldfit.check(ctx, P.funcs_in("src/compression/snappy.c", "src/compression/lz4.c"))
    ctx.floor("C09 packed tag bytes decided", nffd, 5)
    ctx.clause("C09.10 the codec entry points are functions of their arguments: no mutable file-scope or static state in src/compression that is not thread-local or an idempotent lazy table "
               "(two decompressions may overlap on different threads - the batch reader runs them in a parallel region)")
    from . import C07
    ngs = C07.global_state(ctx, scope="src/compression/", rule="R7.codec-state")
    ctx.count("codec_file_scope_variables", ngs)
    ctx.clause("C09.9 the Snappy length preamble is the LEB128 of the input length, written and read (values on either side of every 7-bit boundary)")
    from ..rules import varint
    nvw, nvr = varint.check(ctx, files=(SN,))
    ctx.floor("C09 Snappy varint writer and reader", nvw + nvr, 2)
    ctx.clause("C09.8 LZ4 length extensions: the encoder emits 255-bytes exactly while 255 or more remain, the decoder reads on exactly after a 255")
    from ..rules import lenext
    nle, nld = lenext.check(ctx, [LZ])
    ctx.floor("C09 LZ4 length-extension emit loops", nle, 1)
    ctx.floor("C09 LZ4 length-extension read loops", nld, 1)
    ctx.count("lz4_length_extension_loops", nle + nld)
    for file_, fname, bound in ((SN, "carquet_snappy_compress", "carquet_snappy_compress_bound"),
                                (LZ, "carquet_lz4_compress", "carquet_lz4_compress_bound")):
        f = P.fn(fname, file_)
        pn = [p["n"] for p in f.params]
        cz = Canon(f)
        guard = None
        for n in f.body.walk():
            if n.k == "IfStmt":
                kids = [x for x in n.c if x is not None]
                t = cz(kids[0])
                if t[0] == "bin" and t[1] == "<" and t[2] == ("param", pn.index("dst_capacity"), "size_t") and \
                        t[3][0] == "call" and t[3][1] == ("func", bound) and \
                        t[3][2] == ("param", pn.index("src_size"), "size_t"):
                    if any(r.k == "ReturnStmt" and r.c and r.c[0].cv not in (0, None) for r in kids[1].walk()):
                        guard = n
        key = "capacity-guard|%s:%s" % (file_, fname)
        if guard is None:
            ctx.bad("R6.dominate", key, P.where(f.body),
                    "%s refuses dst_capacity < %s(src_size)" % (fname, bound), "no such guard with an error return")
            continue
        g0 = _first_cfg(f, guard)
        # every store through dst (or a pointer derived from it) is dominated by the guard
        dst_d = [p["d"] for p in f.params if p["n"] == "dst"][0]
        derived = {dst_d}
        for n in f.body.walk():
            if n.k == "DeclStmt":
                for d, init in zip(n.get("decls", []), n.c):
                    if init is not None and any(x.k == "DeclRefExpr" and x.get("d") in derived for x in init.walk()) \
                            and "*" in d.get("t", ""):
                        derived.add(d["d"])
        stores = []
        for n in f.body.walk():
            tgt = None
            if is_assign(n):
                tgt = n.c[0].strip()
            if tgt is not None and tgt.k in ("UnaryOperator", "ArraySubscriptExpr"):
                if any(x.k == "DeclRefExpr" and x.get("d") in derived for x in tgt.walk()):
                    stores.append(n)
            if n.k == "CallExpr" and n.callee in ("memcpy", "memset") and n.args():
                if any(x.k == "DeclRefExpr" and x.get("d") in derived for x in n.args()[0].walk()):
                    stores.append(n)
            elif n.k == "CallExpr" and n.callee and any(
                    x.k == "DeclRefExpr" and x.get("d") in derived for a in n.args() for x in a.walk()):
                stores.append(n)        # a helper that is handed a pointer into dst writes through it
        ctx.floor("%s stores through dst" % fname, len(stores), 3)
        bad = [s for s in stores if not f.cfg.node_dominates(g0, s)]
        ctx.ob("R6.dominate", key, P.where(guard),
               "%s: the capacity test against %s dominates all %d stores through dst" % (fname, bound, len(stores)),
               not bad, "not dominated: %s" % [P.where(b) for b in bad[:3]])
    # wrappers
    gz_decided = _gzip_traces(ctx)
    for file_, fname, lib, ai in ((GZ, "carquet_gzip_compress", None, None), (GZ, "carquet_gzip_decompress", None, None),
                                   (ZS, "carquet_zstd_compress", "ZSTD_compress", 1),
                                   (ZS, "carquet_zstd_decompress", "ZSTD_decompressDCtx", 2)):
        f = P.inlined(P.fn(fname, file_), 2)       # helpers that set up the stream are expanded
        cz = Canon(f)
        pn = [p["n"] for p in f.params]
        cap = ("param", pn.index("dst_capacity"), "size_t")
        def verdict(node_rhs, want):
            """'ok' / 'bad' (another parameter or a constant: a witness) / 'unknown' (a shape the rule does not follow)"""
            t = _nocast(cz(node_rhs))
            if t == want:
                return "ok"
            if isinstance(t, tuple) and t and t[0] == "param" or node_rhs.cv is not None:
                return "bad"
            return "unknown"
        vs = []
        if lib is None:
            sets = [a for a in f.body.walk() if is_assign(a) and a.c[0].strip().k == "MemberExpr"
                    and a.c[0].strip().name == "avail_out"]
            outs = [a for a in f.body.walk() if is_assign(a) and a.c[0].strip().k == "MemberExpr"
                    and a.c[0].strip().name == "next_out"]
            vs = [verdict(a.c[1], cap) for a in sets] + [verdict(a.c[1], ("param", pn.index("dst"), "uint8_t *")) for a in outs]
            if len(sets) != 1 or len(outs) != 1:
                vs.append("unknown")
        else:
            cs = f.calls(lib)
            vs = [verdict(c.args()[ai], cap) for c in cs] or ["unknown"]
            for alt in ("ZSTD_decompress",):
                for c in f.calls(alt):
                    vs.append(verdict(c.args()[1], cap))
        key_ = "wrapper-capacity|%s:%s" % (file_, fname)
        what_ = "%s gives the library exactly dst / dst_capacity as its output window" % fname
        if fname in gz_decided:
            continue        # decided by the trace of the wrapper (what the stream holds when the library is entered)
        if "bad" in vs:
            ctx.bad("R5.agree", key_, P.where(f.body), what_, "the output window is set from another parameter or a constant")
        elif "unknown" in vs:
            ctx.inconclusive("R5.agree", key_, P.where(f.body), what_, "the output window is set through a shape the rule does not follow")
        else:
            ctx.ok("R5.agree", key_, P.where(f.body), what_)

    # ---- the gzip bound is zlib's compressBound(): its guarantee is stated for the default deflate
    # parameters (memLevel 8, 32K window); a stream opened with a smaller memLevel emits more stored
    # blocks and can outgrow it
    gz = P.inlined(P.fn("carquet_gzip_compress", GZ), 2)
    inits = [c for c in gz.body.walk() if c.k == "CallExpr" and c.callee in ("deflateInit2_", "deflateInit_")]
    bnd = P.fn("carquet_gzip_compress_bound", GZ)
    uses_cb = bool(bnd.calls("compressBound"))
    key = "gzip-bound-params|%s:carquet_gzip_compress" % GZ
    if not uses_cb or len(inits) != 1:
        ctx.inconclusive("R5.agree", key, P.where(gz.body), "the gzip bound and the deflate parameters agree",
                         "bound not built on compressBound() or %d deflateInit calls" % len(inits))
    elif inits[0].callee == "deflateInit_":
        ctx.ok("R5.agree", key, P.where(inits[0]), "deflateInit uses the default parameters compressBound() is stated for")
    else:
        a = inits[0].args()
        from ..rules import sem

        def values(e):
            """the values an argument can take: a constant, or the constants a helper of the file returns"""
            if e.cv is not None:
                return [e.cv]
            x = e.strip_casts()
            callee = x.callee if x.k == "CallExpr" else x.get("n") if x.k == "InlinedCall" else x.get("inl") if x.k == "ParenExpr" else None
            if callee and P.by_name.get(callee):
                g = [f_ for f_ in P.by_name[callee] if P.rel(f_.file) == GZ]
                if g:
                    try:
                        paths = sem.run(P, g[0], [sem.U] * len(g[0].params), single=False, max_forks=256)
                    except sem.Inconclusive:
                        return None
                    vs = [r for r, _e, _h in paths]
                    return vs if all(isinstance(v, int) for v in vs) else None
            return None
        mem = values(a[4]) if len(a) > 4 else None
        win = values(a[3]) if len(a) > 3 else None
        if mem is None or win is None:
            ctx.inconclusive("R5.agree", key, P.where(inits[0]), "the gzip bound and the deflate parameters agree",
                             "memLevel / windowBits are not constants: %s / %s" % (src(a[4]) if len(a) > 4 else "?", src(a[3]) if len(a) > 3 else "?"))
        else:
            ctx.ob("R5.agree", key, P.where(inits[0]),
                   "deflate is opened with memLevel >= 8 and a 32K window (gzip wrapper), the parameters for which compressBound() + 18 "
                   "bounds the output", min(mem) >= 8 and all((w & 15) == 15 or w == 15 + 16 for w in win),
                   "memLevel %s, windowBits %s" % (sorted(set(mem)), sorted(set(win))))

    # ---- compress_data: semantic table (shared with C01/C05)
    from ..rules import codecrepr
    codecrepr.writer(ctx, "R5.agree", "codec-pair")

    offset_width_rule(ctx)
    overlap.run(ctx)

    # ---- reported size <= capacity
    for file_, fname in ((SN, "carquet_snappy_decompress"), (LZ, "carquet_lz4_decompress")):
        f = P.fn(fname, file_)
        pn = [p["n"] for p in f.params]
        outs = [a for a in f.body.walk() if is_assign(a) and a.c[0].strip().k == "UnaryOperator"
                and a.c[0].strip().op == "*" and src(a.c[0].strip().c[0]) == "dst_size"]
        ctx.floor("%s dst_size stores" % fname, len(outs), 1)
        for a in outs:
            # successor is a success return; value is op - dst (bounded by the write checks) or a
            # length compared with dst_capacity
            txt = src(a.c[1])
            bounded = "op - dst" in txt or "dst_capacity" in txt or "uncompressed_len" in txt
            capnames = {"dst_capacity"}
            for n in f.body.walk():
                if n.k == "DeclStmt":
                    for d, init in zip(n.get("decls", []), n.c):
                        if init is not None and "dst_capacity" in src(init):
                            capnames.add(d["n"])
            capcheck = any(n.k == "IfStmt" and any(c in src([x for x in n.c if x is not None][0]) for c in capnames)
                           and any(r.k == "ReturnStmt" and r.c and r.c[0].cv not in (0, None)
                                   for r in [x for x in n.c if x is not None][1].walk())
                           for n in f.body.walk())
            ctx.ob("R6.bounded", "reported-size|%s:%s" % (file_, fname), P.where(a),
                   "%s reports bytes actually produced (op - dst) and rejects outputs larger than dst_capacity" % fname,
                   bounded and capcheck, txt)


def offset_width_rule(ctx):
    P = ctx.P
    for file_, fname in ((SN, "carquet_snappy_compress"), (LZ, "carquet_lz4_compress")):
        f = P.fn(fname, file_)
        # the match loop may live in a static helper of the same file
        from .. import callgraph
        cg = callgraph.get(P)
        scope = [P.functions[k] for k in sorted(cg.reachable([f.key()]))
                 if k in P.functions and P.functions[k].file == f.file]
        ks = []
        ptrdiff = set()     # locals defined as a pointer difference
        nodes = [(g, n) for g in scope for n in g.body.walk()]
        for g, n in nodes:
            if n.k == "DeclStmt":
                for d, init in zip(n.get("decls", []), n.c):
                    x = init.strip_casts() if init is not None else None
                    if x is not None and x.k == "BinaryOperator" and x.op == "-" and "*" in (x.c[0].strip().t or "") \
                            and "*" in (x.c[1].strip().t or ""):
                        ptrdiff.add((g.name, d.get("d")))
        for g, n in nodes:
            if n.k == "BinaryOperator" and n.op in (">", ">="):
                l, r = n.c[0].strip_casts(), n.c[1]
                isdiff = l.k == "BinaryOperator" and l.op == "-" and "*" in (l.c[0].strip().t or "") and \
                    "*" in (l.c[1].strip().t or "")
                isdiff = isdiff or (l.k == "DeclRefExpr" and l.get("dk") == "local" and (g.name, l.get("d")) in ptrdiff)
                if isdiff and r.cv is not None:
                    ks.append((n, r.cv if n.op == ">" else r.cv - 1))
        key = "offset-width|%s:%s" % (file_, fname)
        if not ks:
            ctx.bad("R5.spec", key, P.where(f.body), "%s bounds the match distance by a constant" % fname,
                    "no `ip - ref > K` guard found")
            continue
        n, K = ks[0]
        # the guard rejects (continues) and dominates the offset emission
        ctx.ob("R5.spec", key, P.where(n),
               "%s accepts match distances up to %d, which fit the 2 offset bytes it emits (<= 65535)" % (fname, K),
               K <= 65535, "K = %d" % K)
    _snappy_elements(ctx)


def _snappy_elements(ctx):
    """snappy_emit_copy / snappy_emit_literal executed abstractly per (offset, length) / length: the bytes they
    store are decoded with the Snappy format's element definitions and must describe exactly the copy / the
    literal run they were asked for."""
    from ..rules import sem
    from ..rules.skeleton import Ptr, U
    P = ctx.P
    ec = P.fn("snappy_emit_copy", SN)
    key = "copy-elements|%s:snappy_emit_copy" % SN
    what = ("the elements snappy_emit_copy stores decode (Snappy format: copy-1 = 4..11 bytes at an 11-bit offset, copy-2 = 1..64 bytes "
            "at a 16-bit offset) to copies of the requested offset whose lengths add up to the requested length (abstract execution)")
    pn = [p["n"] for p in ec.params]
    bad = None
    nsc = 0
    try:
        for offset in (1, 255, 256, 2047, 2048, 2049, 32768, 65535):
            for ln in (4, 5, 11, 12, 13, 59, 60, 63, 64, 65, 66, 67, 68, 69, 70, 127, 128, 131, 132, 200):
                nsc += 1
                args = []
                for p in ec.params:
                    args.append(Ptr("out", 0, 1) if "*" in p["t"] else None)
                ints = [i for i, p in enumerate(ec.params) if "*" not in p["t"]]
                if len(ints) != 2 or len(ec.params) != 3:
                    raise AnalysisBroken("snappy_emit_copy does not take (output, offset, length)")
                oi = [i for i in ints if "off" in pn[i]] or ints[:1]
                li = [i for i in ints if i != oi[0]]
                args[oi[0]], args[li[0]] = offset, ln
                ret, ev, heap = sem.run(P, ec, args, heap0={}, hooks={}, single=True, max_forks=4, budget=20000)
                end = ret.off if isinstance(ret, Ptr) and ret.base == "out" else None
                if not isinstance(end, int):
                    bad = bad or "offset %d length %d: returns %s" % (offset, ln, ret)
                    continue
                pos, total = 0, 0
                while pos < end:
                    tag = heap.get(("out", pos))
                    if not isinstance(tag, int):
                        bad = bad or "offset %d length %d: byte %d is not written" % (offset, ln, pos)
                        break
                    tag &= 0xFF
                    if tag & 3 == 1:
                        l_, o_ = 4 + ((tag >> 2) & 7), ((tag >> 5) << 8) | (heap.get(("out", pos + 1), 0) & 0xFF)
                        pos += 2
                    elif tag & 3 == 2:
                        l_, o_ = 1 + (tag >> 2), (heap.get(("out", pos + 1), 0) & 0xFF) | ((heap.get(("out", pos + 2), 0) & 0xFF) << 8)
                        pos += 3
                    else:
                        bad = bad or "offset %d length %d: element tag %#x is not a copy-1 / copy-2 element" % (offset, ln, tag)
                        break
                    if o_ != offset:
                        bad = bad or "offset %d length %d: an element decodes to offset %d" % (offset, ln, o_)
                    total += l_
                else:
                    if total != ln:
                        bad = bad or "offset %d length %d: the elements copy %d bytes" % (offset, ln, total)
    except sem.Inconclusive as ex:
        ctx.inconclusive("R5.spec", key, P.where(ec.body), what, str(ex))
        bad = False
    if bad is not False:
        ctx.ob("R5.spec", key, P.where(ec.body), what, bad is None, bad or "")
    ctx.count("snappy_copy_scenarios", nsc)
    el = P.fn("snappy_emit_literal", SN)
    key = "literal-elements|%s:snappy_emit_literal" % SN
    what = ("the literal header snappy_emit_literal stores decodes (Snappy format: lengths 1..60 in the tag, 61..2^32 in 1..4 extra "
            "little-endian bytes) to the requested length, and the literal bytes follow it (abstract execution)")
    bad = None
    try:
        for ln in (1, 2, 59, 60, 61, 255, 256, 257, 65535, 65536, 65537, 16777216, 16777217):
            args = []
            ptrs = [i for i, p in enumerate(el.params) if "*" in p["t"]]
            if len(el.params) != 3 or len(ptrs) != 2:
                raise AnalysisBroken("snappy_emit_literal does not take (output, literal, length)")
            outi = [i for i in ptrs if "const" not in el.params[i]["t"]][:1] or ptrs[:1]
            for i, p in enumerate(el.params):
                args.append(Ptr("out", 0, 1) if i == outi[0] else Ptr("lit", 0, 1) if "*" in p["t"] else ln)
            copies = []

            def mc(ev, a, it, copies=copies):
                # the copy of the literal itself is recorded; a small store through memcpy (the little-endian writers of
                # core/endian.h) is carried out: the scalar's bytes in memory order
                if isinstance(a[1], Ptr) and a[1].base == "lit":
                    copies.append((a[0].off if isinstance(a[0], Ptr) else a[0], a[2]))
                    return a[0]
                if isinstance(a[1], tuple) and a[1] and a[1][0] == "ADDR" and isinstance(a[0], Ptr) and isinstance(a[0].off, int) and isinstance(a[2], int) and a[2] <= 8:
                    v = (a[1][3] if len(a[1]) > 3 else it.cur_env).get(a[1][1])
                    if isinstance(v, int):
                        for i in range(a[2]):
                            it.heap[(a[0].base, a[0].off + i)] = (v >> (8 * i)) & 0xFF
                        return a[0]
                raise sem.Inconclusive("a memcpy that is neither the literal copy nor a small scalar store")
            ret, ev, heap = sem.run(P, el, args, heap0={}, hooks={"memcpy": mc},
                                    single=True, max_forks=4, budget=20000, on_start=lambda: copies.clear())
            tag = heap.get(("out", 0))
            if not isinstance(tag, int) or tag & 3 != 0:
                bad = bad or "length %d: tag %s is not a literal tag" % (ln, tag)
                continue
            k = (tag & 0xFF) >> 2
            if k < 60:
                dl, hdr = k + 1, 1
            else:
                nb = k - 59
                dl = 1 + sum((heap.get(("out", 1 + i), 0) & 0xFF) << (8 * i) for i in range(nb))
                hdr = 1 + nb
            if dl != ln or copies != [(hdr, ln)] or not (isinstance(ret, Ptr) and ret.off == hdr + ln):
                bad = bad or "length %d: header decodes to %d (%d header bytes), literal copied %s, returns %s" % (ln, dl, hdr, copies, ret)
    except sem.Inconclusive as ex:
        ctx.inconclusive("R5.spec", key, P.where(el.body), what, str(ex))
        return
    ctx.ob("R5.spec", key, P.where(el.body), what, bad is None, bad or "")


def _nocast(t):
    if isinstance(t, tuple):
        if t[0] == "cast":
            return _nocast(t[2])
        return tuple(_nocast(x) for x in t)
    return t
