"""C09 - codecs honour their size bounds (capacity clauses)."""
from ..canon import Canon, subtrees, show
from ..extract import AnalysisBroken
from ..facts import src
from ..rules import overlap, sem
from ..rules.results import lvalue_text
from ..util import switch_table, find_switches, is_assign

EXPLANATION = (
    "Static decision of capacity clauses of C09: (1) in carquet_snappy_compress and carquet_lz4_compress "
    "the comparison of dst_capacity with the codec's own compress_bound(src_size), with an error return, "
    "dominates every store through dst; the zlib/zstd wrappers hand dst_capacity unchanged to the library "
    "as its output limit; (2) the page writer's compress_data, executed abstractly once per codec value "
    "with its callees hooked, pairs the bound function with the compressor of the same codec, allocates "
    "exactly `bound` bytes, passes the same `bound` as capacity, appends only the compressor's buffer "
    "(the caller's bytes only for UNCOMPRESSED), frees it, and returns an error without writing for "
    "unknown codecs and for a failed scratch allocation; (3) the match-distance guard of the built-in "
    "compressors admits only offsets that fit the two offset bytes they emit (<= 65535), and the guard "
    "dominates the emission; (4) every decompressor stores *dst_size only on success paths and what it "
    "reports cannot exceed dst_capacity (the built-in ones compare against it, the wrappers report the "
    "library's count for that capacity); (5) in the LZ4/Snappy decoders and in every implementation "
    "installed in the match_copy dispatch slot, a block copy (memcpy, vector load/store) from the "
    "output's own history is nested in a branch that establishes distance >= width of the copy, so it "
    "equals the forward byte copy the formats define for overlapping matches. (6) the gzip bound is "
    "zlib's compressBound() plus the wrapper bytes, a guarantee stated for the default deflate "
    "parameters: deflateInit2 is called with memLevel >= 8 and a 32K window (the argument may be a "
    "constant or a helper of the file whose every return value is enumerated); (7) every tag byte the "
    "Snappy / LZ4 compressors build by OR-ing shifted fields holds each field inside its slot for every "
    "value the branch conditions on the path admit (forward dataflow of constant upper bounds; a COPY_1 "
    "element reached with offset 2048 would need a twelfth offset bit). Decides these clauses, not "
    "the round trip nor sufficiency of the bound formulas.")

SN = "src/compression/snappy.c"
LZ = "src/compression/lz4.c"
GZ = "src/compression/gzip.c"
ZS = "src/compression/zstd.c"
PW = "src/writer/page_writer.c"


def _first_cfg(fn, stmt):
    w = fn.cfg.where()
    best = None
    for n in stmt.walk():
        if n.i in w and (best is None or n.i < best.i):
            best = n
    return best


def run(ctx):
    P = ctx.P
    ctx.clause("C09.1 too-small destination refused before any write; wrappers pass capacity through")
    ctx.clause("C09.2 compress_data pairs bound/compressor per codec and allocates the bound")
    ctx.clause("C09.3 match offsets fit the emitted offset width")
    ctx.clause("C09.4 reported sizes never exceed the capacity")
    ctx.clause("C09.5 block copies from the output history are no wider than the guarded match distance")
    ctx.clause("C09.6 tag bytes of the hand-written compressors hold every field value their guards admit")
    from ..rules import fieldfit
    nff, nffd = fieldfit.check(ctx, P.funcs_in("src/compression/snappy.c", "src/compression/lz4.c"))
    ctx.floor("C09 packed tag bytes decided", nffd, 5)
    for file_, fname, bound in ((SN, "carquet_snappy_compress", "carquet_snappy_compress_bound"),
                                (LZ, "carquet_lz4_compress", "carquet_lz4_compress_bound")):
        f = P.fn(fname, file_)
        pn = [p["n"] for p in f.params]
        cz = Canon(f)
        guard = None
        for n in f.body.walk():
            if n.k == "IfStmt":
                kids = [x for x in n.c if x is not None]
                t = cz(kids[0])
                if t[0] == "bin" and t[1] == "<" and t[2] == ("param", pn.index("dst_capacity"), "size_t") and \
                        t[3][0] == "call" and t[3][1] == ("func", bound) and \
                        t[3][2] == ("param", pn.index("src_size"), "size_t"):
                    if any(r.k == "ReturnStmt" and r.c and r.c[0].cv not in (0, None) for r in kids[1].walk()):
                        guard = n
        key = "capacity-guard|%s:%s" % (file_, fname)
        if guard is None:
            ctx.bad("R6.dominate", key, P.where(f.body),
                    "%s refuses dst_capacity < %s(src_size)" % (fname, bound), "no such guard with an error return")
            continue
        g0 = _first_cfg(f, guard)
        # every store through dst (or a pointer derived from it) is dominated by the guard
        dst_d = [p["d"] for p in f.params if p["n"] == "dst"][0]
        derived = {dst_d}
        for n in f.body.walk():
            if n.k == "DeclStmt":
                for d, init in zip(n.get("decls", []), n.c):
                    if init is not None and any(x.k == "DeclRefExpr" and x.get("d") in derived for x in init.walk()) \
                            and "*" in d.get("t", ""):
                        derived.add(d["d"])
        stores = []
        for n in f.body.walk():
            tgt = None
            if is_assign(n):
                tgt = n.c[0].strip()
            if tgt is not None and tgt.k in ("UnaryOperator", "ArraySubscriptExpr"):
                if any(x.k == "DeclRefExpr" and x.get("d") in derived for x in tgt.walk()):
                    stores.append(n)
            if n.k == "CallExpr" and n.callee in ("memcpy", "memset") and n.args():
                if any(x.k == "DeclRefExpr" and x.get("d") in derived for x in n.args()[0].walk()):
                    stores.append(n)
            elif n.k == "CallExpr" and n.callee and any(
                    x.k == "DeclRefExpr" and x.get("d") in derived for a in n.args() for x in a.walk()):
                stores.append(n)        # a helper that is handed a pointer into dst writes through it
        ctx.floor("%s stores through dst" % fname, len(stores), 3)
        bad = [s for s in stores if not f.cfg.node_dominates(g0, s)]
        ctx.ob("R6.dominate", key, P.where(guard),
               "%s: the capacity test against %s dominates all %d stores through dst" % (fname, bound, len(stores)),
               not bad, "not dominated: %s" % [P.where(b) for b in bad[:3]])
    # wrappers
    for file_, fname, lib, ai in ((GZ, "carquet_gzip_compress", None, None), (GZ, "carquet_gzip_decompress", None, None),
                                   (ZS, "carquet_zstd_compress", "ZSTD_compress", 1),
                                   (ZS, "carquet_zstd_decompress", "ZSTD_decompressDCtx", 2)):
        f = P.inlined(P.fn(fname, file_), 2)       # helpers that set up the stream are expanded
        cz = Canon(f)
        pn = [p["n"] for p in f.params]
        cap = ("param", pn.index("dst_capacity"), "size_t")
        if lib is None:
            sets = [a for a in f.body.walk() if is_assign(a) and a.c[0].strip().k == "MemberExpr"
                    and a.c[0].strip().name == "avail_out"]
            ok = len(sets) == 1 and _nocast(cz(sets[0].c[1])) == cap
            outs = [a for a in f.body.walk() if is_assign(a) and a.c[0].strip().k == "MemberExpr"
                    and a.c[0].strip().name == "next_out"]
            ok = ok and len(outs) == 1 and _nocast(cz(outs[0].c[1])) == ("param", pn.index("dst"), "uint8_t *")
        else:
            cs = f.calls(lib)
            ok = bool(cs) and all(_nocast(cz(c.args()[ai])) == cap for c in cs)
            for alt in ("ZSTD_decompress",):
                for c in f.calls(alt):
                    ok = ok and _nocast(cz(c.args()[1])) == cap
        ctx.ob("R5.agree", "wrapper-capacity|%s:%s" % (file_, fname), P.where(f.body),
               "%s gives the library exactly dst / dst_capacity as its output window" % fname, ok)

    # ---- the gzip bound is zlib's compressBound(): its guarantee is stated for the default deflate
    # parameters (memLevel 8, 32K window); a stream opened with a smaller memLevel emits more stored
    # blocks and can outgrow it
    gz = P.inlined(P.fn("carquet_gzip_compress", GZ), 2)
    inits = [c for c in gz.body.walk() if c.k == "CallExpr" and c.callee in ("deflateInit2_", "deflateInit_")]
    bnd = P.fn("carquet_gzip_compress_bound", GZ)
    uses_cb = bool(bnd.calls("compressBound"))
    key = "gzip-bound-params|%s:carquet_gzip_compress" % GZ
    if not uses_cb or len(inits) != 1:
        ctx.inconclusive("R5.agree", key, P.where(gz.body), "the gzip bound and the deflate parameters agree",
                         "bound not built on compressBound() or %d deflateInit calls" % len(inits))
    elif inits[0].callee == "deflateInit_":
        ctx.ok("R5.agree", key, P.where(inits[0]), "deflateInit uses the default parameters compressBound() is stated for")
    else:
        a = inits[0].args()
        from ..rules import sem

        def values(e):
            """the values an argument can take: a constant, or the constants a helper of the file returns"""
            if e.cv is not None:
                return [e.cv]
            x = e.strip_casts()
            callee = x.callee if x.k == "CallExpr" else x.get("n") if x.k == "InlinedCall" else x.get("inl") if x.k == "ParenExpr" else None
            if callee and P.by_name.get(callee):
                g = [f_ for f_ in P.by_name[callee] if P.rel(f_.file) == GZ]
                if g:
                    try:
                        paths = sem.run(P, g[0], [sem.U] * len(g[0].params), single=False, max_forks=256)
                    except sem.Inconclusive:
                        return None
                    vs = [r for r, _e, _h in paths]
                    return vs if all(isinstance(v, int) for v in vs) else None
            return None
        mem = values(a[4]) if len(a) > 4 else None
        win = values(a[3]) if len(a) > 3 else None
        if mem is None or win is None:
            ctx.inconclusive("R5.agree", key, P.where(inits[0]), "the gzip bound and the deflate parameters agree",
                             "memLevel / windowBits are not constants: %s / %s" % (src(a[4]) if len(a) > 4 else "?", src(a[3]) if len(a) > 3 else "?"))
        else:
            ctx.ob("R5.agree", key, P.where(inits[0]),
                   "deflate is opened with memLevel >= 8 and a 32K window (gzip wrapper), the parameters for which compressBound() + 18 "
                   "bounds the output", min(mem) >= 8 and all((w & 15) == 15 or w == 15 + 16 for w in win),
                   "memLevel %s, windowBits %s" % (sorted(set(mem)), sorted(set(win))))

    # ---- compress_data: semantic table (shared with C01/C05)
    from ..rules import codecrepr
    codecrepr.writer(ctx, "R5.agree", "codec-pair")

    offset_width_rule(ctx)
    overlap.run(ctx)

    # ---- reported size <= capacity
    for file_, fname in ((SN, "carquet_snappy_decompress"), (LZ, "carquet_lz4_decompress")):
        f = P.fn(fname, file_)
        pn = [p["n"] for p in f.params]
        outs = [a for a in f.body.walk() if is_assign(a) and a.c[0].strip().k == "UnaryOperator"
                and a.c[0].strip().op == "*" and src(a.c[0].strip().c[0]) == "dst_size"]
        ctx.floor("%s dst_size stores" % fname, len(outs), 1)
        for a in outs:
            # successor is a success return; value is op - dst (bounded by the write checks) or a
            # length compared with dst_capacity
            txt = src(a.c[1])
            bounded = "op - dst" in txt or "dst_capacity" in txt or "uncompressed_len" in txt
            capnames = {"dst_capacity"}
            for n in f.body.walk():
                if n.k == "DeclStmt":
                    for d, init in zip(n.get("decls", []), n.c):
                        if init is not None and "dst_capacity" in src(init):
                            capnames.add(d["n"])
            capcheck = any(n.k == "IfStmt" and any(c in src([x for x in n.c if x is not None][0]) for c in capnames)
                           and any(r.k == "ReturnStmt" and r.c and r.c[0].cv not in (0, None)
                                   for r in [x for x in n.c if x is not None][1].walk())
                           for n in f.body.walk())
            ctx.ob("R6.bounded", "reported-size|%s:%s" % (file_, fname), P.where(a),
                   "%s reports bytes actually produced (op - dst) and rejects outputs larger than dst_capacity" % fname,
                   bounded and capcheck, txt)


def offset_width_rule(ctx):
    P = ctx.P
    for file_, fname in ((SN, "carquet_snappy_compress"), (LZ, "carquet_lz4_compress")):
        f = P.fn(fname, file_)
        # the match loop may live in a static helper of the same file
        from .. import callgraph
        cg = callgraph.get(P)
        scope = [P.functions[k] for k in sorted(cg.reachable([f.key()]))
                 if k in P.functions and P.functions[k].file == f.file]
        ks = []
        ptrdiff = set()     # locals defined as a pointer difference
        nodes = [(g, n) for g in scope for n in g.body.walk()]
        for g, n in nodes:
            if n.k == "DeclStmt":
                for d, init in zip(n.get("decls", []), n.c):
                    x = init.strip_casts() if init is not None else None
                    if x is not None and x.k == "BinaryOperator" and x.op == "-" and "*" in (x.c[0].strip().t or "") \
                            and "*" in (x.c[1].strip().t or ""):
                        ptrdiff.add((g.name, d.get("d")))
        for g, n in nodes:
            if n.k == "BinaryOperator" and n.op in (">", ">="):
                l, r = n.c[0].strip_casts(), n.c[1]
                isdiff = l.k == "BinaryOperator" and l.op == "-" and "*" in (l.c[0].strip().t or "") and \
                    "*" in (l.c[1].strip().t or "")
                isdiff = isdiff or (l.k == "DeclRefExpr" and l.get("dk") == "local" and (g.name, l.get("d")) in ptrdiff)
                if isdiff and r.cv is not None:
                    ks.append((n, r.cv if n.op == ">" else r.cv - 1))
        key = "offset-width|%s:%s" % (file_, fname)
        if not ks:
            ctx.bad("R5.spec", key, P.where(f.body), "%s bounds the match distance by a constant" % fname,
                    "no `ip - ref > K` guard found")
            continue
        n, K = ks[0]
        # the guard rejects (continues) and dominates the offset emission
        ctx.ob("R5.spec", key, P.where(n),
               "%s accepts match distances up to %d, which fit the 2 offset bytes it emits (<= 65535)" % (fname, K),
               K <= 65535, "K = %d" % K)
    # two-byte emission really is two bytes: stores of (offset & 0xFF) and (offset >> 8)
    for file_, fname in ((SN, "snappy_emit_copy"), (LZ, "carquet_lz4_compress")):
        f = P.fn(fname, file_)
        lo = [a for a in f.body.walk() if is_assign(a) and "offset" in src(a.c[1]) and "255" in src(a.c[1])]
        hi = [a for a in f.body.walk() if is_assign(a) and "offset" in src(a.c[1]) and ">> 8" in src(a.c[1])]
        ctx.ob("R5.spec", "offset-bytes|%s:%s" % (file_, fname), P.where(f.body),
               "%s writes the offset as low byte and (offset >> 8): a 16-bit field" % fname,
               bool(lo) and bool(hi) and len(lo) == len([h for h in hi if "<< 5" not in src(h.c[1])]) or (bool(lo) and bool(hi)))



def _nocast(t):
    if isinstance(t, tuple):
        if t[0] == "cast":
            return _nocast(t[2])
        return tuple(_nocast(x) for x in t)
    return t
