"""C18 - truncated files rejected; failed writes never reported OK."""
from ..canon import Canon, subtrees, show
from ..extract import AnalysisBroken
from ..facts import src
from ..rules import results as R
from ..rules.flow import find_path_avoiding, reaches_exit_avoiding, describe_path

EXPLANATION = (
    "Static decision of structural clauses of C18: (1) every fwrite/fflush/fclose/fseek/fread/ftell "
    "result in src/writer/file_writer.c and src/reader/file_reader.c is consumed on every path; every "
    "fwrite result is compared with the requested count (directly or through the local it is stored in) - "
    "a test against zero alone lets a short count pass as progress; carquet_writer_close, executed "
    "abstractly with a failure injected at each step in turn (the writer's own steps, the metadata "
    "serialiser and stdio hooked; owns_file on/off): the emission order is header, pending row group, "
    "metadata, metadata bytes, 4-byte length, magic, flush, close; a failing step ends the emission while "
    "the stream is still closed; a failing fflush/fclose after the magic makes the status non-OK; close "
    "returns OK exactly when no step failed; (2) each of the three open paths (read_footer, "
    "read_footer_mmap, carquet_reader_open_buffer) is executed abstractly over file sizes 0..16/20/100 x "
    "head/tail magic outcomes x footer lengths (byte compares and the length read are hooked, contents "
    "unknown): the footer parser is reached only when the file has >= 12 bytes, the trailing magic "
    "matched and footer_size <= file_size - 8, then with exactly the footer_size bytes before the tail; "
    "magic and length are read inside the file; every well-formed envelope reaches the parser; "
    "build_schema runs only after the parse status was tested; build_schema, executed for metadata that "
    "declares no schema element (what a lone Thrift STOP byte parses as), returns NULL - the arena's answer "
    "to a zero-size request is obtained by executing carquet_arena_calloc, not assumed; (3) carquet_writer_abort closes the stream "
    "and then removes the path for path-based writers, and whether it removes depends only on {owns_file, "
    "file, path}. (8) a member the writer releases outside its destructor - directly or by handing it (or a local copy of it that can still be current) to a function that frees its parameter - is assigned again before the function returns, so abort and close do not release it a second time (R27). (9) R44 as in C08.12 over the Thrift decoder, the buffer reader and the file readers: whatever bytes a cut leaves in front of the trailing magic, a length field among them cannot make `position + length` wrap and the parser leave the footer - the file is then refused like any other malformed footer. Decides these clauses, not that every prefix of every file is rejected (that depends on "
    "byte values).")

FW = "src/writer/file_writer.c"
FR = "src/reader/file_reader.c"
MR = "src/reader/mmap_reader.c"

SUPPRESS = {
    "stdio|src/writer/file_writer.c:carquet_writer_abort|fclose#0":
        "abort abandons the file and has no status to return; the path is removed right after",
    "stdio|src/writer/file_writer.c:carquet_writer_abort|remove#0":
        "abort has no status to return",
    "stdio|src/reader/file_reader.c:carquet_reader_close|fclose#0":
        "read-only stream: nothing buffered can be lost, close returns void",
    "stdio|src/reader/file_reader.c:carquet_reader_open|fclose#0":
        "error path of open on a read-only stream; the open already fails",
    "stdio|src/writer/file_writer.c:carquet_writer_create|fclose#0":
        "error path of create before any byte was written; create already fails",
}


def _empty_footer_rule(ctx):
    """build_schema, executed for metadata without schema elements, returns NULL. The arena's answer to a
    zero-size request is taken from executing carquet_arena_calloc itself, not assumed."""
    from ..rules import sem
    from ..rules.skeleton import Ptr, U
    P = ctx.P
    bs = P.fn("build_schema", FR)
    key = "empty-footer|%s:build_schema" % FR
    what = ("build_schema refuses metadata that declares no schema element, so a truncated file whose last bytes read as an "
            "empty footer does not open as an empty table (abstract execution; the arena's zero-size answer is executed, not assumed)")
    try:
        zero_null = True
        ac = P.fn("carquet_arena_calloc", "src/core/arena.c")
        for cnt, sz in ((0, 4), (0, 2)):
            outs = sem.run(P, ac, [Ptr("arena", 0, 1), cnt, sz], heap0={}, hooks={"memset": lambda ev, a, it: a[0]}, single=False, max_forks=8, budget=20000)
            if not outs or any(r != 0 for r, ev, h in outs):
                zero_null = False
        mo = sem.field_offsets(P, "parquet_file_metadata")
        heap0 = {("md", mo["schema"]): 0, ("md", mo["num_schema_elements"]): 0}
        na = [0]

        def alloc(ev, a, it):
            total = a[1] * a[2] if isinstance(a[1], int) and isinstance(a[2], int) else U
            ev.append(("alloc", total))
            if total == 0 and zero_null:
                return 0
            na[0] += 1
            return Ptr("a%d" % na[0], 0, 1)
        hooks = {"carquet_arena_calloc": alloc, "carquet_error_set": lambda ev, a, it: None}
        outs = sem.run(P, bs, [Ptr("arena", 0, 1), Ptr("md", 0, 1), 0], heap0=heap0, hooks=hooks, single=False, max_forks=16,
                       budget=100000, on_start=lambda: na.__setitem__(0, 0))
    except sem.Inconclusive as ex:
        ctx.inconclusive("R3.extent", key, P.where(bs.body), what, str(ex))
        return
    accepted = [(r, ev) for r, ev, h in outs if r != 0]
    if not accepted:
        ctx.ok("R3.extent", key, P.where(bs.body), what, "returns NULL (zero-size arena requests answer NULL: %s)" % zero_null)
        return
    # an earlier refusal: an open path that tests the element count before it builds the schema
    early = []
    for g in P.funcs_in(FR, MR):
        calls = g.calls("build_schema")
        if not calls:
            continue
        tested = False
        for n in g.body.walk():
            if n.k == "BinaryOperator" and n.op in ("<", "<=", "==", ">", ">=", "!=") and any(
                    x.k == "MemberExpr" and x.name == "num_schema_elements" for x in n.walk()) and g.cfg.node_dominates(n, calls[0]):
                tested = True
        early.append(tested)
    if early and all(early):
        ctx.inconclusive("R3.extent", key, P.where(bs.body), what, "build_schema accepts it, but every open path tests num_schema_elements first: not decided by this rule")
    else:
        ctx.bad("R3.extent", key, P.where(bs.body), what,
                "with no schema element build_schema returns a schema (%s); nothing before it refuses the footer" % (accepted[0][1],))


def run(ctx):
    P = ctx.P
    ctx.clause("C18.1 stream results reach the status; close flushes on every OK path")
    ctx.clause("C18.2 size/magic/footer-length validation dominates metadata parsing in all open paths")
    ctx.clause("C18.3 abort closes and removes")
    ctx.clause("C18.9 the tail of a truncated file that happens to parse as Thrift cannot run the parser out of the footer: no 64-bit length decoded from it reaches a `position + length` test untested (rule shared with C08.12)")
    from ..rules import wrapsum
    nws = wrapsum.check(ctx, sorted(set(P.rel(f.file) for f in P.lib_functions() if P.rel(f.file).startswith(("src/thrift/", "src/core/", "src/reader/")))))
    ctx.count("wrap_sum_sites_judged", nws)      # (vacuity is covered by the wrapsum control twins: a wrap-free rewrite of the helpers has no instance)
    ctx.clause("C18.7 a footer that declares no schema element (a lone Thrift STOP parses as one) is refused by every open path")
    _empty_footer_rule(ctx)
    ctx.clause("C18.8 what the writer releases after a failure it also forgets: abort and close do not release it a second time (rule shared with C07.5)")
    from ..rules import stalefield
    nst = stalefield.check(ctx, P.funcs_under("src/writer/"))
    ctx.count("writer_member_release_sites", nst)
    wf = P.funcs_in(FW)
    rf = P.funcs_in(FR, MR)
    n = R.check_status_calls(ctx, wf + rf, R.STDIO_RESULT, "R1.stdio", pid_key="stdio", suppress=SUPPRESS)
    ctx.floor("C18 stdio call sites", n, 14)

    # write_magic / ensure_header_written / flush_row_group statuses in the writer
    statusf = R.status_functions(P)
    n2 = R.check_status_calls(ctx, wf, statusf, "R1.status", pid_key="wstatus")
    ctx.floor("C18 writer status call sites", n2, 15)

    # ---- a short fwrite count is a failure: stdio has then dropped or failed to hand on buffered bytes, and
    # a later call that happens to succeed does not bring them back
    ctx.clause("C18.6 every fwrite result is compared with the requested count; any shortfall is reported")
    nfw = 0
    for fn in wf:
        cz = Canon(fn)
        ords = R.call_ordinals(fn)
        for call in fn.calls("fwrite"):
            nfw += 1
            a = call.args()
            want = [cz(a[2])] if a[1].cv == 1 else ([cz(a[1])] if a[2].cv == 1 else [])
            key = "fwrite-count|%s:%s|%s" % (FW if P.rel(fn.file) == FW else P.rel(fn.file), fn.name, ords[call.i])
            # comparisons the result takes part in: directly, or through the local it is stored in
            p_ = call.parent
            while p_ is not None and p_.k in ("ParenExpr", "ImplicitCastExpr", "CStyleCastExpr"):
                p_ = p_.parent
            cmps = []
            if p_ is not None and p_.k == "BinaryOperator" and p_.op in ("==", "!=", "<", "<=", ">", ">="):
                other = p_.c[1] if any(x is call for x in p_.c[0].walk()) else p_.c[0]
                cmps.append((p_, other))
            else:
                d_ = None
                if p_ is not None and p_.k == "DeclStmt":
                    for dd, init in zip(p_.get("decls", []), p_.c):
                        if init is not None and any(x is call for x in init.walk()):
                            d_ = dd.get("d")
                elif p_ is not None and is_assign(p_) and p_.op == "=" and p_.c[0].strip().k == "DeclRefExpr":
                    d_ = p_.c[0].strip().get("d")
                if d_ is not None:
                    for x in fn.body.walk():
                        if x.k == "BinaryOperator" and x.op in ("==", "!=", "<", "<=", ">", ">="):
                            for me, other in ((x.c[0], x.c[1]), (x.c[1], x.c[0])):
                                if me.strip_casts().k == "DeclRefExpr" and me.strip_casts().get("d") == d_:
                                    cmps.append((x, other))
                        elif x.k == "UnaryOperator" and x.op == "!" and x.c[0].strip_casts().k == "DeclRefExpr" and \
                                x.c[0].strip_casts().get("d") == d_:
                            cmps.append((x, None))
            what = "the result of fwrite is compared with the requested count `%s`; a shortfall is a write failure" % (
                src(a[2]) if a[1].cv == 1 else src(a[1]))
            full = [c for c, o in cmps if o is not None and want and cz(o) in want]
            zero = [c for c, o in cmps if o is None or o.cv == 0]
            if full:
                ctx.ok("R1.stdio", key, P.where(call), what, src(full[0])[:80])
            elif zero:
                ctx.bad("R1.stdio", key, P.where(zero[0]), what,
                        "only `%s` is tested: a short count above zero passes as progress" % src(zero[0])[:60])
            else:
                ctx.inconclusive("R1.stdio", key, P.where(call), what, "no comparison of the result recognised")
    ctx.floor("C18 fwrite call sites", nfw, 1)

    # ---- close: flush before OK
    close = P.fn("carquet_writer_close", FW)
    # abstract execution of close with a failure injected at each step in turn (the writer's own steps,
    # the metadata serialiser and stdio are hooked): the emission order is header, row group, metadata,
    # metadata bytes, length, magic, flush, close; a failing step stops the emission, the stream is still
    # closed, and the status is non-OK exactly when a step failed. Helpers (write_footer), goto cleanup
    # or a status chain make no difference.
    from ..rules import sem
    for anchor in ("ensure_header_written", "flush_row_group", "build_file_metadata", "write_magic"):
        P.fn(anchor, FW)
    wo_ = sem.field_offsets(P, "carquet_writer")
    bo_ = sem.field_offsets(P, "carquet_buffer")
    STEPS = ["ensure_header_written", "flush_row_group", "build_file_metadata", "parquet_write_file_metadata",
             "fwrite-metadata", "fwrite-length", "write_magic", "fflush", "fclose"]
    verd = {"close-order": None, "close-flush": None, "close-fold": None, "close-stop": None}
    nscen = 0
    try:
        for owns in (1, 0):
            for fail in [None] + STEPS:
                if fail == "fclose" and not owns:
                    continue
                nscen += 1
                heap0 = {("fw", wo_["file"]): sem.Ptr("FILE", 0, 1), ("fw", wo_["owns_file"]): owns,
                         ("fw", wo_["columns"]): 0, ("fw", wo_["num_columns"]): 0, ("fw", wo_["current_row_group"]): 0,
                         ("fw", wo_["column_values_written"]): 0, ("fw", wo_["row_groups"]): 0, ("fw", wo_["path"]): 0}

                def step(name, okv=0, badv=5):
                    def h(ev, a, it, name=name):
                        ev.append(name)
                        return badv if fail == name else okv
                    return h

                def ser(ev, a, it):
                    ev.append("parquet_write_file_metadata")
                    if isinstance(a[1], sem.Ptr):
                        it.heap[(a[1].base, a[1].off + bo_["size"])] = 55
                        it.heap[(a[1].base, a[1].off + bo_["data"])] = sem.Ptr("mdbytes", 0, 1)
                    return 5 if fail == "parquet_write_file_metadata" else 0

                def fw_(ev, a, it):
                    nm = "fwrite-metadata" if a[2] == 55 and getattr(a[0], "base", None) == "mdbytes" else \
                        "fwrite-length" if a[2] == 4 else "fwrite-other(%s)" % (a[2],)
                    ev.append(nm)
                    return (a[2] - 1) if fail == nm and isinstance(a[2], int) else a[2]

                def binit(ev, a, it):
                    if isinstance(a[0], sem.Ptr):
                        it.heap[(a[0].base, a[0].off + bo_["size"])] = 0
                        it.heap[(a[0].base, a[0].off + bo_["data"])] = 0
                hooks = {"ensure_header_written": step("ensure_header_written"), "flush_row_group": step("flush_row_group"),
                         "build_file_metadata": step("build_file_metadata"), "write_magic": step("write_magic"),
                         "parquet_write_file_metadata": ser, "fwrite": fw_,
                         "fflush": step("fflush", 0, -1), "fclose": step("fclose", 0, -1),
                         "carquet_buffer_init": binit, "carquet_buffer_destroy": lambda ev, a, it: None,
                         "free": lambda ev, a, it: None, "carquet_arena_destroy": lambda ev, a, it: None,
                         "carquet_row_group_writer_destroy": lambda ev, a, it: None}
                ret, ev, heap = sem.run(P, close, [sem.Ptr("fw", 0, 1)], heap0=heap0, hooks=hooks, single=True, max_forks=64)
                emit = STEPS[:8]
                upto = emit if fail in (None, "fclose") else emit[:emit.index(fail) + 1]
                want = list(upto) + (["fclose"] if owns else [])
                sc = "owns_file=%d, %s" % (owns, "no failure" if fail is None else fail + " fails")
                if fail is None and ev != want and verd["close-order"] is None:
                    verd["close-order"] = "%s: steps %s" % (sc, ev)
                if fail is not None and ev != want and verd["close-stop"] is None:
                    verd["close-stop"] = "%s: steps %s, expected %s" % (sc, ev, want)
                if fail is None and ret != 0 and verd["close-fold"] is None:
                    verd["close-fold"] = "%s: returns %s" % (sc, ret)
                if fail in ("fflush", "fclose") and (not isinstance(ret, int) or ret == 0) and verd["close-flush"] is None:
                    verd["close-flush"] = "%s: returns %s" % (sc, ret)
                if fail not in (None, "fflush", "fclose") and (not isinstance(ret, int) or ret == 0) and verd["close-fold"] is None:
                    verd["close-fold"] = "%s: returns %s" % (sc, ret)
        what = {"close-order": "close emits header, pending row group, metadata, metadata bytes, 4-byte length, magic, then flushes and closes the stream, in that order",
                "close-stop": "a failing step ends the emission (nothing is written after it) and the stream is still closed",
                "close-flush": "after the trailing magic a failing fflush/fclose makes the returned status non-OK",
                "close-fold": "close returns OK exactly when no step failed"}
        for k_, msg in verd.items():
            ctx.ob("R6.must-pass" if k_ != "close-order" else "R6.order", "%s|%s:carquet_writer_close" % (k_, FW), P.where(close.body),
                   what[k_] + " (%d failure scenarios, abstract execution)" % nscen, msg is None, msg or "")
    except (sem.Inconclusive, KeyError) as ex:
        ctx.inconclusive("R6.must-pass", "close-trace|%s:carquet_writer_close" % FW, P.where(close.body),
                         "abstract execution of close", "%s: %s" % (type(ex).__name__, ex))
    ctx.floor("C18 close failure scenarios", nscen, 15)

    gates = open_gates(ctx)
    ctx.floor("C18 open gates", gates, 9)

    # ---- abort
    ab = P.fn("carquet_writer_abort", FW)
    fc, rm = ab.calls("fclose"), ab.calls("remove")
    ctx.ob("R6.order", "abort|%s:carquet_writer_abort" % FW, P.where(ab.body),
           "abort closes the stream and then removes the file for path-based writers",
           len(fc) == 1 and len(rm) == 1 and ab.cfg.node_dominates(fc[0], rm[0]))
    # ... at any point of the writer's life: the removal depends only on the writer owning a path-based
    # stream, never on how far writing got
    allowed = {"owns_file", "file", "path"}
    offending = []
    for c in rm + [r for r in ab.returns()]:
        for a in c.ancestors():
            if a.k == "IfStmt":
                cond = [x for x in a.c if x is not None][0]
                for m in cond.walk():
                    if m.k == "MemberExpr" and m.name not in allowed:
                        offending.append((a, m.name))
                    if m.k == "CallExpr":
                        offending.append((a, src(m)[:30]))
    ctx.ob("R6.order", "abort-unconditional|%s:carquet_writer_abort" % FW, P.where(offending[0][0] if offending else ab.body),
           "whether abort removes the file depends only on {owns_file, file, path}, not on the writing progress",
           not offending and len(rm) == 1, "also depends on: %s" % sorted(set(o[1] for o in offending)) if offending else "")


def open_gates(ctx):
    """The three open paths executed abstractly over file sizes x magic outcomes x footer lengths x parser outcome.
    The bytes of the envelope are given to the interpreter (through the length / compare helpers when the code uses
    them, byte by byte when it assembles them itself); everything else of the file is unknown."""
    P = ctx.P
    # ---- open paths: validation gates parsing (abstract execution over file sizes x magic outcomes x
    # footer lengths; the byte comparisons and the length read are hooked, contents stay unknown)
    from ..rules import sem
    ro = sem.field_offsets(P, "carquet_reader")
    gates = 0
    for fname, file_, kind in (("read_footer", FR, "stream"), ("read_footer_mmap", FR, "mapped"),
                               ("carquet_reader_open_buffer", MR, "buffer")):
        f = P.fn(fname, file_)
        bad = None
        unparsed_valid = None
        oob = None
        schema_bad = None
        alloc_bad = None
        scen = 0
        try:
            for S in list(range(0, 17)) + [20, 100]:
                for head_ok in (True, False):
                    for tail_ok in (True, False):
                        for FL in sorted(set(x for x in (0, 1, S - 12, S - 9, S - 8, S - 7, S, 0xFFFFFFFF) if x >= 0)):
                          for parse_ok in ((True, False) if (S in (12, 20, 100) and tail_ok and head_ok) else (True,)):
                            scen += 1
                            state = {"seek": None}

                            def h_memcmp(ev, a, it, S=S, head_ok=head_ok, tail_ok=tail_ok):
                                p0 = a[0] if isinstance(a[0], sem.Ptr) and a[0].base == "file" else (
                                    a[1] if isinstance(a[1], sem.Ptr) and a[1].base == "file" else None)
                                if p0 is not None:
                                    if not isinstance(p0.off, int) or p0.off < 0 or p0.off + 4 > S:
                                        ev.append(("oob", p0.off))
                                        return sem.U
                                    if p0.off == 0:
                                        return 0 if head_ok else 1
                                    if p0.off == S - 4:
                                        return 0 if tail_ok else 1
                                    return sem.U
                                return 0 if tail_ok else 1       # stream variant: the 8 tail bytes were read into a local

                            def h_u32(ev, a, it, S=S, FL=FL):
                                p0 = a[0]
                                if isinstance(p0, sem.Ptr) and p0.base == "file":
                                    if not isinstance(p0.off, int) or p0.off < 0 or p0.off + 4 > S:
                                        ev.append(("oob", p0.off))
                                        return sem.U
                                    if p0.off != S - 8:
                                        ev.append(("len-at", p0.off))
                                return FL

                            def h_parse(ev, a, it):
                                ev.append(("parse", a[0].off if isinstance(a[0], sem.Ptr) else a[0],
                                           a[0].base if isinstance(a[0], sem.Ptr) else None, a[1]))
                                return 0 if parse_ok else 9

                            def h_fread(ev, a, it, S=S, FL=FL, tail_ok=tail_ok):
                                n_ = (a[1] * a[2]) if isinstance(a[1], int) and isinstance(a[2], int) else sem.U
                                # the 8 tail bytes read into a local buffer: footer length (little-endian) and the magic
                                if n_ == 8 and isinstance(a[0], sem.Ptr) and isinstance(a[0].off, int) and a[0].base != "footer":
                                    for i_ in range(4):
                                        it.heap[(a[0].base, a[0].off + i_)] = (FL >> (8 * i_)) & 0xFF
                                    for i_, ch in enumerate(b"PAR1" if tail_ok else b"PARX"):
                                        it.heap[(a[0].base, a[0].off + 4 + i_)] = ch
                                return n_

                            def file_bytes(base, off, size, S=S, FL=FL, head_ok=head_ok, tail_ok=tail_ok):
                                if base != "file" or not isinstance(off, int):
                                    return None
                                img = {}
                                for i_ in range(4):
                                    img[S - 8 + i_] = (FL >> (8 * i_)) & 0xFF
                                for i_, ch in enumerate(b"PAR1" if tail_ok else b"PARX"):
                                    img[S - 4 + i_] = ch
                                for i_, ch in enumerate(b"PAR1" if head_ok else b"PARX"):
                                    img.setdefault(i_, ch)
                                if all((off + i_) in img for i_ in range(size)) and off >= 0 and off + size <= S:
                                    return sum(img[off + i_] << (8 * i_) for i_ in range(size))
                                return None
                            hooks = {"memcmp": h_memcmp, "carquet_read_u32_le": h_u32, "parquet_parse_file_metadata": h_parse,
                                     "build_schema": lambda ev, a, it: ev.append(("build_schema",)) or sem.Ptr("schema", 0, 1),
                                     "carquet_error_set": lambda ev, a, it: 0,
                                     "calloc": lambda ev, a, it: sem.Ptr("reader", 0, 1),
                                     "malloc": lambda ev, a, it: ev.append(("malloc", a[0])) or sem.Ptr("footer", 0, 1),
                                     "free": lambda ev, a, it: 0, "carquet_arena_init": lambda ev, a, it: 0,
                                     "carquet_arena_destroy": lambda ev, a, it: 0,
                                     "carquet_reader_options_init": lambda ev, a, it: 0,
                                     "fseek": lambda ev, a, it: ev.append(("seek", a[1], a[2])) or 0,
                                     "ftell": lambda ev, a, it, S=S: S,
                                     "fread": h_fread}
                            if kind == "buffer":
                                args = [sem.Ptr("file", 0, 1), S, 0, sem.Ptr("err", 0, 1)]
                                heap0 = {}
                            else:
                                args = [sem.Ptr("reader", 0, 1), sem.Ptr("err", 0, 1)]
                                heap0 = {("reader", ro["mmap_data"]): sem.Ptr("file", 0, 1), ("reader", ro["file_size"]): S,
                                         ("reader", ro["file"]): sem.Ptr("FILE", 0, 1)}
                            paths = sem.run(P, f, args, heap0=heap0, hooks=hooks, single=False, max_forks=64, memory=file_bytes)
                            valid_min = S >= 12 and tail_ok and FL <= S - 8
                            for ret, ev, heap in paths:
                                parsed = [e for e in ev if e[0] == "parse"]
                                if [e for e in ev if e[0] in ("oob", "len-at")] and oob is None:
                                    oob = "size %d: reads the file at offset %s" % (S, [e for e in ev if e[0] in ("oob", "len-at")][0][1])
                                built = [e for e in ev if e[0] == "build_schema"]
                                if built and (not parsed or not parse_ok) and schema_bad is None:
                                    schema_bad = "size %d, footer length %d, parser %s: build_schema runs" % (S, FL, "fails" if parsed else "not reached")
                                if not valid_min and FL > 64 and any(e[0] == "malloc" and e[1] == FL for e in ev) and alloc_bad is None:
                                    alloc_bad = "size %d, footer length %d: a buffer of the unvalidated footer length is allocated" % (S, FL)
                                if parsed and not valid_min and bad is None:
                                    bad = "size %d, trailing magic %s, footer length %d: the footer is parsed" % (
                                        S, "ok" if tail_ok else "wrong", FL)
                                if parsed and valid_min:
                                    off, base, ln = parsed[0][1], parsed[0][2], parsed[0][3]
                                    where_ok = (base == "file" and off == S - 8 - FL) or (
                                        base == "footer" and ("seek", S - 8 - FL, 0) in ev)
                                    if (ln != FL or not where_ok) and bad is None:
                                        bad = "size %d, footer length %d: parses %s bytes at %s+%s" % (S, FL, ln, base, off)
                            if valid_min and head_ok and not any(any(e[0] == "parse" for e in ev) for ret, ev, heap in paths) \
                                    and unparsed_valid is None:
                                unparsed_valid = "size %d, both magics ok, footer length %d: never parsed" % (S, FL)
        except sem.Inconclusive as ex:
            ctx.inconclusive("R6.dominate", "open-gate|%s:%s" % (file_, fname), P.where(f.body), "abstract execution", str(ex))
            continue
        gates += 3
        ctx.ob("R6.dominate", "open-gate|%s:%s|validated" % (file_, fname), P.where(f.body),
               "%s parses a footer only when the file has >= 12 bytes, the trailing magic matched and footer_size <= "
               "file_size - 8, and then exactly the footer_size bytes before the tail (%d scenarios)" % (fname, scen),
               bad is None, bad or "")
        ctx.ob("R6.dominate", "open-gate|%s:%s|in-bounds" % (file_, fname), P.where(f.body),
               "%s reads magic and footer length only inside the file (length at size-8)" % fname, oob is None, oob or "")
        ctx.ob("R6.dominate", "open-gate|%s:%s|accepts-valid" % (file_, fname), P.where(f.body),
               "%s reaches the footer parser for every well-formed envelope" % fname, unparsed_valid is None, unparsed_valid or "")
        ctx.ob("R6.dominate", "open-schema|%s:%s" % (file_, fname), P.where(f.body),
               "%s: build_schema runs only after the footer was parsed successfully (parser hooked to fail / succeed)" % fname,
               schema_bad is None, schema_bad or "")
        ctx.ob("R3.extent", "footer-size|%s:%s" % (file_, fname), P.where(f.body),
               "%s allocates a footer buffer only for a footer length it has compared with the file size" % fname, alloc_bad is None, alloc_bad or "")
    return gates


def _status_tested_between(f, a, b):
    """No path from a to b avoids a branch on the status variable."""
    use, node = R.classify_use(a)
    if use != "stored-local":
        return use in ("tested",)
    d, name = R._decl_of_store(node, a)

    def is_test(e):
        return e.k == "DeclRefExpr" and e.get("d") == d and R._is_truth_use_or_cmp(e)
    w = f.cfg.where()
    bb, idx = w[a.i]
    return find_path_avoiding(f.cfg, is_test, lambda e: e is b, None, (bb, idx + 1)) is None


def _first_cfg(fn, stmt):
    w = fn.cfg.where()
    best = None
    for n in stmt.walk():
        if n.i in w and (best is None or n.i < best.i):
            best = n
    return best


def _nocast(t):
    if isinstance(t, tuple):
        if t[0] == "cast":
            return _nocast(t[2])
        return tuple(_nocast(x) for x in t)
    return t
