"""C08 - component decoders are safe on arbitrary bytes (bounds, pairing, recursion)."""
from ..canon import Canon, show
from ..extract import AnalysisBroken
from ..facts import src
from ..rules import arrays, bitfield, cursor, ownership, recursion
from ..rules.skeleton import Interp, Ptr, U, Budget, Stop
from ..util import is_assign
from . import C11

EXPLANATION = (
    "Static decision of structural clauses of C08: (1) cursor-bounds dataflow (a zone-style abstract "
    "domain over avail = limit - cursor with constant and symbolic lower bounds, counted-loop and "
    "lock-step summaries) over every decoder function of snappy.c, lz4.c, rle.c, delta.c, delta_length.c, "
    "delta_strings.c, dictionary.c, plain.c, buffer.c and thrift_decode.c: every read or write through an "
    "input/output cursor is covered by a bound established on every path; a pointer derived from buffer + "
    "cursor (a local, or the argument of a helper whose every access is proven below its length "
    "parameter) needs that length available at the point of derivation; sub-buffers handed to other "
    "callees carry exactly the remaining length or the callee's declared extent; (2) cursor-skeleton "
    "execution of the count-driven decoders (bit unpackers for every width 0..32 and count 0..40 (0..130 "
    "thorough), PLAIN, BYTE_STREAM_SPLIT): reads inside the bytes the caller checked, writes inside count "
    "values; (3) every variable index into fixed-size decoder state is bounded by a dominating guard, a "
    "validated header invariant (also when the validation is a predicate helper), a loop bound that is a "
    "helper parameter bounded at every call site, an ensure-helper that answers true only below the limit "
    "or right after a reset, or a field that only holds bounded constants; (4) index guards are sign-safe "
    "(judged on the converted operand type); (5) every recursion cycle has a depth, budget or progress "
    "guard; (6) decoders and the zlib/zstd wrappers release their temporaries and library streams "
    "(inflateEnd / deflateEnd) on every exit; (7) a refill step of the streaming RLE decoder that gives "
    "up records an error or has nothing owed by the current run (its driving loops terminate); (8) no "
    "bounds guard adds or multiplies an unbounded 32-bit value taken from the input before widening it "
    "to the 64-bit size it is compared with (the sum wraps and the guard admits what it exists to refuse); (9) an "
    "element of an array that a decoding call filled is sign-checked (itself, or element-wise in an earlier "
    "validation loop) before it offsets a pointer or sizes a copy. (10) an indexed read from a table validated as `size >= count * K` stays inside it: read width <= stride <= K (R39, the dictionary decoders); (11) R40 loop cursors as in C06.10; (12) R44: every value handed to a wrap-prone length parameter (a 64-bit parameter some function adds to a position inside a relational test, found as a fixed point across helpers - carquet_buffer_reader_has, has_bytes, reader_read, reader_skip) and every 64-bit local added to a position in a guard is a constant, at most 32 bits wide before widening, built from such, or tested on every path from where an input-decoding routine (LEB128 / zigzag / 64-bit readers) produced it; the witness otherwise is length = 2^64 - position; (13) R41 as in C10: the block decompressors on format-built streams (invalid forms included: length fields with the top bit set, offsets past the output, cut-off elements) stop at the first access outside the stream or the destination - pointer arithmetic is modelled modulo 2^64, so a length that went negative and a guard that wrapped are seen. Decides "
    "these clauses, not termination bounds in general, oversized shifts, nor safety inside zlib/zstd.")

DECODER_FILES = ["src/compression/snappy.c", "src/compression/lz4.c", "src/encoding/rle.c",
                 "src/encoding/delta.c", "src/encoding/delta_length.c", "src/encoding/delta_strings.c",
                 "src/encoding/dictionary.c", "src/encoding/plain.c", "src/core/buffer.c",
                 "src/thrift/thrift_decode.c", "src/core/bitpack.c"]
# wrappers around zlib / zstd: no hand-written cursor code, but library state to release on every exit
CODEC_WRAPPERS = ["src/compression/gzip.c", "src/compression/zstd.c"]
NOT_DECODER = ("compress", "encode", "encoder", "flush_rle", "flush_bitpack", "write_varint", "complete_group",
               "emit", "lz4_count", "lz4_hash", "snappy_hash", "bitpack8", "bitpack_", "builder", "dict_hash",
               "max_encoded_size", "work_buffer_size", "common_prefix", "buffer_append", "buffer_reserve",
               "buffer_init", "buffer_advance", "carquet_buffer_", "pack_bools")
# callee -> (pointer argument index, extent as (kind, index)): bytes the callee reads at that pointer
EXTENT_FNS = {"carquet_bitunpack8_32": (0, ("arg", 1)), "carquet_bitunpack_32": (0, ("packed", 1, 2))}
BP = "src/core/bitpack.c"


def _ext(P, call, fn):
    g = cursor.resolve(P, call.callee, fn)
    return cursor.param_extents(P, g) if g is not None and g is not fn else {}


def _bit_helper(P, call, fn, ai):
    g = cursor.resolve(P, call.callee, fn)
    if g is None or g is fn or not g.static:
        return None
    ext = bitfield.helper_extent(P, g)
    return ext if ext is not None and ext[0] == ai else None


def is_decoder(fn):
    n = fn.name
    if "decompress" in n or "decode" in n or "decoder" in n or "read" in n or "skip" in n:
        return True
    return not any(s in n for s in NOT_DECODER)


def run(ctx):
    P = ctx.P
    ctx.clause("C08.11 what a decoding loop reads through a pointer cursor it steps over before its next iteration")
    from ..rules import loopcursor
    nlc = loopcursor.check(ctx, [f for f in P.lib_functions() if P.rel(f.file).startswith(("src/encoding/", "src/compression/", "src/thrift/", "src/core/", "src/reader/"))])
    ctx.floor("C08 reads through a loop's pointer cursor", nlc, 20)
    ctx.clause("C08.10 an indexed read from a table whose size was validated as count * K stays inside it: read width <= stride <= K (the dictionary decoders)")
    from ..rules import scaledext
    nse = scaledext.check(ctx, [f for f in P.lib_functions() if P.rel(f.file).startswith("src/")])
    ctx.floor("C08 indexed table reads under a count * width guard", nse, 4)
    ctx.clause("C08.1 cursor bounds proven on every path in the hand-written decoders (zone-style dataflow)")
    ctx.clause("C08.2 count-driven decoders stay inside checked extents (skeleton execution)")
    ctx.clause("C08.3 indices into fixed-size decoder state are bounded; guard constants fit array lengths")
    ctx.clause("C08.4 sign-safe index guards")
    ctx.clause("C08.5 recursion bounded")
    ctx.clause("C08.6 decoder temporaries released on every exit")
    ctx.clause("C08.7 a refill step of the streaming RLE decoder that gives up records an error or has nothing owed (its driving loops terminate)")
    ctx.clause("C08.9 a signed length decoded from the input is sign-checked before it offsets a pointer or sizes a copy")
    from ..rules import signedoff
    nso = signedoff.check(ctx, P.funcs_in(*(DECODER_FILES + ["src/encoding/byte_stream_split.c"])))
    ctx.count("decoded_signed_lengths_used_as_offsets", nso)
    ctx.clause("C08.13 the built-in Snappy and LZ4 decompressors, executed on valid and invalid streams built from the format documents, touch no byte outside the stream and the destination and refuse the invalid ones (rule shared with C10)")
    from ..rules import blockfmt
    nbf = blockfmt.check(ctx)
    ctx.floor("C08 format-built streams through the block decompressors", nbf, 80)
    ctx.clause("C08.12 a 64-bit length decoded from the input does not reach `position + length` (directly or inside an availability helper) untested: the sum would wrap")
    from ..rules import wrapsum
    nws = wrapsum.check(ctx, sorted(set(P.rel(f.file) for f in P.lib_functions() if P.rel(f.file).startswith("src/"))))
    ctx.count("wrap_sum_sites_judged", nws)      # (vacuity is covered by the wrapsum control twins: a wrap-free rewrite of the helpers has no instance)
    ctx.clause("C08.8 no bounds guard is computed in 32 bits from an unbounded input value and then compared with a 64-bit size")
    from ..rules import widen
    nwid = widen.check(ctx, DECODER_FILES + CODEC_WRAPPERS + ["src/encoding/byte_stream_split.c", "src/thrift/parquet_types.c"])
    from ..rules import progress
    nfalse, nref = progress.check(ctx, "src/encoding/rle.c", "carquet_rle_decoder")
    ctx.floor("C08 refill functions of the RLE decoder", nref, 2)
    ctx.floor("C08 false returns of refill functions", nfalse, 4)
    fns = [f for f in P.funcs_in(*DECODER_FILES) if is_decoder(f)]
    nreads = 0
    npairs = 0
    all_reads = {}
    for fn in sorted(fns, key=lambda f: (f.file, f.line)):
        reads, pairs = cursor.analyse(P, fn)
        all_reads[fn.name] = reads
        npairs += len(pairs)
        seen = {}
        for e, p, kc, kt, proven, facts in reads:
            nreads += 1
            k = "cursor|%s:%s|%s|%s" % (P.rel(fn.file), fn.name, p.cursor.split("#")[0] + "/" + p.limit.split("#")[0], src(e)[:40])
            n_ = seen.get(k, 0)
            seen[k] = n_ + 1
            key = k + ("#%d" % n_ if n_ else "")
            need = "%d" % kc if kt is None else ("%s%s" % (("%d + " % kc) if kc else "", _show_term(kt)))
            what = "access `%s` through cursor %s needs %s byte(s) below %s" % (
                src(e)[:50], p.cursor.split("#")[0], need, p.limit.split("#")[0])
            if proven:
                ctx.ok("R4.cursor", key, P.where(e), what, "covered by the facts %s" % _show_facts(facts))
            else:
                best = facts.get(None, 0)
                symbolic = [k_ for k_ in facts if k_ is not None]
                if kt is None and symbolic and best < kc:
                    # a bound in terms of a run-time quantity IS established on this path (`ip + extra > iend -> error`); whether
                    # it covers the constant needed here depends on the value that quantity has on this path (a switch case, a
                    # conditional width) - which this dataflow does not track: not a proof, and not a witness either
                    ctx.inconclusive("R4.cursor", key, P.where(e), what,
                                     "a symbolic bound is established here (facts %s) but the rule cannot relate it to the %d byte(s) needed" % (_show_facts(facts), kc))
                elif kt is None or not facts:
                    ctx.bad("R4.cursor", key, P.where(e), what,
                            "only %d byte(s) are proven available here (facts %s)" % (best, _show_facts(facts)))
                else:
                    ctx.bad("R4.cursor", key, P.where(e), what,
                            "no fact matches the needed length (facts %s)" % _show_facts(facts))
    ctx.count("cursor_pairs", npairs)
    ctx.floor("C08 cursor accesses checked", nreads, 70)
    ctx.floor("C08 decoder functions", len(fns), 60)

    # ---- handoffs
    nh = 0
    for fn in fns:
        if P.rel(fn.file) == BP:
            continue   # count-driven: decided by the skeleton contracts of clause 2
        pairs = cursor.find_pairs(fn)
        idxp = [p for p in pairs if p.style == "idx"]
        for c in fn.calls():
            if not c.callee or c.callee in ("memcpy", "memmove", "memset", "memcmp") or c.callee in cursor.WIDTH_FNS \
                    or c.callee.startswith("_mm"):
                continue
            args = c.args()
            for ai, a in enumerate(args):
                x = a.strip_casts()
                if x.k != "BinaryOperator" or x.op != "+" or "*" not in (x.c[0].strip().t or ""):
                    continue
                cur = cursor.lvalue_text(x.c[1])
                pp = [p for p in idxp if p.cursor == cur]
                if not pp:
                    continue
                p = pp[0]
                nh += 1
                key = "handoff|%s:%s|%s#%d" % (P.rel(fn.file), fn.name, c.callee, ai)
                nxt = args[ai + 1].strip_casts() if ai + 1 < len(args) else None
                exact = nxt is not None and nxt.k == "BinaryOperator" and nxt.op == "-" and \
                    cursor.lvalue_text(nxt.c[0]) == p.limit and cursor.lvalue_text(nxt.c[1]) == p.cursor
                if exact:
                    ctx.ok("R4.handoff", key, P.where(c), "%s receives (buf + %s, %s - %s): exactly the remaining bytes"
                           % (c.callee, p.cursor.split("#")[0], p.limit.split("#")[0], p.cursor.split("#")[0]))
                elif c.callee in EXTENT_FNS and EXTENT_FNS[c.callee][0] == ai:
                    # the guard before the call must cover the callee's extent: decided by the skeleton
                    # contract of the callee (clause 2) plus a dominating `pos + extent > size` guard
                    ok = _guarded_extent(fn, c, p)
                    ctx.ob("R4.handoff", key, P.where(c),
                           "%s reads its declared extent at buf + %s; a dominating guard compares %s + that extent with %s"
                           % (c.callee, p.cursor.split("#")[0], p.cursor.split("#")[0], p.limit.split("#")[0]), ok)
                elif ai in _ext(P, c, fn) and _ext(P, c, fn)[ai] < len(args):
                    # the helper touches at most args[li] elements (proven in the helper); that count is
                    # an access of this function, decided with the other cursor accesses above
                    li = _ext(P, c, fn)[ai]
                    hit = [r for r in all_reads.get(fn.name, ()) if r[0].i == c.i]
                    ctx.ob("R4.handoff", key, P.where(c),
                           "%s touches at most `%s` elements behind buf + %s (every access of the helper is proven "
                           "below that parameter); the count is covered by the bytes available here"
                           % (c.callee, src(args[li]), p.cursor.split("#")[0]), bool(hit) and all(r[4] for r in hit),
                           "" if hit else "the call is not a recognised access of this function")
                elif _bit_helper(P, c, fn, ai) is not None:
                    # a bit-addressed helper (extent proven by executing it for every alignment and width): the call site
                    # must sit in a counted loop under a guard that promises ceil(N * W / 8) bytes
                    ext = _bit_helper(P, c, fn, ai)
                    ok, why = bitfield.call_site(P, fn, c, ext, p.cursor, p.limit, cursor.lvalue_text)
                    what = ("%s touches only bytes (off >> 3) .. ((off + width - 1) >> 3) behind buf + %s (executed for every alignment and width 1..64, %d runs); "
                            "called with off = index * width for index < N under a guard that promises (N * width + 7) / 8 bytes" % (c.callee, p.cursor.split("#")[0], ext[3]))
                    if ok is None:
                        ctx.inconclusive("R4.handoff", key, P.where(c), what, why)
                    else:
                        ctx.ob("R4.handoff", key, P.where(c), what, ok, "" if ok else why)
                else:
                    ctx.bad("R4.handoff", key, P.where(c),
                            "%s receives a pointer into the input without its remaining length and has no declared extent" % c.callee)
    ctx.floor("C08 sub-buffer handoffs", nh, 5)

    # ---- (2) skeleton extents of the bit unpackers
    f8 = P.fn("carquet_bitunpack8_32", BP)
    bad = None
    for w in range(0, 33):
        it = Interp(P, f8, budget=300000, max_forks=64)
        try:
            outs = it.run([Ptr("in", 0, 1), w, Ptr("out", 0, 4)])
        except (Budget, Stop) as ex:
            ctx.inconclusive("R4.skeleton", "unpack8-extent|%s" % BP, P.where(f8.body), str(ex))
            outs = []
        for acc, ret in outs:
            for a in acc:
                if a.base == "in" and (a.lo < 0 or a.hi > w) and bad is None:
                    bad = "width %d reads input [%d,%d)" % (w, a.lo, a.hi)
                if a.base == "out" and (a.lo < 0 or a.hi > 32) and bad is None:
                    bad = "width %d writes output [%d,%d)" % (w, a.lo, a.hi)
        if it.unknown_mem and bad is None:
            bad = "width %d: access at a content-dependent offset" % w
    ctx.ob("R4.skeleton", "unpack8-extent|%s:carquet_bitunpack8_32" % BP, P.where(f8.body),
           "carquet_bitunpack8_32 reads exactly bit_width bytes and writes 8 values for every width 0..32", bad is None, bad or "")
    fN = P.fn("carquet_bitunpack_32", BP)
    bad = None
    runs = 0
    for w in (1, 3, 7, 8, 13, 17, 31, 32):
        for n in range(0, ctx.depth(40, 130) + 1):
            need = (n * w + 7) // 8
            it = Interp(P, fN, budget=600000, max_forks=64, inline_depth=4)
            try:
                outs = it.run([Ptr("in", 0, 1), n, w, Ptr("out", 0, 4)])
            except (Budget, Stop) as ex:
                ctx.inconclusive("R4.skeleton", "unpackN-extent|%s" % BP, P.where(fN.body), str(ex))
                outs = []
            for acc, ret in outs:
                runs += 1
                for a in acc:
                    if a.base == "in" and (a.lo < 0 or a.hi > need) and bad is None:
                        bad = "count %d width %d reads input [%d,%d) but only %d bytes are guaranteed" % (n, w, a.lo, a.hi, need)
                    if a.base == "out" and (a.lo < 0 or a.hi > 4 * n) and bad is None:
                        bad = "count %d width %d writes output [%d,%d)" % (n, w, a.lo, a.hi)
                if ret != need and bad is None and isinstance(ret, int):
                    bad = "count %d width %d reports %s consumed bytes, %d expected" % (n, w, ret, need)
    ctx.count("unpack_skeleton_runs", runs)
    ctx.ob("R4.skeleton", "unpackN-extent|%s:carquet_bitunpack_32" % BP, P.where(fN.body),
           "carquet_bitunpack_32 reads only ceil(count*width/8) input bytes and writes count values "
           "(counts 0..%d, widths 1..32)" % ctx.depth(40, 130), bad is None, bad or "")
    C11._plain(ctx)
    C11._bss(ctx)

    # ---- (3) arrays
    inv_delta = arrays.file_invariants(P, "src/encoding/delta.c")
    fc = {}
    fc.update(arrays.field_upper_bounds(P, ["src/thrift/thrift_decode.c"], "thrift_decoder"))
    fc.update(arrays.field_upper_bounds(P, ["src/encoding/rle.c"], "carquet_rle_decoder"))
    fc.update(arrays.field_upper_bounds(P, ["src/encoding/delta.c"], "delta_decoder_t", inv_delta))
    afns = [f for f in P.funcs_in("src/encoding/delta.c", "src/encoding/rle.c", "src/thrift/thrift_decode.c")
            if is_decoder(f)]
    na = arrays.check(ctx, afns, field_consts=fc, skip_records=("carquet_rle_encoder", "delta_encoder_t", "thrift_encoder"))
    ctx.floor("C08 variable indices into fixed-size decoder state", na, 10)

    # ---- (4) sign-safe guards
    ns = 0
    for fn in P.funcs_in("src/encoding/dictionary.c", "src/reader/page_reader.c", "src/encoding/delta_length.c",
                         "src/encoding/delta_strings.c"):
        for n in fn.body.walk():
            if n.k != "IfStmt":
                continue
            kids = [x for x in n.c if x is not None]
            if not any(r.k in ("ReturnStmt", "BreakStmt") or (is_assign(r) and "status" in src(r.c[0])) for r in kids[1].walk()):
                continue
            for c in kids[0].walk():
                if c.k == "BinaryOperator" and c.op in (">=", ">") and "ind" in src(c.c[0]) or \
                        (c.k == "BinaryOperator" and c.op in (">=", ">") and "idx" in src(c.c[0])):
                    ns += 1
                    l = c.c[0].strip()
                    narrowed = l.k == "CStyleCastExpr" and l.t in ("int32_t", "int", "int16_t", "int64_t") and \
                        (l.c[0].strip().t or "").startswith("u")
                    var = src(l.strip_casts())
                    # a signed comparison needs a companion `< 0` test on the same value in the same condition
                    lower = any(x.k == "BinaryOperator" and x.op == "<" and x.c[1].cv == 0 and
                                src(x.c[0].strip_casts()) == var for x in kids[0].walk())
                    # the comparison is unsigned when its (converted) left operand or the index itself is of an unsigned type
                    from ..rules.skeleton import UNSIGNED, clean_type
                    tys = [clean_type(c.c[0].t), clean_type(l.strip_casts().t)]
                    signed_var = not any(t_ in UNSIGNED or t_.startswith("u") or "size_t" in t_ for t_ in tys)
                    ok = not narrowed and (not signed_var or lower)
                    ctx.ob("R4.sign", "index-guard|%s:%s|%s" % (P.rel(fn.file), fn.name, var), P.where(c),
                           "index guard `%s` also excludes negative values (unsigned comparison or an explicit < 0 test)"
                           % src(c)[:60], ok or (narrowed and lower),
                           "upper bound decided on a %s view of an unsigned index" % l.t if narrowed else "")
    ctx.floor("C08 index guards", ns, 5)

    # ---- (5) recursion, (6) ownership
    nrec = recursion.check(ctx, "R8", "recursion")
    ctx.count("recursion_cycles", nrec)
    nown = ownership.check(ctx, [f for f in P.funcs_in(*(DECODER_FILES + CODEC_WRAPPERS))], "R2", "own")
    ctx.count("acquisition_sites", nown)


def _show_term(t):
    if isinstance(t, tuple) and t and t[0] == "loop":
        return "loop total " + show(t[1])
    if isinstance(t, tuple) and t and t[0] == "idx":
        return "index " + str(t[1]).split("#")[0]
    return show(t)


def _show_facts(f):
    return "{%s}" % ", ".join("avail >= %d%s" % (k, "" if t is None else " + " + show(t)) for t, k in f.items())


def _guarded_extent(fn, call, p):
    """A dominating `cursor + E > limit -> exit` guard exists before the call."""
    w = fn.cfg.where()
    for n in fn.body.walk():
        if n.k != "IfStmt":
            continue
        kids = [x for x in n.c if x is not None]
        c = kids[0].strip()
        if c.k == "BinaryOperator" and c.op == ">" and cursor.lvalue_text(c.c[1]) == p.limit:
            l = c.c[0].strip_casts()
            if l.k == "BinaryOperator" and l.op == "+" and cursor.lvalue_text(l.c[0]) == p.cursor:
                first = min((x for x in n.walk() if x.i in w), key=lambda x: x.i, default=None)
                exits = any(r.k in ("ReturnStmt", "BreakStmt") for r in kids[1].walk())
                if first is not None and exits and fn.cfg.node_dominates(first, call):
                    return True
    return False
