"""C10 - the built-in Snappy and LZ4 codecs speak the standard block formats (element-level clauses)."""
from ..extract import AnalysisBroken

EXPLANATION = (
    "Static decision of element-level clauses of C10 on src/compression/snappy.c and src/compression/lz4.c. "
    "(1) Decoders: carquet_snappy_decompress and carquet_lz4_decompress are executed abstractly on streams built from the "
    "format documents - every element kind (Snappy literal with 0..4 length bytes, copy-1, copy-2, copy-4; LZ4 sequences with "
    "and without length-extension bytes, with and without literals, literal-only final sequence), lengths and offsets on either "
    "side of every field boundary, overlapping copies, distances up to 65535 (thorough tier) - whose structure bytes are concrete "
    "and whose payload bytes are opaque; the output, byte by byte as 'which input byte ended up here', must equal what a decoder "
    "written from the format document (in the rule, over the same opaque bytes) returns, into a destination of exactly that "
    "size; streams of the grid the formats define as invalid (zero offset, offset before the start of the output, an element "
    "running past the input, announced length too small or too large) must be rejected (R41). "
    "(2) Encoders, element by element: the bytes snappy_emit_literal / snappy_emit_copy store decode, by the format's element "
    "definitions, to exactly the literal run / the copies they were asked for (offsets and lengths around every field boundary; "
    "rule shared with C09); the match-distance guard of both compressors admits only offsets that fit the two offset bytes they emit; every tag byte the Snappy and LZ4 compressors build by OR-ing shifted fields holds each field inside "
    "its slot for every value the guards on the path admit (R25). (3) Length fields: the Snappy preamble is LEB128 on both sides "
    "for every value on either side of a 7-bit boundary (R38); the LZ4 length-extension bytes are emitted exactly while 255 or "
    "more remain and read on exactly after a 255, loops and closed forms alike (R35). "
    "The grid of invalid forms includes length fields whose top bit is set (a literal announcing 2^31 + 1, 2^32 or 2^23 + 1 bytes), 16-bit copy offsets "
    "with the top bit set on the valid side, and malformed length preambles (cut off after one or three continuation bytes, six bytes long, five continuation bytes "
    "and nothing else) - also put to carquet_snappy_get_uncompressed_length, which must return the value of every well-formed preamble on either side of each 7-bit "
    "boundary. Pointer arithmetic is modelled modulo 2^64 and the execution stops at the first access outside the stream or the destination, so a length that went "
    "negative and a guard that wrapped are seen as what they are. "
    "(state) the block codecs keep no mutable file-scope or static state: what a compress call emits does not depend on earlier calls - every mutable file-scope variable and static local under src/compression/ is thread-local, never written, or an accepted idempotent lazy table (rule shared with C07). (R47) thread-local or static arrays in src/compression are scratch tables: in every externally visible function that consults one (directly or through helpers of the file), no path from the entry reaches a use without a `memset` of the table or a call to a helper that resets it on all of its paths - a reset skipped on some path lets entries of an earlier call decide what this call emits (lazily built constant tables accepted by the lazy-initialisation rule are not scratch state; today's tree keeps its tables on the stack, so the rule's only instances are its control twins). Decides these clauses - what each element means to the decoder and how each element is spelled by the encoder - on a bounded "
    "grid of element forms; it does not decide the encoders' output for arbitrary data (which matches they find, the end-of-block "
    "literal rules as a consequence of the match finder), nor acceptance of every valid stream outside the grid.")

SN = "src/compression/snappy.c"
LZ = "src/compression/lz4.c"


def run(ctx):
    P = ctx.P
    ctx.clause("C10.8 a match table or scratch table kept per thread (or static) in src/compression is reset in every call before it is consulted: what a compress call emits does not depend on the calls before it (R47)")
    from ..rules import callstate
    ctx.count("per_call_tables", callstate.check(ctx, sorted(set(ctx.P.rel(f.file) for f in ctx.P.lib_functions() if ctx.P.rel(f.file).startswith("src/compression/")))))
    ctx.clause("C10.7 the block codecs keep no mutable file-scope or static state: what a compress call emits does not depend on earlier calls (rule shared with C07)")
    from . import C07 as _c07
    ctx.count("file_scope_variables_examined", _c07.global_state(ctx, scope="src/compression/", rule="R7.codec-state"))
    for f in (SN, LZ):
        if not P.funcs_in(f):
            raise AnalysisBroken("%s has no functions" % f)
    from ..rules import blockfmt, varint, lenext, fieldfit
    ctx.clause("C10.1 the decoders give every element form of the Snappy and LZ4 block formats the meaning the format documents give it, and reject the invalid forms (streams built from the formats, structure concrete, payload opaque)")
    n = blockfmt.check(ctx, deep=ctx.depth(0, 1) == 1)
    ctx.floor("C10 format streams executed through the decoders", n, 60)
    ctx.clause("C10.2 the encoders spell each element as the formats define it: Snappy literal and copy elements decode to what was asked, tag fields fit their slots")
    from . import C09
    C09._snappy_elements(ctx)
    C09.offset_width_rule(ctx)      # the match-distance guards admit only offsets the two emitted offset bytes can hold
    nff, nffd = fieldfit.check(ctx, P.funcs_in(SN, LZ))
    ctx.floor("C10 packed tag bytes decided", nffd, 5)
    ctx.clause("C10.3 length fields: Snappy preamble LEB128 on both sides; LZ4 length-extension bytes emitted while >= 255 remain and read on after a 255")
    nvw, nvr = varint.check(ctx, files=(SN,))
    ctx.floor("C10 Snappy varint writer and reader", nvw + nvr, 2)
    nle, nld = lenext.check(ctx, [LZ])
    ctx.floor("C10 LZ4 length-extension emitters", nle, 1)
    ctx.floor("C10 LZ4 length-extension readers", nld, 1)
