"""C04 - no input file makes the reader unsafe, hang or leak (structural clauses)."""
from .. import callgraph
from ..canon import Canon, show, subtrees
from ..extract import AnalysisBroken
from ..facts import src
from ..rules import ownership, recursion
from ..rules.flow import find_path_avoiding, describe_path
from ..rules.results import lvalue_text
from ..util import is_assign

EXPLANATION = (
    "Static decision of structural clauses of C04 over src/reader, the schema builder and the metadata "
    "parsers: (1) load_dictionary_page_mmap and load_next_page_mmap are executed abstractly over a grid "
    "of header lies (page offsets before, inside, at and beyond the end of the file, negative / zero / "
    "plausible / huge sizes and counts, both codecs) with the real availability and extent predicates "
    "interpreted: every byte range handed to the header parser, the CRC, a codec, a decoder, memset or "
    "the zero-copy view lies inside the mapping or inside the block allocated for it; page_extent_ok and "
    "mmap_available, where they exist as functions, are exactly the extent predicates over a grid of "
    "sizes; the fixed-width dictionary copy of carquet_read_dictionary_page stays inside the page and its "
    "allocation for every type x count x page size; list counts parsed from Thrift are validated (0 <= "
    "count <= limit, by an if or by a predicate helper evaluated at the boundaries) before they size an "
    "allocation or bound a loop; loops bounded by the untrusted num_children also stop at the element "
    "count; (2) every recursion cycle reachable from open/decode has a depth guard (counting up to a "
    "bound or a budget counting down) or progress guard; a refill step of the streaming RLE decoder that "
    "gives up either records an error or has nothing owed by the current run, so the loops driving it "
    "terminate; (3) every reader function releases or hands over what it acquired on every path "
    "(ownership engine, including blocks handed back through out-parameters of allocating helpers); (4) "
    "every row-group/column/page/element index parameter is range-checked before its first use as a "
    "subscript - by guards, by the conditions the use is nested in, by a range predicate helper, by the "
    "callee it is first handed to, or (static helpers) at every call site; (5) in functions taking a "
    "carquet_error_t*, every feasible error exit passes CARQUET_SET_ERROR or a callee that received the "
    "error object, and carquet_error_set bounds its message; (6) every store of NULL into a "
    "capacity-tracked buffer member is followed by a store to the capacity member before the capacity is "
    "read again; (7) count_leaves and the schema walk decide 'leaf' by the same predicate; (9) no bounds guard "
    "of the reader adds or multiplies an unbounded 32-bit value taken from the input before widening it to "
    "the 64-bit size it is compared with (directly or through a local); (10) a member of the reader object "
    "that is freed outside the destructor is assigned again before the function returns, so the destructor "
    "cannot free it a second time. (14) an index that was range-checked was checked against the entry count of the very array it then subscripts (R13 index-count: schema leaf arrays by num_leaves, a row group's chunks by its num_columns, ...; the check may sit in a callee the index was handed to) - a row group may claim more chunks than the schema has leaves. (15) R44 as in C08.12: no 64-bit length decoded from the file reaches a `position + length` test unbounded. (16) R45 as in C03.4: no pointer into the footer bytes is stored in parsed metadata (a use after free under the stdio reader). (R46) a buffer grown because a count from the file does not fit is grown to at least that count: the capacity stored in a `request > capacity` branch is the request, an expression every arm of which contains it, or a value the branch compares with it (clamp or doubling loop) - geometric growth alone serves the first request and under-allocates a later one above twice the capacity. Decides these "
    "clauses, not arithmetic adequacy of every guard outside the grids, total running time, nor leaks "
    "inside zlib/zstd.")

PR = "src/reader/page_reader.c"
FRD = "src/reader/file_reader.c"
PT = "src/thrift/parquet_types.c"
UNTRUSTED_OFFSETS = {"dictionary_page_offset", "data_page_offset", "data_start_offset", "current_page",
                     "index_page_offset"}


def _predicate_checked(P, fn, d, subs):
    """`if (!in_range(..., idx, ...)) return ...;` dominating the subscripts, where in_range() returns the conjunction
    `idx >= 0 && idx < bound` of its parameter (any spelling): the name of the predicate, else None."""
    if fn.cfg is None:
        return None
    w = fn.cfg.where()
    for n in fn.body.walk():
        if n.k != "IfStmt":
            continue
        kids = [x for x in n.c if x is not None]
        if not any(r.k in ("ReturnStmt", "GotoStmt") for r in kids[1].walk()):
            continue
        leaves = []

        def split(c):
            c = c.strip()
            if c.k == "BinaryOperator" and c.op == "||":
                split(c.c[0])
                split(c.c[1])
            else:
                leaves.append(c)
        split(kids[0])
        for lf in leaves:
            if not (lf.k == "UnaryOperator" and lf.op == "!"):
                continue
            call = lf.c[0].strip_casts()
            if call.k != "CallExpr" or not call.callee:
                continue
            pos = [i for i, a in enumerate(call.args()) if a.strip_casts().k == "DeclRefExpr" and a.strip_casts().get("d") == d]
            if not pos:
                continue
            for g in P.by_name.get(call.callee, []):
                if g.body is None or pos[0] >= len(g.params):
                    continue
                rets = g.returns()
                if len(rets) != 1 or not rets[0].c or rets[0].c[0] is None:
                    continue
                gd = g.params[pos[0]]["d"]
                conj = []

                def split_and(c):
                    c = c.strip()
                    if c.k == "BinaryOperator" and c.op == "&&":
                        split_and(c.c[0])
                        split_and(c.c[1])
                    else:
                        conj.append(c)
                split_and(rets[0].c[0])
                lo = hi = False
                for c in conj:
                    if c.k != "BinaryOperator" or c.op not in ("<", "<=", ">", ">="):
                        continue
                    l, r = c.c[0].strip_casts(), c.c[1].strip_casts()
                    op = c.op
                    if r.k == "DeclRefExpr" and r.get("d") == gd:
                        l, r = r, l
                        op = {"<": ">", "<=": ">=", ">": "<", ">=": "<="}[op]
                    if not (l.k == "DeclRefExpr" and l.get("d") == gd):
                        continue
                    if (op == ">=" and r.cv == 0) or (op == ">" and r.cv == -1):
                        lo = True
                    elif op == "<" and r.cv is None:
                        hi = True
                if lo and hi:
                    first = min((x for x in n.walk() if x.i in w), key=lambda x: x.i, default=None)
                    if first is not None and all(fn.cfg.node_dominates(first, s_) for s_ in subs):
                        return call.callee
    return None


def _range_guards(fn, d):
    """(lower-bound guards, upper-bound guards): if-statements with an exit whose condition - a single
    comparison or an `||` chain of them - rejects `param < 0` resp. `param >= bound`, in any spelling
    and whether written as one test or as consecutive tests."""
    lo, hi = [], []
    for n in fn.body.walk():
        if n.k != "IfStmt":
            continue
        kids = [x for x in n.c if x is not None]
        if not any(r.k in ("ReturnStmt", "GotoStmt") for r in kids[1].walk()):
            continue
        leaves = []

        def split(c):
            c = c.strip()
            if c.k == "BinaryOperator" and c.op == "||":
                split(c.c[0])
                split(c.c[1])
            else:
                leaves.append(c)
        split(kids[0])
        for lf in leaves:
            if lf.k != "BinaryOperator" or lf.op not in ("<", "<=", ">", ">="):
                continue
            l, r = lf.c[0].strip_casts(), lf.c[1].strip_casts()
            op = lf.op
            if r.k == "DeclRefExpr" and r.get("d") == d and r.get("dk") == "param":
                l, r = r, l
                op = {"<": ">", "<=": ">=", ">": "<", ">=": "<="}[op]
            if not (l.k == "DeclRefExpr" and l.get("d") == d and l.get("dk") == "param"):
                continue
            rv = lf.c[1].cv if r is lf.c[1].strip_casts() else lf.c[0].cv
            if op == "<" and rv == 0 or op == "<=" and rv == -1:
                lo.append(n)
            elif op in (">=", ">") and rv is None:
                hi.append(n)
                # `(unsigned)idx >= (unsigned)n`: a negative index converts to a value above every count, so the
                # one comparison rejects both ends
                pside = lf.c[0].strip() if l is lf.c[0].strip_casts() else lf.c[1].strip()
                if pside.k == "CStyleCastExpr" and (pside.t or "").replace("const ", "").strip() in (
                        "uint32_t", "unsigned int", "size_t", "uint64_t", "unsigned long", "uint16_t", "unsigned"):
                    lo.append(n)
    return lo, hi


def _nest_guards(d, node):
    """(lower, upper): is `node` nested in the true branch of conditions (if / ?: / && chains)
    that establish `param >= 0` resp. `param < bound`?"""
    lo = hi = False
    child = node
    for a in node.ancestors():
        cond = None
        if a.k in ("IfStmt", "ConditionalOperator"):
            kids = [x for x in a.c if x is not None]
            if len(kids) >= 2 and (kids[1] is child):
                cond = kids[0]
        elif a.k == "BinaryOperator" and a.op == "&&" and a.c[1] is child:
            cond = a.c[0]
        if cond is not None:
            leaves = []

            def split(c):
                c = c.strip()
                if c.k == "BinaryOperator" and c.op == "&&":
                    split(c.c[0])
                    split(c.c[1])
                else:
                    leaves.append(c)
            split(cond)
            for lf in leaves:
                if lf.k != "BinaryOperator" or lf.op not in ("<", "<=", ">", ">="):
                    continue
                l, r = lf.c[0].strip_casts(), lf.c[1].strip_casts()
                op = lf.op
                if r.k == "DeclRefExpr" and r.get("d") == d and r.get("dk") == "param":
                    l, r = r, l
                    op = {"<": ">", "<=": ">=", ">": "<", ">=": "<="}[op]
                if not (l.k == "DeclRefExpr" and l.get("d") == d and l.get("dk") == "param"):
                    continue
                rv = lf.c[1].cv if r is lf.c[1].strip_casts() else lf.c[0].cv
                if (op == ">=" and rv == 0) or (op == ">" and rv == -1):
                    lo = True
                elif op == "<" and rv is None:
                    hi = True
        child = a
    return lo, hi


def _range_predicates(P, fn, d):
    """if-statements `if (!in_range(obj, param)) <exit>` where in_range is a bool helper of the program that
    answers true only under `param >= 0 && param < bound` (every `return` of it is false, or an && chain
    holding both comparisons on the corresponding parameter)."""
    out = []
    if P is None:
        return out
    for n in fn.body.walk():
        if n.k != "IfStmt":
            continue
        kids = [x for x in n.c if x is not None]
        if not any(r.k in ("ReturnStmt", "GotoStmt") for r in kids[1].walk()):
            continue
        c = kids[0].strip_casts()
        neg = False
        while c is not None and c.k == "UnaryOperator" and c.op == "!":
            neg = not neg
            c = c.c[0].strip_casts()
        if c is None or c.k != "CallExpr" or not c.callee or not neg:
            continue
        pos = [i for i, a in enumerate(c.args()) if a.strip_casts().k == "DeclRefExpr" and a.strip_casts().get("d") == d
               and a.strip_casts().get("dk") == "param"]
        if not pos:
            continue
        for g in P.by_name.get(c.callee, []):
            if pos[0] >= len(g.params) or (g.ret or "").strip() not in ("_Bool", "bool"):
                continue
            gd = g.params[pos[0]]["d"]
            good = True
            for r in g.returns():
                e = r.c[0] if r.c else None
                if e is None:
                    good = False
                elif e.cv == 0:
                    continue
                else:
                    lo_, hi_ = _nest_guards(gd, r)
                    leaves = []

                    def split(x):
                        x = x.strip()
                        if x.k == "BinaryOperator" and x.op == "&&":
                            split(x.c[0])
                            split(x.c[1])
                        else:
                            leaves.append(x)
                    split(e)
                    for lf in leaves:
                        if lf.k != "BinaryOperator" or lf.op not in ("<", "<=", ">", ">="):
                            continue
                        l, r_ = lf.c[0].strip_casts(), lf.c[1].strip_casts()
                        op = lf.op
                        if r_.k == "DeclRefExpr" and r_.get("d") == gd and r_.get("dk") == "param":
                            l, r_ = r_, l
                            op = {"<": ">", "<=": ">=", ">": "<", ">=": "<="}[op]
                        if not (l.k == "DeclRefExpr" and l.get("d") == gd and l.get("dk") == "param"):
                            continue
                        rv = lf.c[1].cv if r_ is lf.c[1].strip_casts() else lf.c[0].cv
                        if (op == ">=" and rv == 0) or (op == ">" and rv == -1):
                            lo_ = True
                        elif op == "<" and rv is None:
                            hi_ = True
                    good = good and lo_ and hi_
            if good and g.returns():
                out.append(n)
    return out


def _index_checked(fn, d, sites, P=None):
    """Every node of `sites` runs only after `param >= 0` and `param < bound` are established: by
    dominating exit guards, or by the conditions it is nested in."""
    lo, hi = _range_guards(fn, d)
    both = _range_predicates(P, fn, d)
    lo, hi = lo + both, hi + both
    for s_ in sites:
        nlo, nhi = _nest_guards(d, s_)
        if not (nlo or any(fn.cfg.node_dominates(_first_cfg(fn, g), s_) for g in lo)):
            return False
        if not (nhi or any(fn.cfg.node_dominates(_first_cfg(fn, g), s_) for g in hi)):
            return False
    return True


def _first_cfg(fn, stmt):
    w = fn.cfg.where()
    best = None
    for n in stmt.walk():
        if n.i in w and (best is None or n.i < best.i):
            best = n
    return best


def _names(fn, cond):
    """Struct-member and callee names a condition depends on, with single-definition locals replaced by
    what they were computed from (so renaming a local does not change the answer)."""
    out = set()
    for t in subtrees(Canon(fn)(cond)):
        if isinstance(t, tuple) and t:
            if t[0] == "member":
                out.add(t[2])
            elif t[0] == "func":
                out.add(t[1])
    return out


def _guards(fn, pred):
    """IfStmts with an error exit whose condition satisfies pred(cond)."""
    out = []
    for n in fn.body.walk():
        if n.k == "IfStmt":
            kids = [x for x in n.c if x is not None]
            if pred(kids[0]) and any(r.k == "ReturnStmt" for r in kids[1].walk()):
                out.append(n)
    return out


def _capacity_backed(ctx):
    """The two data-page loaders executed abstractly (copy path) for start capacities 0 / 60 / 100 x pages of
    10 / 100 / 150 values x INT32 / INT64 with and without levels: whatever decoded_capacity says afterwards,
    each decode buffer that the reader holds was allocated with at least capacity * element size bytes (or is
    the buffer it had, with the capacity it had)."""
    from ..rules import loaders as L
    from ..rules import sem
    P = ctx.P
    pt = P.enum("carquet_physical_type")
    for fname in ("load_next_page_fread", "load_next_page_mmap"):
        key = "capacity-backed|%s:%s" % (L.PR, fname)
        what = ("after %s the recorded decoded_capacity is backed by the value, definition-level and repetition-level buffers "
                "(abstract execution: start capacity x page value count x type x levels)" % fname)
        bad = None
        nok = 0
        try:
            for c0 in (0, 60, 100):
                for nv in (10, 100, 150):
                    for tname, vs in (("CARQUET_PHYSICAL_INT32", 4), ("CARQUET_PHYSICAL_INT64", 8)):
                        for levels in (True, False):
                            # uncompressed, non-view scenario: the copy path (map misaligned for the mmap loader)
                            ret, ev, st = L.trace(P, fname, page_type=P.enum("carquet_page_type").get("CARQUET_PAGE_DATA", 0), has_crc=False, verify=False,
                                                  stored_crc=0, computed_crc=0, codec=1, levels=levels, num_values=nv, capacity=c0, ptype=pt[tname], map_align=1,
                                                  usize=nv * vs + (6 + nv // 4 if levels else 0))
                            if ret != 0:
                                continue
                            nok += 1
                            cap = st["decoded_capacity"]
                            sizes = {e[1]: e[2] for e in ev if e[0] == "malloc"}
                            sc = "start capacity %d, page of %d %s values%s" % (c0, nv, tname.replace("CARQUET_PHYSICAL_", ""), ", levels" if levels else "")
                            if not isinstance(cap, int) or cap < nv:
                                bad = bad or "%s: decoded_capacity %s after the load" % (sc, cap)
                                continue
                            for member, esz, old in (("decoded_values", vs, "dv"), ("decoded_def_levels", 2, "ddl"), ("decoded_rep_levels", 2, "drl")):
                                b = st[member]
                                base = b[0] if isinstance(b, tuple) else None
                                if base == old:
                                    have = c0 * esz
                                elif base in sizes and isinstance(sizes[base], int):
                                    have = sizes[base]
                                elif base == "map" or base is None:
                                    continue        # a view / not held: not a buffer of the reader
                                else:
                                    have = None
                                if have is None or have < cap * esz:
                                    bad = bad or "%s: decoded_capacity is %d but %s holds %s bytes (%d needed)" % (sc, cap, member, have, cap * esz)
        except (sem.Inconclusive, KeyError) as ex:
            ctx.inconclusive("R17.capacity", key, L.PR, what, "%s: %s" % (type(ex).__name__, ex))
            continue
        ctx.floor("C04 %s scenarios that load a page" % fname, nok, 24)
        ctx.ob("R17.capacity", key, L.PR, what, bad is None, bad or "")


def run(ctx):
    P = ctx.P
    ctx.clause("C04.17 a buffer grown because a count from the file does not fit is grown to at least that count (R46)")
    from ..rules import growth
    ngr = growth.check(ctx, [f for f in P.lib_functions() if P.rel(f.file).startswith(("src/",))])
    ctx.count("growth_branches", ngr)
    ctx.clause("C04.14 an index that was range-checked was checked against the entry count of the array it then subscripts (a row group may claim more chunks than the schema has leaves)")
    from ..rules import indexspace
    nic = indexspace.check_counts(ctx, P.funcs_under("src/reader/", "src/metadata/schema.c"))
    ctx.floor("C04 range-checked subscripts of counted arrays", nic, 20)
    ctx.clause("C04.15 a 64-bit length decoded from the file does not reach `position + length` (directly or inside an availability helper) untested: the sum would wrap (rule shared with C08.12)")
    from ..rules import wrapsum
    nws = wrapsum.check(ctx, sorted(set(P.rel(f.file) for f in P.lib_functions() if P.rel(f.file).startswith(("src/thrift/", "src/reader/", "src/core/", "src/metadata/")))))
    ctx.count("wrap_sum_sites_judged", nws)      # (vacuity is covered by the wrapsum control twins: a wrap-free rewrite of the helpers has no instance)
    ctx.clause("C04.16 parsed metadata does not point into the footer bytes the stdio reader frees after parsing (rule shared with C03.4)")
    from ..rules import borrowed
    nbr, _bn = borrowed.check(ctx, sorted(set(P.rel(f.file) for f in P.lib_functions() if P.rel(f.file).startswith(("src/thrift/", "src/reader/", "src/metadata/", "src/core/")))))
    ctx.floor("C04 calls of functions that hand out a pointer into the parser's input", nbr, 4)
    ctx.clause("C04.1 untrusted offsets/sizes/counts are validated before they reach a sink")
    ctx.clause("C04.2 recursion bounded")
    ctx.clause("C04.3 reader functions release everything on every path")
    ctx.clause("C04.4 index arguments range-checked before use")
    ctx.clause("C04.5 error reports well-formed")
    ctx.clause("C04.6 buffer pointers and their capacity fields move together")
    from ..rules import capacity
    ncap = capacity.check(ctx, P.funcs_under("src/reader/", "src/core/"),
                          [("decoded_values", "decoded_capacity"), ("data", "capacity"),
                           ("page_buffer", "page_buffer_capacity")])
    ctx.floor("C04 NULL stores into capacity-tracked buffers", ncap, 8)
    ctx.clause("C04.7 the per-leaf arrays are sized and filled under one leaf predicate")
    from . import C17
    C17.leaf_predicate_rule(ctx, "R3.extent")
    # ---- (1a) mmap pointer formation
    nptr = 0
    for fn in P.funcs_under("src/reader/"):
        cz = Canon(fn)
        for n in fn.body.walk():
            if n.k != "BinaryOperator" or n.op != "+":
                continue
            l = n.c[0].strip_casts()
            base = lvalue_text(l) or ""
            is_map = base.endswith("mmap_data") or (l.k == "DeclRefExpr" and any(
                s[0] == "member" and s[2] == "mmap_data" for s in subtrees(cz(l))))
            if not is_map or "*" not in (n.c[0].strip().t or ""):
                continue
            t = cz(n.c[1])
            fields = set(s[2] for s in subtrees(t) if s[0] == "member")
            if not (fields & UNTRUSTED_OFFSETS):
                continue
            nptr += 1
            key = "mmap-offset|%s:%s|%s" % (P.rel(fn.file), fn.name, "+".join(sorted(fields & UNTRUSTED_OFFSETS)))
            # dominating guard: `avail == 0` after avail = mmap_available(reader, offset) / comparison with file_size
            offtxt = src(n.c[1])

            def pred(c, offtxt=offtxt):
                tc = cz(c)
                txt = show(tc)
                return ("mmap_available" in txt or "file_size" in txt)
            gs = [g for g in _guards(fn, pred) if fn.cfg.node_dominates(_first_cfg(fn, g), n)]
            # the guard's availability must be computed for this very offset expression
            okoff = False
            for g in gs:
                tc = cz([x for x in g.c if x is not None][0])
                for s in subtrees(tc):
                    if s[0] == "call" and s[1] == ("func", "mmap_available") and len(s) > 3 and s[3] == t:
                        okoff = True
                if "file_size" in show(tc) and any(f_ in show(tc) for f_ in fields):
                    okoff = True
            ctx.ob("R3.offset", key, P.where(n),
                   "pointer `mmap_data + %s` is formed only after that offset was checked against the mapped size" % offtxt[:50],
                   bool(gs) and okoff, "guards found: %d" % len(gs))
    ctx.count("mapped_pointers_from_untrusted_offsets", nptr)   # the grid of _mapped_bounds covers the same offsets semantically

    # ---- (1b) every byte range the mapped loaders touch lies inside its object
    _mapped_bounds(ctx)
    # the two extent predicates, evaluated exhaustively over a grid of sizes (abstract execution): robust
    # to how the comparisons are spelled
    from ..rules import sem
    pe = P.fn("page_extent_ok", PR) if P.by_name.get("page_extent_ok") else None
    ho = sem.field_offsets(P, "parquet_page_header")
    badp = None
    try:
        if pe is None:
            raise LookupError
        for c in (-5, -1, 0, 1, 10, 100, 0x7FFFFFFF):
            for u in (-1, 0, 50):
                for hs in (0, 5, 20, 40):
                    for av in (0, 5, 20, 25, 30, 120):
                        ret, ev, heap = sem.run(P, pe, [sem.Ptr("ph", 0, 1), hs, av], heap0={
                            ("ph", ho["compressed_page_size"]): c, ("ph", ho["uncompressed_page_size"]): u})
                        want = c >= 0 and u >= 0 and hs <= av and c <= av - hs
                        if bool(ret) != want and badp is None:
                            badp = "compressed %d, uncompressed %d, header %d, available %d: returns %s" % (c, u, hs, av, ret)
        ctx.ob("R3.extent", "page-extent-body|%s:page_extent_ok" % PR, P.where(pe.body),
               "page_extent_ok accepts exactly: sizes >= 0, header_size <= avail, compressed_page_size <= avail - header_size "
               "(504 size combinations)", badp is None, badp or "")
    except LookupError:
        pass            # no separate predicate: the grid of _mapped_bounds exercises whatever replaced it
    except sem.Inconclusive as ex:
        ctx.inconclusive("R3.extent", "page-extent-body|%s:page_extent_ok" % PR, P.where(pe.body), "abstract execution", str(ex))
    ma = P.fn("mmap_available", PR) if P.by_name.get("mmap_available") else None
    ro = sem.field_offsets(P, "carquet_reader")
    badm = None
    try:
        if ma is None:
            raise LookupError
        for fs in (0, 1, 100, 1 << 33):
            for off in (-(1 << 40), -1, 0, 1, 50, 99, 100, 101, 1 << 33, (1 << 33) + 1, 1 << 40):
                ret, ev, heap = sem.run(P, ma, [sem.Ptr("rd", 0, 1), off], heap0={("rd", ro["file_size"]): fs})
                want = 0 if (off < 0 or off >= fs) else fs - off
                if ret != want and badm is None:
                    badm = "file_size %d, offset %d: returns %s, expected %d" % (fs, off, ret, want)
        ctx.ob("R3.extent", "mmap-available-body|%s:mmap_available" % PR, P.where(ma.body),
               "mmap_available returns file_size - offset inside the file and 0 for negative offsets and offsets at or "
               "beyond file_size", badm is None, badm or "")
    except LookupError:
        pass
    except sem.Inconclusive as ex:
        ctx.inconclusive("R3.extent", "mmap-available-body|%s:mmap_available" % PR, P.where(ma.body), "abstract execution", str(ex))
    rd = P.fn("carquet_read_dictionary_page", PR)
    # fixed-width dictionaries, executed abstractly over value counts x page sizes x types: what is
    # copied out of the page fits the page and the block allocated for it
    try:
        ro_ = sem.field_offsets(P, "carquet_column_reader")
        do_ = sem.field_offsets(P, "parquet_dictionary_page_header")
        phys = P.enum("carquet_physical_type")
        badd = None
        nd = 0
        for tname, tl in (("CARQUET_PHYSICAL_INT32", 0), ("CARQUET_PHYSICAL_INT64", 0), ("CARQUET_PHYSICAL_INT96", 0),
                          ("CARQUET_PHYSICAL_FLOAT", 0), ("CARQUET_PHYSICAL_DOUBLE", 0),
                          ("CARQUET_PHYSICAL_FIXED_LEN_BYTE_ARRAY", 5), ("CARQUET_PHYSICAL_FIXED_LEN_BYTE_ARRAY", 0)):
            for nv in (-1, 0, 1, 10, 11, 0x7FFFFFFF):
                for psize in (0, 40, 43, 1 << 20):
                    nd += 1
                    sizes = {"page": psize}
                    heap0 = {("rd", f_["off"] // 8): 0 for f_ in P.record("carquet_column_reader")["fields"]
                             if f_.get("off") is not None and f_["n"] and "[" not in f_["t"]}
                    heap0.update({("rd", ro_["type"]): phys[tname], ("rd", ro_["type_length"]): tl, ("hd", do_["num_values"]): nv})
                    km = [0]

                    def mal(ev, a, it):
                        km[0] += 1
                        ev.append(("malloc", "d%d" % km[0], a[0]))
                        return sem.Ptr("d%d" % km[0], 0, 1)
                    ret, ev, heap = sem.run(P, rd, [sem.Ptr("rd", 0, 1), sem.Ptr("page", 0, 1), psize, sem.Ptr("hd", 0, 1), 0], heap0=heap0,
                                            single=True, max_forks=64, on_start=lambda: km.__setitem__(0, 0), hooks={
                                                "malloc": mal, "free": lambda ev, a, it: None, "carquet_error_set": lambda ev, a, it: None,
                                                "memcpy": lambda ev, a, it: ev.append(("copy", (a[0].base, a[0].off) if isinstance(a[0], sem.Ptr) else a[0],
                                                                                       (a[1].base, a[1].off) if isinstance(a[1], sem.Ptr) else a[1], a[2])) or a[0]})
                    for e in ev:
                        if e[0] == "malloc":
                            sizes[e[1]] = e[2]
                    for e in ev:
                        if e[0] != "copy":
                            continue
                        for what, p_ in (("reads", e[2]), ("writes", e[1])):
                            if isinstance(p_, tuple) and p_[0] in sizes:
                                lim = sizes[p_[0]]
                                if not isinstance(e[3], int) or not isinstance(lim, int) or e[3] < 0 or p_[1] + e[3] > lim:
                                    badd = badd or "%s with type_length %d, num_values %d, page of %d bytes: the copy %s [%s, +%s) of `%s` (%s bytes)" % (
                                        tname, tl, nv, psize, what, p_[1], e[3], p_[0], lim)
        ctx.ob("R3.extent", "dictionary-extent|%s:carquet_read_dictionary_page" % PR, P.where(rd.body),
               "a fixed-width dictionary copy stays inside the page and inside the block allocated for it, for every value count "
               "(%d type x count x size points, abstract execution)" % nd, badd is None, badd or "")
    except (sem.Inconclusive, KeyError) as ex:
        ctx.inconclusive("R3.extent", "dictionary-extent|%s:carquet_read_dictionary_page" % PR, P.where(rd.body),
                         "abstract execution of carquet_read_dictionary_page", "%s: %s" % (type(ex).__name__, ex))

    # ---- (1c) thrift list counts validated before allocation / loops
    nv = 0
    for fn in P.funcs_in(PT):
        for call in fn.calls("thrift_read_list_begin"):
            cnt = call.args()[2].strip_casts()
            if cnt.k != "UnaryOperator":
                continue
            cv_ = cnt.c[0].strip_casts()
            if cv_.k != "DeclRefExpr":
                continue
            cd = cv_.get("d")
            cname = cv_.name

            def mentions(n_, cd=cd):
                return any(x.k == "DeclRefExpr" and x.get("d") == cd for x in n_.walk())
            uses = [c for c in fn.calls("carquet_arena_calloc") if mentions(c.args()[1])]
            loops = [n for n in fn.body.walk() if n.k == "ForStmt" and n.c[2] is not None and mentions(n.c[2])]
            if not uses and not loops:
                continue
            # next validation macro after this call
            w = fn.cfg.where()
            # a validation is recognised by what it does, not by the macro it comes from: an if with an
            # exit whose condition rejects `count < 0` and `count > limit`
            vals = []
            for n in fn.body.walk():
                if n.k != "IfStmt":
                    continue
                kids_ = [x for x in n.c if x is not None]
                if not mentions(kids_[0]) or not any(r.k == "ReturnStmt" for r in kids_[1].walk()):
                    continue
                lows = highs = False
                for lf in kids_[0].walk():
                    if lf.k == "BinaryOperator" and lf.op in ("<", ">", "<=", ">=") and mentions(lf):
                        l_, r_ = lf.c[0].strip_casts(), lf.c[1].strip_casts()
                        cnt_left = l_.k == "DeclRefExpr" and l_.get("d") == cd
                        opn = lf.op if cnt_left else {"<": ">", ">": "<", "<=": ">=", ">=": "<="}[lf.op]
                        other = lf.c[1] if cnt_left else lf.c[0]
                        if opn == "<" and other.cv == 0 or opn == "<=" and other.cv == -1:
                            lows = True
                        if opn in (">", ">="):
                            highs = True
                if lows and highs:
                    vals.append(n)
                elif _validates_by_helper(P, fn, kids_[0], cd):
                    vals.append(n)
            for u in uses + [_first_cfg(fn, l.c[2]) for l in loops]:
                if u is None:
                    continue
                nv += 1
                ok = any(fn.cfg.node_dominates(_first_cfg(fn, v), u) and fn.cfg.node_dominates(call, _first_cfg(fn, v))
                         for v in vals if _between(fn, call, v, u))
                ctx.ob("R3.count", "list-count|%s:%s|L%s" % (PT, fn.name, _ord(fn, call)), P.where(u),
                       "the list count read at this site is validated (0 <= count <= limit) before it sizes an "
                       "allocation or bounds a loop", ok)
    ctx.floor("C04 list-count uses", nv, 14)
    # loops bounded by num_children also stop at the element count
    nl = 0
    for fn in P.funcs_in(FRD):
        for lp in fn.body.walk():
            if lp.k == "ForStmt" and lp.c[2] is not None and "num_children" in src(lp.c[2]):
                nl += 1
                c = src(lp.c[2])
                ctx.ob("R3.loop", "children-loop|%s:%s" % (FRD, fn.name), P.where(lp),
                       "the loop over the untrusted num_children also stops when the element list is exhausted",
                       "&&" in c and "num_elements" in c, c)
    ctx.count("num_children_loops", nl)
    # whatever the loops look like: the schema walk, executed abstractly on a group whose child count exceeds
    # the remaining elements, stops at the end of the element list (shared with C17.1)
    from . import C17
    tr_ = P.fn("traverse_schema_recursive", FRD)
    C17._walk_table(ctx, tr_, P.enum("carquet_field_repetition"))
    # footer validation: the open-gate traces of C18.2 (shared): the parser is reached only for a validated envelope
    # and no buffer is sized by an unvalidated footer length
    from . import C18
    C18.open_gates(ctx)

    # ---- termination of the level / index decoder's driving loops
    ctx.clause("C04.8 a refill step of the streaming RLE decoder that gives up records an error or has nothing owed (read loops terminate)")
    from ..rules import progress
    nfalse, nref = progress.check(ctx, "src/encoding/rle.c", "carquet_rle_decoder")
    ctx.floor("C04 refill functions of the RLE decoder", nref, 2)

    ctx.clause("C04.9 no bounds guard of the reader is computed in 32 bits from an unbounded input value and then compared with a 64-bit size")
    from ..rules import widen
    widen.check(ctx, sorted(set(P.rel(f.file) for f in P.funcs_under("src/reader/"))) + ["src/metadata/schema.c", "src/metadata/page_index.c", "src/metadata/bloom_filter.c"])

    ctx.clause("C04.10 a member freed while the reader object lives on is reset before the function returns (no second free by the destructor)")
    from ..rules import stalefield
    nst = stalefield.check(ctx, P.funcs_under("src/reader/") + P.funcs_in("src/metadata/schema.c", "src/core/buffer.c"))
    ctx.floor("C04 member frees outside destructors", nst, 20)

    ctx.clause("C04.12 level-block length prefixes: a page is accepted exactly when its blocks fit, and the decoders only receive bytes of the page")
    from ..rules import pageread
    nle = pageread.check_level_extents(ctx)
    ctx.floor("C04 level-extent scenarios", nle, 100)
    ctx.clause("C04.13 the column reader is never asked for more elements than the buffers handed to it were allocated for")
    from ..rules import reqalloc
    nrq = reqalloc.check(ctx, P.funcs_under("src/reader/"))
    ctx.floor("C04 read requests into buffers allocated on the spot", nrq, 2)
    ctx.clause("C04.11 after a page is loaded the recorded decode capacity is backed by all three decode buffers")
    _capacity_backed(ctx)

    # ---- (2) recursion, (3) ownership
    recursion.check(ctx, "R8", "recursion")
    rfns = P.funcs_under("src/reader/") + P.funcs_in("src/metadata/schema.c", PT, "src/thrift/thrift_decode.c", "src/core/arena.c")
    nown = ownership.check(ctx, rfns, "R2", "own")
    ctx.floor("C04 acquisition sites in the reader", nown, 40)

    # ---- (4) index arguments
    IDX = {"row_group_index": "num_row_groups", "column_index": None, "index": None, "page_idx": "num_pages",
           "parent_index": None}
    ni = 0
    for fn in P.lib_functions():
        if not P.rel(fn.file).startswith("src/"):
            continue
        for p in fn.params:
            if p["n"] not in IDX or "int" not in p["t"]:
                continue
            subs = [n for n in fn.body.walk() if n.k == "ArraySubscriptExpr" and
                    any(x.k == "DeclRefExpr" and x.get("d") == p["d"] for x in n.c[1].walk())]
            if not subs:
                continue
            ni += 1
            key = "index-arg|%s:%s|%s" % (P.rel(fn.file), fn.name, p["n"])
            ok = _index_checked(fn, p["d"], subs, P)
            how = "own guard"
            if not ok and fn.static:
                # a helper of one file: the obligation sits at its call sites - a caller's own index
                # argument must be checked before the call; a loop counter or other local of the caller is
                # not an index argument of the API
                pi = [q["d"] for q in fn.params].index(p["d"])
                sites = [(g, c) for g in P.funcs_in(P.rel(fn.file)) for c in g.calls() if c.callee == fn.name]
                taken = any(r.k == "DeclRefExpr" and r.name == fn.name and r.get("dk") not in ("local", "param")
                            for g in P.funcs_in(P.rel(fn.file)) for r in g.body.walk()) and \
                    len([1 for g in P.funcs_in(P.rel(fn.file)) for r in g.body.walk()
                         if r.k == "DeclRefExpr" and r.name == fn.name and r.get("dk") not in ("local", "param")]) > len(sites)
                if sites and not taken:
                    ok = True
                    hows = []
                    for g, c in sites:
                        a = c.args()[pi].strip_casts() if pi < len(c.args()) else None
                        if a is not None and a.k == "DeclRefExpr" and a.get("dk") == "param":
                            if not _index_checked(g, a.get("d"), [c], P):
                                ok = False
                                hows.append("%s passes its own `%s` unchecked" % (g.name, a.name))
                            else:
                                hows.append("%s checks `%s` before the call" % (g.name, a.name))
                        else:
                            hows.append("%s passes `%s`, not an index argument" % (g.name, src(c.args()[pi])[:30] if a is not None else "?"))
                    how = "static helper; " + "; ".join(hows)
            if not ok:
                # first handed to a callee that checks it and whose failure is returned before the subscript
                for c in fn.calls():
                    if not c.callee:
                        continue
                    pos = [i for i, a in enumerate(c.args()) if a.strip_casts().k == "DeclRefExpr" and a.strip_casts().get("d") == p["d"]]
                    if not pos:
                        continue
                    for cal in P.by_name.get(c.callee, []):
                        if pos[0] < len(cal.params) and cal.cfg is not None:
                            clo, chi = _range_guards(cal, cal.params[pos[0]]["d"])
                            if clo and chi and all(fn.cfg.node_dominates(c, s_) for s_ in subs):
                                ok = True
                                how = "checked by %s first" % c.callee
            if not ok:
                pc = _predicate_checked(P, fn, p["d"], subs)
                if pc:
                    ok = True
                    how = "range predicate %s() tested first" % pc
            ctx.ob("R6.index", key, P.where(fn.body),
                   "%s: `%s` is range-checked (< 0 || >= bound, error return) before it subscripts an array" % (fn.name, p["n"]),
                   ok, how)
    ctx.floor("C04 index parameters used as subscripts", ni, 8)

    # ---- (5) error reports
    ne = 0
    for fn in P.funcs_under("src/reader/", "src/thrift/parquet_types.c", "src/metadata/schema.c"):
        ep = [p for p in fn.params if p["t"].replace("const ", "") == "carquet_error_t *"]
        if not ep:
            continue
        ed = ep[0]["d"]

        def reports(e):
            if e.k == "CallExpr":
                if e.callee == "carquet_error_set":
                    return True
                return any(a.strip_casts().k == "DeclRefExpr" and a.strip_casts().get("d") == ed for a in e.args())
            return False
        for r in fn.returns():
            if not r.c or r.c[0] is None:
                continue
            v = r.c[0]
            isnull = fn.ret.endswith("*") and v.strip_casts().cv == 0
            iscode = fn.ret == "carquet_status_t" and v.cv not in (0, None)
            if not (isnull or iscode):
                continue
            ne += 1
            path = find_path_avoiding(fn.cfg, reports, lambda e: e is r)
            if path is not None:
                # only a feasible path counts (`r != OK` taken, then the `case OK:` arm of a switch over r, is not one)
                from ..rules.flow import find_feasible_path_avoiding
                path, capped = find_feasible_path_avoiding(fn, reports, lambda e: e is r, enums=P.enums)
                if capped:
                    ctx.inconclusive("R6.error", "error-report|%s:%s|L%s" % (P.rel(fn.file), fn.name, _ret_ord(fn, r)), P.where(r),
                                     "the error exit is preceded by an error report", "path search cap reached")
                    continue
            ctx.ob("R6.error", "error-report|%s:%s|L%s" % (P.rel(fn.file), fn.name, _ret_ord(fn, r)), P.where(r),
                   "the error exit `%s` is preceded by CARQUET_SET_ERROR or a callee that received the error object" % src(r)[:50],
                   path is None, "path: %s" % describe_path(fn, fn.cfg, path)[-3:] if path else "")
    ctx.floor("C04 error exits with an error object", ne, 60)
    es = P.fn("carquet_error_set", "src/core/error.c")
    vs = es.calls("vsnprintf")
    okv = len(vs) == 1 and vs[0].args()[1].cv is not None and "message" in src(vs[0].args()[0])
    rec = P.records.get("carquet_error")
    alen = None
    if rec:
        for f_ in rec["fields"]:
            if f_["n"] == "message":
                alen = f_.get("alen")
    ctx.ob("R6.error", "error-message-bounded|src/core/error.c:carquet_error_set", P.where(es.body),
           "the message is written with vsnprintf bounded by the size of error->message (NUL-terminated)",
           okv and alen is not None and vs[0].args()[1].cv <= alen, "bound %s, array %s" % (vs[0].args()[1].cv if vs else None, alen))


def _ord(fn, call):
    cs = [c for c in fn.calls(call.callee)]
    return cs.index(call)


def _ret_ord(fn, r):
    return fn.returns().index(r)


def _between(fn, a, v, u):
    return True


def _mapped_bounds(ctx):
    """The two loaders that read through the mapping, executed abstractly over a grid of header lies
    (page offsets before / inside / at / beyond the end of the file, negative, zero, plausible and huge
    sizes and counts) with the real availability and extent predicates interpreted: every byte range
    they hand to the header parser, the CRC, a codec, a decoder, memset or the zero-copy view must lie
    inside the object it points into. Whether a page is refused is not prescribed - only that nothing
    outside is touched."""
    from ..rules import loaders as LD, sem
    P = ctx.P
    pt = P.enum("carquet_page_type")
    cd = P.enum("carquet_compression")
    FS = 2000
    CAP = 64
    n = 0
    for name in ("load_dictionary_page_mmap", "load_next_page_mmap"):
        isdict = "dictionary" in name
        fn = P.fn(name, PR)
        bad = None
        unknown = None
        try:
            for off in (-7, 0, 500, FS - 40, FS - 10, FS, FS + 100, 1 << 40):
                for csize in (-5, 0, 1, 120, FS, 0x7FFFFFFF):
                    for usize, codec in ((480, 0), (480, 1), (-1, 1), (0, 1)):
                        for nv in ((10,) if isdict else (-1, 10, 1 << 30)):
                            for levels in ((True,) if isdict else (True, False)):
                                n += 1
                                kw = dict(dict_off=off) if isdict else dict(data_off=off)
                                ret, ev, out = LD.trace(P, name, pt["CARQUET_PAGE_DICTIONARY"] if isdict else pt["CARQUET_PAGE_DATA"],
                                                        0, 1, 0, 0, cd["CARQUET_COMPRESSION_SNAPPY"] if codec else cd["CARQUET_COMPRESSION_UNCOMPRESSED"],
                                                        levels=levels, num_values=nv, csize=csize, usize=usize, file_size=FS,
                                                        capacity=CAP, native_geometry=True, **kw)
                                sc = "page at offset %d of a %d-byte file, compressed_page_size %d, uncompressed_page_size %d, num_values %d, codec %d, levels %s" % (
                                    off, FS, csize, usize, nv, codec, levels)
                                sizes = {"map": FS, "dv": CAP * 4, "ddl": CAP * 2, "drl": CAP * 2}
                                ranges = []
                                for e in ev:
                                    if e[0] == "malloc":
                                        sizes[e[1]] = e[2]
                                    elif e[0] == "parse-header":
                                        ranges.append(("header parse", e[1], e[2]))
                                    elif e[0] == "crc":
                                        ranges.append(("CRC", e[1], e[2]))
                                    elif e[0] == "decompress":
                                        ranges.append(("codec input", e[2], e[3]))
                                        ranges.append(("codec output", e[4], e[5]))
                                    elif e[0] in ("consume-dict", "consume-page"):
                                        ranges.append(("decoder input", e[1], e[2]))
                                    elif e[0] == "memset":
                                        ranges.append(("memset", e[1], e[2]))
                                    elif e[0] == "copy":
                                        ranges.append(("copy source", e[2], e[3]))
                                        ranges.append(("copy destination", e[1], e[3]))
                                dv = out["decoded_values"]
                                if ret == 0 and isinstance(dv, tuple) and dv and dv[0] == "map":
                                    ranges.append(("zero-copy view of %d values" % nv, dv, nv * 4))
                                for what, p_, ln_ in ranges:
                                    if not (isinstance(p_, tuple) and len(p_) == 2 and isinstance(p_[0], str)):
                                        continue
                                    base_, o_ = p_
                                    if base_ not in sizes:
                                        continue
                                    if not isinstance(o_, int) or not isinstance(ln_, int) or not isinstance(sizes[base_], int):
                                        unknown = unknown or "%s: %s of %s bytes at %s+%s" % (sc, what, ln_, base_, o_)
                                        continue
                                    if (o_ < 0 or ln_ < 0 or o_ + ln_ > sizes[base_]) and bad is None:
                                        bad = "%s: %s touches [%d, %d) of `%s`, which holds %d bytes (returns %s)" % (
                                            sc, what, o_, o_ + ln_, base_, sizes[base_], ret)
            key = "mapped-bounds|%s:%s" % (PR, name)
            what_ = ("%s keeps every access (header window, CRC, codec, decoder, memset, zero-copy view) inside the mapping and "
                     "inside its buffers for lying offsets, sizes and counts" % name)
            if bad is None and unknown is not None:
                ctx.inconclusive("R3.extent", key, P.where(fn.body), what_, unknown)
            else:
                ctx.ob("R3.extent", key, P.where(fn.body), what_ + " (abstract execution, real predicates)", bad is None, bad or "")
        except (sem.Inconclusive, KeyError) as ex:
            ctx.inconclusive("R3.extent", "mapped-bounds|%s:%s" % (PR, name), P.where(fn.body), "abstract execution of %s" % name,
                             "%s: %s" % (type(ex).__name__, ex))
    ctx.floor("C04 mapped-bounds scenarios", n, 500)


def _validates_by_helper(P, fn, cond, cd):
    """`if (!in_bounds(dec, count, LIMIT)) <exit>`: the condition is (the negation of) a call of a helper of
    the program that receives the count and a constant limit; executed abstractly, the helper answers
    false for -1, LIMIT + 1 and INT32_MAX and true for 0 and LIMIT - whatever it is called."""
    from ..rules import sem
    c = cond.strip_casts()
    neg = False
    while c is not None and c.k == "UnaryOperator" and c.op == "!":
        neg = not neg
        c = c.c[0].strip_casts()
    if c is None or c.k != "CallExpr" or not c.callee or not neg:
        return False
    cands = [g for g in P.by_name.get(c.callee, []) if g.file == fn.file] or P.by_name.get(c.callee, [])
    if not cands:
        return False
    g = cands[0]
    args = c.args()
    ci = [i for i, a in enumerate(args) if a.strip_casts().k == "DeclRefExpr" and a.strip_casts().get("d") == cd]
    ks = [a.cv for a in args if a.cv is not None and a.cv > 0]
    if len(ci) != 1 or not ks:
        return False
    K = ks[0]

    def ask(v):
        av = []
        for i, a in enumerate(args):
            if i == ci[0]:
                av.append(v)
            elif a.cv is not None:
                av.append(a.cv)
            elif "*" in (a.strip().t or ""):
                av.append(sem.Ptr("arg%d" % i, 0, 1))
            else:
                av.append(sem.U)
        try:
            outs = sem.run(P, g, av, single=False, max_forks=16, hooks={"snprintf": lambda ev, a, it: 0, "carquet_error_set": lambda ev, a, it: None})
        except sem.Inconclusive:
            return None
        rs = set(r for r, _e, _h in outs)
        return rs.pop() if len(rs) == 1 else None
    return ask(-1) == 0 and ask(K + 1) == 0 and ask(0x7FFFFFFF) == 0 and ask(0) == 1 and ask(K) == 1
