"""C16 - statistics are true bounds; pruning never discards matches."""
import re
from ..canon import Canon, fold, subtrees, show
from ..extract import AnalysisBroken
from ..facts import src
from ..rules.flow import find_path_avoiding, describe_path
from ..rules.skeleton import Interp, U
from ..util import switch_table, find_switches, is_assign

EXPLANATION = (
    "Static decision of structural clauses of C16, mostly by abstract execution with real integer "
    "statistics (the statistics lookup is hooked to hand out [min, max]; the repository's own comparators "
    "read the values through their pointers; INT32 and INT64; bounds and probes range over a grid that "
    "realises every ordering of probe, min and max): (1) carquet_reader_row_group_matches never reports "
    "`no match` when some x in [min,max] satisfies `x op value`, for each of the six operators; "
    "*might_match is assigned on every path; a failing statistics lookup returns its status and no `no "
    "match`; without min/max the group is a possible match; carquet_statistics_compare reports a probe "
    "out of range only below a present minimum / above a present maximum; "
    "carquet_statistics_range_overlaps and carquet_column_index_page_might_match never answer `no` for a "
    "query range (open ends included) that meets the stored one; (2) filter_row_groups, executed over "
    "scenarios of up to 3 row groups x {match, no match, error} x 3 capacities, returns exactly the "
    "ascending, capped list of groups that matched or failed; (3) which comparator orders each physical "
    "type, in statistics_compare, range_overlaps, add_values and row_group_matches: executed once per "
    "type with the named comparators hooked - a typed type never reaches the byte comparator (switch, "
    "if-chain or a table of function pointers alike); comparator bodies order by the value of their own "
    "width/type and the floating ones place NaN; (4) floating min/max updates of the page writer are "
    "NaN-guarded; every memcpy into the fixed min/max arrays is bounded - by constants or guards for the "
    "page writer (a length that is a helper parameter is decided at the call sites), by execution over "
    "types x type lengths x value lengths for the statistics builder, where a value is also stored whole "
    "or not at all; add_values / add_byte_arrays followed by carquet_statistics_build, with comparators "
    "hooked to answer <, =, >: a value below/above the bounds replaces them, the first value becomes "
    "both, and after a value too long to keep build() publishes no bounds; (5) null_count is accumulated "
    "as num_values - num_non_null; (6) min/max polarity: every store into a min_* (max_*) member or local "
    "reads only min (max) sources and every (pointer, size) argument pair names one bound; (7) "
    "carquet_column_index_add_page records a page as a null page exactly when its caller says so and "
    "copies exactly the non-empty bounds it was given; (8) the page writer's update_statistics_i32 / _i64, "
    "executed for two consecutive batches over every tuple of a 4-value alphabet (they only compare and copy, "
    "so the ordering is all that matters), record the minimum and maximum of everything added. (9) in reader/statistics.c leaf indices and schema-element indices are not mixed - also through a constant offset or a parameter whose space is fixed by the callee it is handed to (R13, shared with C02.5): the statistics of a column are compared using that column's own physical type. (10) every memcmp-based (pointer, length, pointer, length) comparator of the statistics code, executed on concrete strings (equal, differing, proper prefixes, the empty string against a non-empty one), returns the sign of the lexicographic order - an empty probe or bound is a value like any other. Decides these clauses, not that written min/max "
    "bound the data for every input, nor floating-point and byte-array orderings beyond the "
    "comparator-table clause.")

RS = "src/reader/statistics.c"
MS = "src/metadata/statistics.c"
PI = "src/metadata/page_index.c"
PW = "src/writer/page_writer.c"

# feasible (sign(v-min), sign(v-max)) with min <= max and whether some x in [min,max] has `x op v`
CELLS = {"v<min": (-1, -1), "v=min<max": (0, -1), "min<v<max": (1, -1), "v=max>min": (1, 0),
         "v>max": (1, 1), "v=min=max": (0, 0)}
EXISTS = {
    "CARQUET_COMPARE_EQ": lambda a, b: a >= 0 and b <= 0,
    "CARQUET_COMPARE_NE": lambda a, b: not (a == 0 and b == 0),
    "CARQUET_COMPARE_LT": lambda a, b: a > 0,      # exists x < v  <=> min < v
    "CARQUET_COMPARE_LE": lambda a, b: a >= 0,
    "CARQUET_COMPARE_GT": lambda a, b: b < 0,      # exists x > v  <=> max > v
    "CARQUET_COMPARE_GE": lambda a, b: b <= 0,
}
KIND = {"compare_boolean": "boolean", "compare_int32": "int32", "compare_int64": "int64",
        "compare_int96": "int96", "compare_float": "float", "compare_double": "double",
        "compare_byte_array": "bytes", "compare_bytes": "bytes", "memcmp": "bytes"}
TYPED = {"CARQUET_PHYSICAL_BOOLEAN": "boolean", "CARQUET_PHYSICAL_INT32": "int32",
         "CARQUET_PHYSICAL_INT64": "int64", "CARQUET_PHYSICAL_INT96": "int96",
         "CARQUET_PHYSICAL_FLOAT": "float", "CARQUET_PHYSICAL_DOUBLE": "double",
         "CARQUET_PHYSICAL_BYTE_ARRAY": "bytes", "CARQUET_PHYSICAL_FIXED_LEN_BYTE_ARRAY": "bytes"}


def eval_cond(P, fn, cond, env):
    it = Interp(P, fn, budget=5000)
    it.decisions, it.dpos, it.new_forks, it.acc = [], 0, [], []
    v = it.ev(cond, dict(env), fn, 0)
    v = it.rv(v, env)
    if it.new_forks:
        return None
    return v if isinstance(v, int) else None


def false_store_guard(node):
    """If node is `*out = false` return the chain of enclosing IfStmt conditions (innermost
    first) with the branch polarity, up to the function body / switch."""
    out = []
    cur = node
    for a in node.ancestors():
        if a.k == "IfStmt":
            kids = [x for x in a.c if x is not None]
            inthen = any(x is cur for x in kids[1].walk()) or kids[1] is cur
            out.append((kids[0], inthen))
        if a.k in ("SwitchStmt",):
            break
        cur = a
    return out


def _page_bounds(ctx):
    """update_statistics_i32 / _i64 executed abstractly on a fresh page writer for two consecutive batches whose
    values range over every tuple of a 4-value alphabet (the functions only compare and copy their values, so their
    behaviour depends on the ordering alone): the recorded bounds are the minimum and maximum of all values added."""
    import itertools
    from ..rules import sem
    from ..rules.skeleton import Ptr, U
    P = ctx.P
    wo = sem.field_offsets(P, "carquet_page_writer")
    A = (-7, 3, 3000000000, 12)          # as int32: 3000000000 wraps to a negative number; as int64 it is the largest
    for name, bits in (("update_statistics_i32", 32), ("update_statistics_i64", 64)):
        fn = P.fn(name, PW)
        key = "page-bounds|%s:%s" % (PW, name)
        what = ("%s leaves min = the smallest and max = the largest of all values added to the page, for every ordering of a first batch of "
                "1..2 and a second batch of 1..3 values (abstract execution)" % name)
        esz = bits // 8

        def sval(v):
            v &= (1 << bits) - 1
            return v - (1 << bits) if v >> (bits - 1) else v
        bad = None
        n = 0
        try:
            batches1 = [t for k in (1, 2) for t in itertools.product(A, repeat=k)]
            batches2 = [t for k in (1, 2) for t in itertools.product(A, repeat=k)] + [t for t in itertools.product(A, repeat=3) if len(set(t)) == 3]
            for b1 in batches1:
                heap = {("pw", wo["has_min_max"]): 0, ("pw", wo["min_max_size"]): 0}
                for k_, b in enumerate((b1, None)):
                    pass
                # first batch once, then every second batch from the state it leaves
                mem1 = lambda base, off, size, b=b1: sval(b[off // esz]) if base == "vals" and off // esz < len(b) else None
                r1, e1, h1 = sem.run(P, fn, [Ptr("pw", 0, 1), Ptr("vals", 0, esz), len(b1)], heap0=heap, hooks={}, single=True, memory=mem1, budget=50000)
                for b2 in batches2:
                    n += 1
                    mem2 = lambda base, off, size, b=b2: sval(b[off // esz]) if base == "vals" and off // esz < len(b) else None
                    r2, e2, h2 = sem.run(P, fn, [Ptr("pw", 0, 1), Ptr("vals", 0, esz), len(b2)], heap0=h1, hooks={}, single=True, memory=mem2, budget=50000)

                    def bound(member):
                        bs = [h2.get(("pw", wo[member] + i)) for i in range(esz)]
                        if not all(isinstance(x, int) for x in bs):
                            return None
                        return sval(sum((x & 0xFF) << (8 * i) for i, x in enumerate(bs)))
                    allv = [sval(v) for v in b1 + b2]
                    got = (bound("min_value"), bound("max_value"), h2.get(("pw", wo["has_min_max"])), h2.get(("pw", wo["min_max_size"])))
                    want = (min(allv), max(allv), 1, esz)
                    if got != want and bad is None:
                        if None in got[:2]:
                            raise sem.Inconclusive("bounds not tracked: %s" % (got,))
                        bad = "batches %s then %s: min/max recorded as %s/%s, the values span %s..%s" % (
                            [sval(v) for v in b1], [sval(v) for v in b2], got[0], got[1], want[0], want[1])
        except (sem.Inconclusive, KeyError) as ex:
            ctx.inconclusive("R6.must-pass", key, P.where(fn.body), what, "%s: %s" % (type(ex).__name__, ex))
            continue
        ctx.count("page_bounds_%d" % bits, n)
        ctx.ob("R6.must-pass", key, P.where(fn.body), what, bad is None, bad or "")


def run(ctx):
    P = ctx.P
    ctx.clause("C16.1 operator/interval tables free of false negatives (exhaustive over the sign domain)")
    ctx.clause("C16.2 absent statistics and errors mean might-match; filter ascending and capped")
    ctx.clause("C16.3 comparator tables agree per type; comparators order by their own type")
    ctx.clause("C16.4 floating min/max NaN-guarded; memcpy into min/max storage bounded")
    ctx.clause("C16.5 null count accumulation")
    ctx.clause("C16.6 min/max polarity: a max slot is fed from max sources only, (pointer,size) pairs name one bound")
    from ..rules import polarity
    npol = polarity.check(ctx, P.funcs_in(
        "src/reader/statistics.c", "src/metadata/statistics.c", "src/metadata/page_index.c",
        "src/thrift/parquet_types.c", "src/writer/page_writer.c", "src/writer/column_writer.c",
        "src/writer/file_writer.c", "src/writer/row_group_writer.c", "src/reader/file_reader.c"))
    ctx.floor("C16 min/max stores and argument pairs", npol, 80)
    ctx.clause("C16.10 the byte-string comparators behind BYTE_ARRAY / FIXED_LEN_BYTE_ARRAY bounds order lexicographically, a proper prefix (the empty string included) first")
    ctx.floor("C16 byte-string comparators executed", _byte_comparators(ctx), 2)
    ctx.clause("C16.7 the column-index builder records a page as a null page exactly when its caller says so, and the bounds it was given")
    _index_builder_records(ctx)
    f = P.fn("carquet_reader_row_group_matches", RS)
    _row_group_matches(ctx, f)
    ctx.clause("C16.9 the statistics of a column are compared with that column's own type: leaf and schema-element indices are not mixed (rule shared with C02.5)")
    from ..rules import indexspace
    nis, ncl = indexspace.check(ctx, P.funcs_in(RS))
    ctx.floor("C16 classified subscripts in reader/statistics.c", ncl, 2)

    from ..rules import sem
    g = P.fn("carquet_reader_filter_row_groups", RS)
    # filter_row_groups by abstract execution over small scenarios: N row groups, each reported as
    # match / no match / error by the (hooked) per-group predicate; the result must be the first
    # max_indices indices, ascending, of the groups that are not a definite non-match
    import itertools
    gpn = [p_["n"] for p_ in g.params]
    bad = None
    scen = 0
    try:
        for N in range(0, 4):
            for outcome in itertools.product("MNE", repeat=N):
                for cap in (1, 2, N + 1):
                    scen += 1
                    args = []
                    for p_ in g.params:
                        if p_["n"] == "max_indices":
                            args.append(cap)
                        elif p_["n"] == "matching_indices":
                            args.append(sem.Ptr("out", 0, 4))
                        elif "*" in p_["t"]:
                            args.append(sem.Ptr("p_" + p_["n"], 0, 1))
                        else:
                            args.append(0)

                    def matches(ev, a, it, outcome=outcome):
                        i = a[1]
                        if not isinstance(i, int) or i < 0 or i >= len(outcome):
                            raise sem.Stop("row_group_matches called for group %s of %d" % (i, len(outcome)))
                        ev.append(i)
                        o = outcome[i]
                        sem.set_out(it, a[-1], 1 if o == "M" else 0)      # an erroring callee leaves garbage: worst case false
                        return 0 if o != "E" else 9
                    ret, ev, heap = sem.run(P, g, args, heap0={}, budget=400000, hooks={
                        "carquet_reader_num_row_groups": lambda ev, a, it, N=N: N,
                        "carquet_reader_row_group_matches": matches})
                    want = [i for i, o in enumerate(outcome) if o != "N"][:cap]
                    got = [heap.get(("out", 4 * k)) for k in range(len(want))]
                    extra = heap.get(("out", 4 * len(want)))
                    if (got != want or ret != len(want) or extra is not None) and bad is None:
                        bad = "groups %s, max_indices %d: returns %s with indices %s, expected %d with %s" % (
                            "".join(outcome) or "-", cap, ret, got + ([extra] if extra is not None else []), len(want), want)
        ctx.ob("R6.default", "filter-semantics|%s:%s" % (RS, g.name), P.where(g.body),
               "filter_row_groups returns, ascending and capped by max_indices, exactly the groups whose predicate "
               "reported a match or failed (%d scenarios: up to 3 groups x match/no match/error x 3 capacities)" % scen,
               bad is None, bad or "")
    except sem.Inconclusive as ex:
        ctx.inconclusive("R6.default", "filter-semantics|%s:%s" % (RS, g.name), P.where(g.body), "abstract execution", str(ex))

    # ---- interval tables: compare / range_overlaps / page_might_match
    _interval_semantic(ctx)

    # ---- (3) comparator tables agree
    _comparator_tables(ctx)
    # comparator bodies
    for file_ in (MS, RS):
        for name, tys in (("compare_int32", ("int32_t", "int")), ("compare_int64", ("int64_t", "long")),
                          ("compare_float", ("float",)), ("compare_double", ("double",))):
            fn = P.fn_opt(name, file_)
            if fn is None:
                raise AnalysisBroken("%s missing in %s" % (name, file_))
            rel = [b for b in fn.body.walk() if b.k == "BinaryOperator" and b.op in ("<", ">", "<=", ">=")]
            ok = bool(rel) and all((b.c[0].strip().t or "").replace("const ", "") in tys and
                                   (b.c[1].strip().t or "").replace("const ", "") in tys for b in rel)
            ctx.ob("R5.comparator", "cmp-body|%s:%s" % (file_, name), P.where(fn.body),
                   "%s orders its operands as %s values (relational operators on that type)" % (name, tys[0]), ok,
                   "operand types %s" % sorted(set((b.c[0].strip().t, b.c[1].strip().t) for b in rel)))
    for name in ("compare_float", "compare_double"):
        fn = P.fn(name, MS)
        nan = any(c.callee in ("isnan", "__builtin_isnan", "__isnan", "__isnanf", "isnanf") for c in fn.calls()) or \
            any("isnan" in (n.get("m") or "") or "isnan" in (n.get("mi") or "") for n in fn.body.walk()) or \
            any(b.k == "BinaryOperator" and b.op == "!=" and src(b.c[0]) == src(b.c[1]) for b in fn.body.walk())
        ctx.ob("R5.comparator", "cmp-nan|%s:%s" % (MS, name), P.where(fn.body),
               "the builder's %s gives NaN a fixed place in the order" % name, nan)

    # ---- (4) NaN guard + bounded memcpy in the page writer / builder
    for name, ty in (("update_statistics_float", "float"), ("update_statistics_double", "double")):
        fn = P.fn(name, PW)

        def nan_polarity(c):
            """'nan' when the condition is true for NaN (x != x, isnan(x)), 'num' when it is true for numbers only
            (x == x, !isnan(x)), else None."""
            c = c.strip()
            neg = False
            while c is not None and c.k == "UnaryOperator" and c.op == "!":
                neg = not neg
                c = c.c[0].strip()
            pol = None
            if c.k == "BinaryOperator" and c.op in ("!=", "==") and src(c.c[0].strip_casts()) == src(c.c[1].strip_casts()):
                pol = "nan" if c.op == "!=" else "num"
            elif (c.k == "CallExpr" and "isnan" in (c.callee or "")) or "isnan" in (c.get("m") or ""):
                pol = "nan"
            if pol and neg:
                pol = "num" if pol == "nan" else "nan"
            return pol
        guards = []
        for n in fn.body.walk():
            if n.k == "IfStmt":
                kids = [x for x in n.c if x is not None]
                pol = nan_polarity(kids[0])
                if pol:
                    guards.append((n, kids, pol))
        writes = [c for c in fn.calls("memcpy") if any(x.k == "MemberExpr" and x.name in ("min_value", "max_value")
                                                       for x in c.args()[0].walk())]

        def guarded(w):
            for g, kids, pol in guards:
                then = kids[1]
                els = kids[2] if len(kids) > 2 else None
                inthen = any(x is w for x in then.walk())
                inelse = els is not None and any(x is w for x in els.walk())
                if (pol == "num" and inthen) or (pol == "nan" and inelse):
                    return True
                if pol == "nan" and not inthen and not inelse and \
                        any(x.k in ("ContinueStmt", "ReturnStmt", "BreakStmt") for x in then.walk()):
                    first = min((x for x in g.walk() if x.i in fn.cfg.where()), key=lambda x: x.i)
                    if fn.cfg.node_dominates(first, w):
                        return True
            return False
        okg = bool(writes) and bool(guards) and all(guarded(w) for w in writes)
        ctx.ob("R6.nan", "nan-guard|%s:%s" % (PW, name), P.where(fn.body),
               "%s updates min/max only for values that passed a NaN test (either polarity: skip on `v != v`, or update inside `v == v`)" % name, okg)
    ctx.clause("C16.8 the page writer's integer bounds are the minimum and maximum of everything added, for every ordering of two batches")
    _page_bounds(ctx)
    nmc = _builder_copies(ctx)
    for file_, fnames in ((PW, None),):
        for fn in P.funcs_in(file_):
            for c in fn.calls("memcpy"):
                dst = c.args()[0]
                mem = [x for x in dst.walk() if x.k == "MemberExpr" and x.name in ("min_value", "max_value")]
                if not mem or "*" in (mem[0].t or ""):
                    continue
                nmc += 1
                cap = _array_len(P, mem[0])
                n_ = c.args()[2]
                key = "minmax-copy|%s:%s|%s" % (file_, fn.name, mem[0].name)
                if n_.cv is not None and cap is not None:
                    ctx.ob("R6.bounded", key, P.where(c), "memcpy of %d bytes into %s[%d]" % (n_.cv, mem[0].name, cap),
                           n_.cv <= cap)
                    continue
                ln = src(n_)
                okb, reach, via = _len_bounded(P, fn, c, n_, cap, 2)
                ctx.ob("R6.bounded", key, P.where(c),
                       "memcpy of `%s` bytes into the %s-byte %s array: a comparison of that length with the capacity "
                       "dominates the copy, and the copy is unreachable within the iteration on its too-long edge (rejected, "
                       "never truncated - required for max: a prefix is not an upper bound)%s" % (ln, cap, mem[0].name, via),
                       okb and (not reach or "max" not in mem[0].name.split("_")),
                       "" if okb and not reach else ("no dominating comparison with a constant <= %s" % cap if not okb
                                                     else "the copy is reachable on the too-long edge (clamp / fall-through)"))
    ctx.floor("C16 min/max memcpy sites", nmc, 10)

    # ---- every value participates in the min/max decision or invalidates the bounds
    _every_value_counts(ctx)

    # ---- (5) null count
    av = P.fn("carquet_page_writer_add_values", PW)
    incs = [a for a in av.body.walk() if a.k == "CompoundAssignOperator" and a.op == "+=" and
            a.c[0].strip().k == "MemberExpr" and a.c[0].strip().name == "num_nulls"]
    okn = len(incs) == 1
    if okn:
        t = Canon(av, inline=False)(incs[0].c[1])
        okn = t[0] == "bin" and t[1] == "-" and "num_values" in show(t) or "arg2" in show(t)
    ctx.ob("R5.agree", "null-count|%s:carquet_page_writer_add_values" % PW, P.where(av.body),
           "num_nulls is accumulated as num_values - num_non_null", okn)


def _ord(fn, sw):
    sws = find_switches(fn)
    return sws.index(sw)


def _array_len(P, mem):
    rec = P.records.get(mem.get("rec"))
    if rec:
        for fl in rec["fields"]:
            if fl["n"] == mem.name:
                return fl.get("alen")
    return None


def _too_long_reaches(fn, cond, ln, copy):
    """The size test `len > capacity` (in whatever spelling): can the copy still be reached, within the
    same loop iteration, along the edge on which the value is too long? Then the value is clamped or
    copied anyway instead of being rejected."""
    from ..rules.flow import find_path_avoiding
    cfg = fn.cfg
    leaf = None
    for x in cond.walk():
        if x.k == "BinaryOperator" and x.op in (">", ">=", "<", "<=") and ln in src(x):
            leaf = x
            break
    if leaf is None:
        return False
    left_is_len = ln in src(leaf.c[0])
    too_long_on_true = (leaf.op in (">", ">=")) == left_is_len
    blk = None
    for B in cfg.blocks.values():
        if B.cond is not None and (B.cond is leaf or B.cond.i == leaf.i or any(y.i == leaf.i for y in B.cond.walk())):
            if len([s_ for s_ in B.succs if s_ is not None]) == 2:
                blk = B
    if blk is None:
        return False
    start = blk.succs[0] if too_long_on_true else blk.succs[1]
    stop_ids = set()
    for a in copy.ancestors():
        if a.k in ("ForStmt", "WhileStmt", "DoStmt"):
            for part in (a.c[:-1]):
                if part is not None:
                    stop_ids |= set(y.i for y in part.walk())
            break
    p = find_path_avoiding(cfg, lambda e: e.i in stop_ids, lambda e: e is copy, None, (start, 0))
    return p is not None


def _comparator_is_typed(P, g):
    """A comparator taking the physical type is `typed` when, executed abstractly for each numeric type
    with values of that type's width, no path falls back to a byte-wise memcmp (however the dispatch on
    the type is written)."""
    from ..rules import sem
    tpar = [i for i, p_ in enumerate(g.params) if "physical_type" in p_["t"]]
    if not tpar:
        return False
    types = P.enum("carquet_physical_type")
    for tname, width in (("CARQUET_PHYSICAL_INT32", 4), ("CARQUET_PHYSICAL_INT64", 8),
                         ("CARQUET_PHYSICAL_FLOAT", 4), ("CARQUET_PHYSICAL_DOUBLE", 8)):
        args = []
        for i, p_ in enumerate(g.params):
            if i == tpar[0]:
                args.append(types[tname])
            elif "*" in p_["t"]:
                args.append(sem.Ptr("v%d" % i, 0, 1))
            else:
                args.append(width)
        try:
            paths = sem.run(P, g, args, single=False, max_forks=256,
                            hooks={"memcmp": lambda ev, a, it: ev.append("memcmp") or sem.U,
                                   "compare_bytes": lambda ev, a, it: ev.append("memcmp") or sem.U})
        except sem.Inconclusive:
            return False
        if any("memcmp" in ev for ret, ev, heap in paths):
            return False
    return True


def _interval(ctx, fn, file_, outname, blocks):
    """Interval tables: block k computes cmp = comparator(A_k, B_k) per type and clears/sets the
    output; the store is allowed only when cmp has the sign proving disjointness."""
    P = ctx.P
    stores = [a for a in fn.body.walk() if is_assign(a) and a.op == "=" and outname in src(a.c[0])
              and a.c[1].cv is not None]
    found = 0
    for a_name, b_name, sign in blocks:
        # the store guarded by a condition on a local `cmp` whose definitions compare (a_name, b_name)
        for st in stores:
            guards = false_store_guard(st)
            if not guards:
                continue
            cond, inthen = guards[0]
            cmps = [x for x in cond.walk() if x.k == "DeclRefExpr" and x.get("dk") == "local"]
            if not cmps:
                continue
            d = cmps[0].get("d")
            defs = [x for x in fn.body.walk() if (is_assign(x) and x.c[0].strip().k == "DeclRefExpr" and x.c[0].strip().get("d") == d)
                    or (x.k == "DeclStmt" and any(dd.get("d") == d and dd.get("hasinit") for dd in x.get("decls", [])))]
            roles = set()
            for df in defs:
                rhs = df.c[1] if is_assign(df) else [i for dd, i in zip(df.get("decls", []), df.c) if dd.get("d") == d][0]
                call = rhs.strip_casts() if rhs is not None else None
                if call is None or call.k != "CallExpr":
                    continue
                args = call.args()
                first = None
                others = set()
                for ar in args:
                    a0 = ar.strip_casts()
                    if first is None and a0.k == "DeclRefExpr" and a0.name in ("value", "min_value", "max_value"):
                        first = a0.name
                        continue
                    if first is not None:
                        others |= set(x.name for x in ar.walk() if x.k == "MemberExpr" and
                                      x.name in ("min_value", "max_value", "min_values", "max_values"))
                roles.add((first, b_name if b_name in others else (sorted(others)[0] if others else "?")))
            if roles != {(a_name, b_name)}:
                continue
            found += 1
            # the comparator must be directed by the column's physical type
            for df in defs:
                rhs = df.c[1] if is_assign(df) else [i for dd, i in zip(df.get("decls", []), df.c) if dd.get("d") == d][0]
                call = rhs.strip_casts() if rhs is not None else None
                if call is None or call.k != "CallExpr":
                    continue
                typed = call.callee in KIND and KIND[call.callee] != "bytes"
                in_switch = any(a.k == "SwitchStmt" for a in call.ancestors())
                if not typed and not in_switch:
                    cal = [g for g in P.by_name.get(call.callee or "", []) if P.rel(g.file) == file_]
                    typed = bool(cal) and _comparator_is_typed(P, cal[0])
                if not in_switch:
                    ctx.ob("R5.siblings", "typed-compare|%s:%s|cmp(%s,%s)" % (file_, fn.name, a_name, b_name),
                           P.where(call), "%s orders values through a comparator directed by the physical type "
                           "(plain little-endian bytes do not sort like numbers)" % fn.name, typed,
                           "uses %s" % call.callee)
            # evaluate the guard for cmp in {-1,0,1}
            okall = True
            detail = []
            for sgn in (-1, 0, 1):
                v = eval_cond(P, fn, cond, {d: sgn})
                if v is None:
                    okall = None
                    break
                fires = bool(v) == inthen
                # nested guards beyond the first are ignored (none today)
                if fires and sgn != sign:
                    okall = False
                    detail.append("fires for cmp=%d" % sgn)
            key = "interval|%s:%s|cmp(%s,%s)" % (file_, fn.name, a_name, b_name)
            if okall is None:
                ctx.inconclusive("R5.optable", key, P.where(st), "interval guard not evaluable")
            else:
                ctx.ob("R5.optable", key, P.where(st),
                       "%s: the no-match/out-of-range answer from cmp(%s, %s) is given only when cmp %s 0"
                       % (fn.name, a_name, b_name, "<" if sign < 0 else ">"), okall, "; ".join(detail))
    ctx.floor("%s interval blocks" % fn.name, found, 2)


def _index_builder_records(ctx):
    """carquet_column_index_add_page, executed abstractly over {null page or not} x {min given / absent /
    empty} x {max given / absent / empty}: what ends up in the arrays page_might_match reads."""
    from ..rules import sem
    P = ctx.P
    PI = "src/metadata/page_index.c"
    f = P.fn("carquet_column_index_add_page", PI)
    key = "index-builder-records|%s:%s" % (PI, f.name)
    try:
        bo = sem.field_offsets(P, "carquet_column_index_builder")
        bad = None
        n = 0
        for isnull in (0, 1):
            for minp, minl in ((sem.Ptr("minv", 0, 1), 4), (0, 0), (sem.Ptr("minv", 0, 1), 0)):
                for maxp, maxl in ((sem.Ptr("maxv", 0, 1), 6), (0, 0), (sem.Ptr("maxv", 0, 1), 0)):
                    n += 1
                    heap0 = {("b", bo["capacity"]): 8, ("b", bo["num_pages"]): 2,
                             ("b", bo["null_counts"]): sem.Ptr("nc", 0, 8), ("b", bo["min_values"]): sem.Ptr("mins", 0, 8),
                             ("b", bo["min_value_lens"]): sem.Ptr("minl", 0, 4), ("b", bo["max_values"]): sem.Ptr("maxs", 0, 8),
                             ("b", bo["max_value_lens"]): sem.Ptr("maxl", 0, 4), ("b", bo["null_pages"]): sem.Ptr("np", 0, 1)}
                    km = [0]

                    def malloc(ev, a, it):
                        km[0] += 1
                        return sem.Ptr("copy%d" % km[0], 0, 1)
                    ret, ev, heap = sem.run(P, f, [sem.Ptr("b", 0, 1), 17, minp, minl, maxp, maxl, isnull], heap0=heap0, single=True,
                                            max_forks=64, hooks={"malloc": malloc, "realloc": lambda ev, a, it: a[0],
                                                                 "memcpy": lambda ev, a, it: ev.append(("copy", getattr(a[1], "base", a[1]), a[2])) or a[0],
                                                                 "free": lambda ev, a, it: None})
                    sc = "is_null_page=%d, min %s/%d, max %s/%d" % (isnull, "given" if minp != 0 else "NULL", minl, "given" if maxp != 0 else "NULL", maxl)
                    got = {"null_page": heap.get(("np", 2)), "null_count": heap.get(("nc", 16)), "pages": heap.get(("b", bo["num_pages"]))}
                    want = {"null_page": isnull, "null_count": 17, "pages": 3}
                    copies = sorted(e[1:] for e in ev if e[0] == "copy")
                    wantc = sorted(([("minv", 4)] if minp != 0 and minl > 0 else []) + ([("maxv", 6)] if maxp != 0 and maxl > 0 else []))
                    if (ret != 0 or got != want or copies != wantc) and bad is None:
                        bad = "%s: returns %s, records %s (expected %s), copies %s (expected %s)" % (sc, ret, got, want, copies, wantc)
        ctx.ob("R5.agree", key, P.where(f.body),
               "add_page stores the caller's is_null_page flag and null count for the page and copies exactly the non-empty bounds it was given "
               "(%d argument shapes, abstract execution)" % n, bad is None, bad or "")
    except (sem.Inconclusive, KeyError) as ex:
        ctx.inconclusive("R5.agree", key, P.where(f.body), "abstract execution of add_page", "%s: %s" % (type(ex).__name__, ex))


def _row_group_matches(ctx, f):
    """carquet_reader_row_group_matches, executed abstractly with real integer statistics: the statistics
    lookup is hooked to hand out [min, max] (values the comparators then read through their pointers),
    the schema says INT32 / INT64, and the probe value, the bounds and the operator range over a grid.
    Whenever some x in [min, max] satisfies `x op value` the group must be reported as a possible match.
    How the comparisons are organised (locals, a helper returning a struct, a table of comparators) is
    immaterial."""
    from ..rules import sem
    P = ctx.P
    ops = P.enum("carquet_compare_op")
    phys = P.enum("carquet_physical_type")
    so = sem.field_offsets(P, "carquet_column_statistics")
    ro = sem.field_offsets(P, "carquet_reader")
    sc = sem.field_offsets(P, "carquet_schema")
    eo = sem.field_offsets(P, "parquet_schema_element")
    esz = P.record("parquet_schema_element")["size"]
    pn = [p_["n"] for p_ in f.params]
    if "op" not in pn or "might_match" not in pn:
        raise AnalysisBroken("row_group_matches: parameters op / might_match not found")
    truth = {"CARQUET_COMPARE_EQ": lambda lo, hi, v: lo <= v <= hi, "CARQUET_COMPARE_NE": lambda lo, hi, v: not (lo == hi == v),
             "CARQUET_COMPARE_LT": lambda lo, hi, v: lo < v, "CARQUET_COMPARE_LE": lambda lo, hi, v: lo <= v,
             "CARQUET_COMPARE_GT": lambda lo, hi, v: hi > v, "CARQUET_COMPARE_GE": lambda lo, hi, v: hi >= v}

    def run_(op, tname, lo, hi, v, have=1, status=0):
        vals = {"val": v, "min": lo, "max": hi}

        def stats(ev, a, it):
            st = a[3]
            if isinstance(st, sem.Ptr) and status == 0:
                it.heap[(st.base, st.off + so["has_min_max"])] = have
                it.heap[(st.base, st.off + so["min_value"])] = sem.Ptr("min", 0, 1)
                it.heap[(st.base, st.off + so["max_value"])] = sem.Ptr("max", 0, 1)
                it.heap[(st.base, st.off + so["min_value_size"])] = 8 if "64" in tname else 4
                it.heap[(st.base, st.off + so["max_value_size"])] = 8 if "64" in tname else 4
            return status
        heap0 = {("rd", ro["schema"]): sem.Ptr("sch", 0, 1), ("sch", sc["leaf_indices"]): sem.Ptr("li", 0, 4),
                 ("sch", sc["elements"]): sem.Ptr("els", 0, esz), ("li", 8): 3,
                 ("els", 3 * esz + eo["has_type"]): 1, ("els", 3 * esz + eo["type"]): phys[tname]}
        args = []
        for p_ in f.params:
            if p_["n"] == "op":
                args.append(op)
            elif p_["n"] == "might_match":
                args.append(sem.Ptr("mm", 0, 1))
            elif p_["n"] == "value":
                args.append(sem.Ptr("val", 0, 1))
            elif p_["n"] == "reader":
                args.append(sem.Ptr("rd", 0, 1))
            elif p_["n"] == "column_index":
                args.append(2)
            elif "size" in p_["n"]:
                args.append(8 if "64" in tname else 4)
            else:
                args.append(0)
        ret, ev, heap = sem.run(P, f, args, heap0=heap0, single=True, max_forks=64, hooks={"carquet_reader_column_statistics": stats},
                                memory=lambda base, off, size: vals.get(base) if off == 0 else None)
        return ret, heap.get(("mm", 0))
    cells = 0
    for opname in sorted(truth):
        if opname not in ops:
            raise AnalysisBroken("operator %s not in carquet_compare_op" % opname)
        key = "optable|%s:%s|%s" % (RS, f.name, opname)
        bad = None
        unset = None
        try:
            for tname in ("CARQUET_PHYSICAL_INT32", "CARQUET_PHYSICAL_INT64"):
                for lo in (-3, 0, 5):
                    for hi in (-3, 0, 5):
                        if lo > hi:
                            continue
                        for v in (-4, -3, -1, 0, 2, 5, 6):
                            cells += 1
                            ret, mm = run_(ops[opname], tname, lo, hi, v)
                            if mm is None:
                                unset = unset or "min %d max %d value %d (%s)" % (lo, hi, v, tname)
                            elif not isinstance(mm, int):
                                raise sem.Inconclusive("might_match is %r for min %d max %d value %d" % (mm, lo, hi, v))
                            elif truth[opname](lo, hi, v) and mm == 0 and bad is None:
                                bad = "%s, statistics [%d, %d], probe %d: some x in the range satisfies `x %s %d`, yet the group is reported as no match" % (
                                    tname.replace("CARQUET_PHYSICAL_", ""), lo, hi, v, opname.replace("CARQUET_COMPARE_", ""), v)
            ctx.ob("R5.optable", key, P.where(f.body),
                   "%s: a row group whose [min, max] contains a matching value is never pruned (INT32 / INT64, %d bound and probe combinations, "
                   "abstract execution with real comparators)" % (opname, cells), bad is None, bad or "")
            ctx.ob("R6.default", "default-true|%s:%s|%s" % (RS, f.name, opname), P.where(f.body),
                   "*might_match is assigned on every path (never left to the caller's initial value)", unset is None,
                   "unassigned for " + unset if unset else "")
        except (sem.Inconclusive, KeyError) as ex:
            ctx.inconclusive("R5.optable", key, P.where(f.body), "abstract execution of the pruning decision", "%s: %s" % (type(ex).__name__, ex))
    ctx.floor("C16 operator table cells", cells, 300)
    try:
        bad_err = None
        bad_nostat = None
        for opname in sorted(truth):
            ret, mm = run_(ops[opname], "CARQUET_PHYSICAL_INT32", 0, 0, 99, status=7)
            if mm == 0 or ret != 7:
                bad_err = bad_err or "%s: returns %s with might_match %s" % (opname, ret, mm)
            ret, mm = run_(ops[opname], "CARQUET_PHYSICAL_INT32", 0, 0, 99, have=0)
            if mm != 1 or ret != 0:
                bad_nostat = bad_nostat or "%s: returns %s with might_match %s" % (opname, ret, mm)
        ctx.ob("R6.default", "stats-error-match|%s:%s" % (RS, f.name), P.where(f.body),
               "when the statistics lookup fails its status is returned and the group is not reported as `no match`", bad_err is None, bad_err or "")
        ctx.ob("R6.default", "no-stats-match|%s:%s" % (RS, f.name), P.where(f.body),
               "without min/max statistics the group is a possible match", bad_nostat is None, bad_nostat or "")
    except (sem.Inconclusive, KeyError) as ex:
        ctx.inconclusive("R6.default", "stats-error-match|%s:%s" % (RS, f.name), P.where(f.body), "abstract execution", "%s: %s" % (type(ex).__name__, ex))


def _len_bounded(P, fn, site, n_, cap, depth):
    """Is the length expression n_ (of fn, used at node `site`) bounded by `cap` there?  Returns
    (bounded, reachable_on_the_too_long_edge, explanation suffix). A comparison of the length with a
    constant <= cap must decide an edge in a block dominating the site; when the length is a parameter of
    a static helper that never changes it, the question is asked at every call site instead."""
    from ..rules.flow import find_path_avoiding
    if n_.cv is not None and cap is not None:
        return n_.cv <= cap, False, ""
    ln = src(n_)
    lnd = n_.strip_casts().get("d") if n_.strip_casts().k == "DeclRefExpr" else None
    cz_ = Canon(fn)
    okb = False
    reach = True
    c = site
    for B in fn.cfg.blocks.values():
        leaf = B.cond
        if leaf is None or leaf.k != "BinaryOperator" or leaf.op not in (">", ">=", "<", "<="):
            continue
        if len([s_ for s_ in B.succs if s_ is not None]) != 2:
            continue
        sides = [leaf.c[0].strip_casts(), leaf.c[1].strip_casts()]
        is_len = [(x.k == "DeclRefExpr" and lnd is not None and x.get("d") == lnd) or src(x) == ln for x in sides]
        if is_len[0] == is_len[1]:
            continue
        other = leaf.c[1] if is_len[0] else leaf.c[0]
        k_ = other.cv
        if k_ is None:
            t_ = fold(cz_(other))
            k_ = t_[1] if isinstance(t_, tuple) and t_[0] == "int" else None
        if k_ is None or cap is None:
            continue
        op_ = leaf.op if is_len[0] else {">": "<", "<": ">", ">=": "<=", "<=": ">="}[leaf.op]
        # the edge on which `len` may exceed the capacity
        if op_ == ">" and k_ <= cap or op_ == ">=" and k_ <= cap + 1:
            long_succ = 0
        elif op_ == "<=" and k_ <= cap or op_ == "<" and k_ <= cap + 1:
            long_succ = 1
        else:
            continue
        w_ = fn.cfg.where()
        if c.i not in w_:
            continue
        cb = w_[c.i][0]
        dom = fn.cfg.dominators()
        if not (cb in dom and B.id in dom[cb]) and cb != B.id:
            continue
        okb = True
        stop_ids = set()
        for a_ in c.ancestors():
            if a_.k in ("ForStmt", "WhileStmt", "DoStmt"):
                for part in a_.c[:-1]:
                    if part is not None:
                        stop_ids |= set(y.i for y in part.walk())
                break
        pth = find_path_avoiding(fn.cfg, lambda e: e.i in stop_ids, lambda e: e is c, None, (B.succs[long_succ], 0))
        if pth is None:
            reach = False
    if okb:
        return okb, reach, ""
    # the length is a parameter this static helper never changes: decided at its call sites
    x = n_.strip_casts()
    if depth > 0 and fn.static and x.k == "DeclRefExpr" and x.get("dk") == "param":
        names = [q["n"] for q in fn.params]
        written = any((is_assign(n) or (n.k == "UnaryOperator" and n.op in ("++", "--", "&"))) and
                      n.c[0].strip_casts().k == "DeclRefExpr" and n.c[0].strip_casts().get("d") == x.get("d") and
                      n.c[0].strip_casts().get("dk") == "param" for n in fn.body.walk())
        sites = [(g, cc) for g in P.functions.values() if g.file == fn.file and g.cfg is not None for cc in g.calls() if cc.callee == fn.name]
        refs = sum(1 for g in P.functions.values() if g.file == fn.file for r in g.body.walk()
                   if r.k == "DeclRefExpr" and r.name == fn.name and r.get("dk") not in ("local", "param"))
        if not written and sites and refs <= len(sites) and x.name in names:
            pi = names.index(x.name)
            allok, anyreach = True, False
            for g, cc in sites:
                if pi >= len(cc.args()):
                    return False, True, ""
                o, r, _v = _len_bounded(P, g, cc, cc.args()[pi], cap, depth - 1)
                allok = allok and o
                anyreach = anyreach or (o and r)
            return allok, anyreach, " (the length is parameter %d of %s: decided at its %d call site(s))" % (pi, fn.name, len(sites))
    return False, True, ""


def _builder_copies(ctx):
    """The statistics builder's two feeding entry points, executed abstractly over physical types x type
    lengths x value lengths (incl. zero, the capacity, one more, huge, negative) x bounds already present
    or not, with the comparisons left unknown: every memcpy into the builder's min/max arrays fits the
    array, and a value is stored whole or not at all (a truncated maximum is not an upper bound)."""
    from ..rules import sem
    P = ctx.P
    bo = sem.field_offsets(P, "carquet_statistics_builder")
    rec = P.record("carquet_statistics_builder")
    caps = {}
    for f_ in rec["fields"]:
        if f_["n"] in ("min_value", "max_value"):
            m_ = re.search(r"\[(\d+)\]", f_["t"])
            caps[f_["n"]] = int(m_.group(1)) if m_ else None
    if not caps.get("min_value") or not caps.get("max_value"):
        raise AnalysisBroken("statistics builder: min_value / max_value arrays not found")
    phys = P.enum("carquet_physical_type")
    n = 0
    for fname in ("carquet_statistics_add_values", "carquet_statistics_add_byte_arrays"):
        f = P.fn(fname, MS)
        bad = None
        unknown = None
        try:
            for tname, tv in sorted(phys.items(), key=lambda kv: kv[1]):
                for tl in ((-1, 0, 1, 12, 256, 257, 100000) if "FIXED" in tname else (0,)):
                    for vlen in ((0, 1, 255, 256, 257, 0x7FFFFFFF, -5) if fname.endswith("byte_arrays") else (0,)):
                        for have in (0, 1):
                            n += 1
                            heap0 = {("b", bo["type"]): tv, ("b", bo["type_length"]): tl, ("b", bo["has_min"]): have, ("b", bo["has_max"]): have,
                                     ("b", bo["min_len"]): 3, ("b", bo["max_len"]): 3, ("b", bo["null_count"]): 0, ("b", bo["num_values"]): 0,
                                     ("b", bo.get("min_max_unbounded", -1)): 0, ("vals", 0): sem.Ptr("str", 0, 1), ("vals", 8): vlen}
                            hooks = {"memcpy": lambda ev, a, it: ev.append(("copy", (a[0].base, a[0].off) if isinstance(a[0], sem.Ptr) else a[0], a[2])) or a[0],
                                     "memcmp": lambda ev, a, it: sem.U}
                            paths = sem.run(P, f, [sem.Ptr("b", 0, 1), sem.Ptr("vals", 0, 1), 1], heap0=heap0, hooks=hooks,
                                            single=False, max_forks=256, budget=400000)
                            sc = "%s, type_length %d%s, bounds %s" % (tname.replace("CARQUET_PHYSICAL_", ""), tl,
                                                                       ", value of %d bytes" % vlen if fname.endswith("byte_arrays") else "",
                                                                       "present" if have else "absent")
                            for ret, ev, heap in paths:
                                for e in ev:
                                    if e[0] != "copy" or not (isinstance(e[1], tuple) and e[1][0] == "b"):
                                        continue
                                    for arr in ("min_value", "max_value"):
                                        lo = bo[arr]
                                        if lo <= e[1][1] < lo + caps[arr]:
                                            if not isinstance(e[2], int):
                                                unknown = unknown or "%s: copy of %s bytes into %s" % (sc, e[2], arr)
                                            elif e[2] < 0 or e[1][1] - lo + e[2] > caps[arr]:
                                                bad = bad or "%s: memcpy of %d bytes into %s[%d]" % (sc, e[2], arr, caps[arr])
                                            elif fname.endswith("byte_arrays") and e[2] != (vlen & 0xFFFFFFFFFFFFFFFF if vlen < 0 else vlen):
                                                bad = bad or "%s: %d of the value's %d bytes are stored as %s (a truncated bound)" % (sc, e[2], vlen, arr)
            key = "minmax-copy|%s:%s" % (MS, fname)
            what = ("%s: every copy into the builder's min/max arrays fits them, and a value is stored whole or not at all "
                    "(abstract execution over types, type lengths and value lengths)" % fname)
            if bad is None and unknown is not None:
                ctx.inconclusive("R6.bounded", key, P.where(f.body), what, unknown)
            else:
                ctx.ob("R6.bounded", key, P.where(f.body), what, bad is None, bad or "")
        except (sem.Inconclusive, KeyError) as ex:
            ctx.inconclusive("R6.bounded", "minmax-copy|%s:%s" % (MS, fname), P.where(f.body), "abstract execution of %s" % fname,
                             "%s: %s" % (type(ex).__name__, ex))
    return n // 10


def _interval_semantic(ctx):
    """carquet_statistics_compare, carquet_statistics_range_overlaps and
    carquet_column_index_page_might_match, executed abstractly with real INT32 / INT64 bounds (read
    through their pointers by the repo's own comparators): a probe inside the stored range is never
    reported out of range, a query range that meets the stored range is never reported disjoint, absent
    bounds never exclude anything."""
    from ..rules import sem
    P = ctx.P
    phys = P.enum("carquet_physical_type")
    so = sem.field_offsets(P, "parquet_statistics")
    io = sem.field_offsets(P, "carquet_column_index_builder")
    G = (-3, 0, 5)
    Q = (-4, -3, -1, 0, 2, 5, 6)

    def mem(vals):
        return lambda base, off, size: vals.get(base) if off == 0 else None

    def stats_heap(width, have_min=True, have_max=True):
        h = {("st", so["min_value"]): sem.Ptr("smin", 0, 1) if have_min else 0, ("st", so["min_value_len"]): width if have_min else 0,
             ("st", so["max_value"]): sem.Ptr("smax", 0, 1) if have_max else 0, ("st", so["max_value_len"]): width if have_max else 0}
        for k_ in ("min_deprecated", "max_deprecated", "min_deprecated_len", "max_deprecated_len"):
            if k_ in so:
                h[("st", so[k_])] = 0
        return h
    # ---- compare
    f = P.fn("carquet_statistics_compare", MS)
    key = "interval|%s:%s" % (MS, f.name)
    n = 0
    try:
        bad = None
        for tname, width in (("CARQUET_PHYSICAL_INT32", 4), ("CARQUET_PHYSICAL_INT64", 8)):
            for lo in G:
                for hi in G:
                    if lo > hi:
                        continue
                    for v in Q:
                        for hm, hx in ((True, True), (False, True), (True, False), (False, False)):
                            n += 1
                            ret, ev, heap = sem.run(P, f, [sem.Ptr("st", 0, 1), phys[tname], sem.Ptr("val", 0, 1), width, sem.Ptr("res", 0, 4)],
                                                    heap0=stats_heap(width, hm, hx), single=True, max_forks=64,
                                                    memory=mem({"val": v, "smin": lo, "smax": hi}))
                            res = heap.get(("res", 0))
                            if not isinstance(res, int):
                                raise sem.Inconclusive("result is %r" % (res,))
                            below = hm and v < lo
                            above = hx and v > hi
                            if ((res < 0 and not below) or (res > 0 and not above)) and bad is None:
                                bad = "%s, stored range [%s, %s], probe %d: reported %s" % (
                                    tname.replace("CARQUET_PHYSICAL_", ""), lo if hm else "-", hi if hx else "-", v,
                                    "below the minimum" if res < 0 else "above the maximum")
        ctx.ob("R5.optable", key, P.where(f.body),
               "%s reports a probe as out of range only when it is below a present minimum / above a present maximum "
               "(%d bound x probe x presence points, real comparators)" % (f.name, n), bad is None, bad or "")
    except (sem.Inconclusive, KeyError) as ex:
        ctx.inconclusive("R5.optable", key, P.where(f.body), "abstract execution of %s" % f.name, "%s: %s" % (type(ex).__name__, ex))
    # ---- range_overlaps and page_might_match
    for fname, file_ in (("carquet_statistics_range_overlaps", MS), ("carquet_column_index_page_might_match", PI)):
        f = P.fn(fname, file_)
        key = "interval|%s:%s" % (file_, fname)
        try:
            bad = None
            m = 0
            for tname, width in (("CARQUET_PHYSICAL_INT32", 4), ("CARQUET_PHYSICAL_INT64", 8)):
                for lo in G:
                    for hi in G:
                        if lo > hi:
                            continue
                        for qlo in Q + (None,):
                            for qhi in Q + (None,):
                                if qlo is not None and qhi is not None and qlo > qhi:
                                    continue
                                m += 1
                                vals = {"smin": lo, "smax": hi, "qmin": qlo, "qmax": qhi}
                                pmin = sem.Ptr("qmin", 0, 1) if qlo is not None else 0
                                pmax = sem.Ptr("qmax", 0, 1) if qhi is not None else 0
                                if file_ == MS:
                                    args = [sem.Ptr("st", 0, 1), phys[tname], pmin, pmax, width, sem.Ptr("res", 0, 1)]
                                    heap0 = stats_heap(width)
                                else:
                                    args = [sem.Ptr("b", 0, 1), 1, pmin, pmax, width, sem.Ptr("res", 0, 1)]
                                    heap0 = {("b", io["type"]): phys[tname], ("b", io["num_pages"]): 3,
                                             ("b", io["null_pages"]): sem.Ptr("np", 0, 1), ("np", 1): 0,
                                             ("b", io["min_values"]): sem.Ptr("mins", 0, 8), ("mins", 8): sem.Ptr("smin", 0, 1),
                                             ("b", io["max_values"]): sem.Ptr("maxs", 0, 8), ("maxs", 8): sem.Ptr("smax", 0, 1),
                                             ("b", io["min_value_lens"]): sem.Ptr("minl", 0, 4), ("minl", 4): width,
                                             ("b", io["max_value_lens"]): sem.Ptr("maxl", 0, 4), ("maxl", 4): width}
                                ret, ev, heap = sem.run(P, f, args, heap0=heap0, single=True, max_forks=64, memory=mem(vals))
                                res = heap.get(("res", 0))
                                if not isinstance(res, int):
                                    raise sem.Inconclusive("answer is %r" % (res,))
                                meets = (qhi is None or qhi >= lo) and (qlo is None or qlo <= hi)
                                if meets and res == 0 and bad is None:
                                    bad = "%s, stored range [%d, %d], query [%s, %s]: the ranges meet, yet the answer is `no`" % (
                                        tname.replace("CARQUET_PHYSICAL_", ""), lo, hi, "-inf" if qlo is None else qlo, "+inf" if qhi is None else qhi)
            ctx.ob("R5.optable", key, P.where(f.body),
                   "%s never answers `no` for a query range that meets the stored one (%d stored x query ranges, open ends included, "
                   "real comparators)" % (fname, m), bad is None, bad or "")
        except (sem.Inconclusive, KeyError) as ex:
            ctx.inconclusive("R5.optable", key, P.where(f.body), "abstract execution of %s" % fname, "%s: %s" % (type(ex).__name__, ex))


def _comparator_tables(ctx):
    """Which comparator orders the values of each physical type, in every function that compares a probe
    with stored bounds: the functions are executed abstractly once per type with bounds present and the
    named comparators (compare_int32, ..., compare_byte_array, memcmp) hooked; the comparators reached are
    the table - switch, if-chain, lookup table of function pointers or a helper, it does not matter."""
    from ..rules import sem
    P = ctx.P
    phys = P.enum("carquet_physical_type")
    so = sem.field_offsets(P, "parquet_statistics")
    bo = sem.field_offsets(P, "carquet_statistics_builder")
    cso = sem.field_offsets(P, "carquet_column_statistics")
    ro = sem.field_offsets(P, "carquet_reader")
    sc = sem.field_offsets(P, "carquet_schema")
    eo = sem.field_offsets(P, "parquet_schema_element")
    esz = P.record("parquet_schema_element")["size"]
    ops = P.enum("carquet_compare_op")

    def hooks_():
        h = {}
        for nm, kind in KIND.items():
            h[nm] = (lambda ev, a, it, kind=kind: ev.append(kind) or 0)
        return h
    sth = {("st", so["min_value"]): sem.Ptr("smin", 0, 1), ("st", so["min_value_len"]): 8,
           ("st", so["max_value"]): sem.Ptr("smax", 0, 1), ("st", so["max_value_len"]): 8}
    for k_ in ("min_deprecated", "max_deprecated", "min_deprecated_len", "max_deprecated_len"):
        if k_ in so:
            sth[("st", so[k_])] = 0

    def stats_hook(ev, a, it):
        st = a[3]
        if isinstance(st, sem.Ptr):
            it.heap[(st.base, st.off + cso["has_min_max"])] = 1
            it.heap[(st.base, st.off + cso["min_value"])] = sem.Ptr("smin", 0, 1)
            it.heap[(st.base, st.off + cso["max_value"])] = sem.Ptr("smax", 0, 1)
            it.heap[(st.base, st.off + cso["min_value_size"])] = 8
            it.heap[(st.base, st.off + cso["max_value_size"])] = 8
        return 0
    runs = []
    f1 = P.fn("carquet_statistics_compare", MS)
    runs.append((f1, MS, lambda tv: ([sem.Ptr("st", 0, 1), tv, sem.Ptr("val", 0, 1), 8, sem.Ptr("res", 0, 4)], dict(sth), {})))
    f2 = P.fn("carquet_statistics_range_overlaps", MS)
    runs.append((f2, MS, lambda tv: ([sem.Ptr("st", 0, 1), tv, sem.Ptr("qmin", 0, 1), sem.Ptr("qmax", 0, 1), 8, sem.Ptr("res", 0, 1)], dict(sth), {})))
    f3 = P.fn("carquet_statistics_add_values", MS)
    runs.append((f3, MS, lambda tv: ([sem.Ptr("b", 0, 1), sem.Ptr("vals", 0, 1), 1],
                                     {("b", bo["type"]): tv, ("b", bo["type_length"]): 8, ("b", bo["has_min"]): 1, ("b", bo["has_max"]): 1,
                                      ("b", bo["min_len"]): 8, ("b", bo["max_len"]): 8, ("b", bo["null_count"]): 0, ("b", bo["num_values"]): 0,
                                      ("b", bo.get("min_max_unbounded", -1)): 0}, {"memcpy": lambda ev, a, it: a[0]})))
    f4 = P.fn("carquet_reader_row_group_matches", RS)
    pn4 = [p_["n"] for p_ in f4.params]

    def args4(tv):
        heap0 = {("rd", ro["schema"]): sem.Ptr("sch", 0, 1), ("sch", sc["leaf_indices"]): sem.Ptr("li", 0, 4),
                 ("sch", sc["elements"]): sem.Ptr("els", 0, esz), ("li", 8): 3,
                 ("els", 3 * esz + eo["has_type"]): 1, ("els", 3 * esz + eo["type"]): tv}
        args = []
        for p_ in f4.params:
            args.append({"op": ops["CARQUET_COMPARE_EQ"], "might_match": sem.Ptr("mm", 0, 1), "value": sem.Ptr("val", 0, 1),
                         "reader": sem.Ptr("rd", 0, 1), "column_index": 2}.get(p_["n"], 8 if "size" in p_["n"] else 0))
        return args, heap0, {"carquet_reader_column_statistics": stats_hook}
    runs.append((f4, RS, args4))
    n = 0
    for f, file_, mk in runs:
        for tname, want in TYPED.items():
            key = "cmp-table|%s:%s|%s" % (file_, f.name, tname)
            if f is f4 and tname in ("CARQUET_PHYSICAL_BOOLEAN", "CARQUET_PHYSICAL_INT96"):
                ctx.suppressed("R5.siblings", key, P.where(f.body), "%s comparator in the reader" % tname,
                               "outside the reader API's quantified types {INT32,INT64,FLOAT,DOUBLE,BYTE_ARRAY,FLBA}")
                continue
            args, heap0, extra = mk(phys[tname])
            h = hooks_()
            h.update(extra)
            try:
                paths = sem.run(P, f, args, heap0=heap0, hooks=h, single=False, max_forks=256, budget=400000)
            except sem.Inconclusive as ex:
                ctx.inconclusive("R5.siblings", key, P.where(f.body), "abstract execution of %s" % f.name, str(ex))
                continue
            n += 1
            kinds = set(e for ret, ev, heap in paths for e in ev if isinstance(e, str))
            refused = not kinds and all(isinstance(ret, int) and ret != 0 for ret, ev, heap in paths)
            ctx.ob("R5.siblings", key, P.where(f.body),
                   "%s is ordered by the %s comparator in %s, or the type is refused (abstract execution, comparators hooked)" % (tname, want, f.name),
                   kinds == {want} or refused, "reaches %s" % sorted(kinds))
    ctx.floor("C16 comparator table rows", n, 24)


def _every_value_counts(ctx):
    """The builder's feeding functions followed by carquet_statistics_build, executed abstractly with the
    comparators hooked to answer <, = or >: a value below the minimum replaces it, one above the maximum
    replaces that, the first value becomes both; and a value too long to be stored leaves a builder from
    which build() publishes no bounds at all (bounds that would not cover that value)."""
    from ..rules import sem
    P = ctx.P
    bo = sem.field_offsets(P, "carquet_statistics_builder")
    so = sem.field_offsets(P, "parquet_statistics")
    rec = P.record("carquet_statistics_builder")
    cap = None
    for f_ in rec["fields"]:
        if f_["n"] == "max_value":
            m_ = re.search(r"\[(\d+)\]", f_["t"])
            cap = int(m_.group(1)) if m_ else None
    if not cap:
        raise AnalysisBroken("statistics builder: max_value array not found")
    phys = P.enum("carquet_physical_type")
    build = P.fn("carquet_statistics_build", MS)
    bsz = rec["size"]
    for fname, cases in (("carquet_statistics_add_values", [("CARQUET_PHYSICAL_INT32", 4, None), ("CARQUET_PHYSICAL_INT64", 8, None),
                                                           ("CARQUET_PHYSICAL_DOUBLE", 8, None), ("CARQUET_PHYSICAL_FIXED_LEN_BYTE_ARRAY", 7, None)]),
                         ("carquet_statistics_add_byte_arrays", [("CARQUET_PHYSICAL_BYTE_ARRAY", 0, L) for L in (5, cap, cap + 1, 100000, 0x7FFFFFFF)])):
        f = P.fn(fname, MS)
        key = "every-value-counts|%s:%s" % (MS, fname)
        bad = None
        n = 0
        try:
            for tname, width, L in cases:
                vlen = L if L is not None else width
                for have in (0, 1):
                    for r in (-1, 0, 1):
                        n += 1
                        heap0 = {("b", bo["type"]): phys[tname], ("b", bo["type_length"]): width, ("b", bo["has_min"]): have, ("b", bo["has_max"]): have,
                                 ("b", bo["min_len"]): 3 if have else 0, ("b", bo["max_len"]): 3 if have else 0, ("b", bo["null_count"]): 0,
                                 ("b", bo["num_values"]): 0, ("b", bo["distinct_count"]): 0,
                                 ("vals", 0): sem.Ptr("str", 0, 1), ("vals", 8): vlen}
                        if "min_max_unbounded" in bo:
                            heap0[("b", bo["min_max_unbounded"])] = 0
                        hooks = {nm: (lambda ev, a, it, r=r: ev.append("cmp") or r) for nm in KIND}
                        hooks["memcpy"] = lambda ev, a, it: ev.append(("copy", (a[0].base, a[0].off) if isinstance(a[0], sem.Ptr) else a[0], a[2])) or a[0]
                        ret, ev, heap = sem.run(P, f, [sem.Ptr("b", 0, 1), sem.Ptr("vals", 0, 1), 1], heap0=heap0, hooks=hooks, single=True, max_forks=64)
                        sc = "%s%s, bounds %s, the value compares %s" % (tname.replace("CARQUET_PHYSICAL_", ""), ", %d bytes" % L if L is not None else "",
                                                                       "present" if have else "absent", {-1: "below", 0: "equal", 1: "above"}[r])
                        if ret != 0:
                            continue            # the value was refused outright: the caller knows
                        tomin = [e for e in ev if e[0] == "copy" and isinstance(e[1], tuple) and e[1][0] == "b" and bo["min_value"] <= e[1][1] < bo["min_value"] + cap]
                        tomax = [e for e in ev if e[0] == "copy" and isinstance(e[1], tuple) and e[1][0] == "b" and bo["max_value"] <= e[1][1] < bo["max_value"] + cap]
                        if vlen <= cap:
                            wmin = (not have) or r < 0
                            wmax = (not have) or r > 0
                            if (bool(tomin) != wmin or bool(tomax) != wmax) and bad is None:
                                bad = "%s: minimum %s, maximum %s (expected %s / %s)" % (
                                    sc, "replaced" if tomin else "kept", "replaced" if tomax else "kept",
                                    "replaced" if wmin else "kept", "replaced" if wmax else "kept")
                            continue
                        # the value cannot be stored: what does build() publish from this builder?
                        h2 = {k_: v_ for k_, v_ in heap.items() if k_[0] == "b"}
                        if not have:
                            h2[("b", bo["has_min"])] = heap.get(("b", bo["has_min"]), 0)
                        r2, ev2, heap2 = sem.run(P, build, [sem.Ptr("b", 0, 1), 0, sem.Ptr("out", 0, 1)], heap0=h2, single=True, max_forks=64, hooks={
                            "memset": lambda ev, a, it: a[0], "malloc": lambda ev, a, it: sem.Ptr("dup", 0, 1), "memcpy": lambda ev, a, it: a[0],
                            "carquet_arena_memdup": lambda ev, a, it: sem.Ptr("dup", 0, 1)})
                        pub = [k_ for k_ in ("min_value", "max_value") if isinstance(heap2.get(("out", so[k_])), sem.Ptr)]
                        if pub and bad is None:
                            bad = "%s: the value is too long to keep, yet build() still publishes %s - bounds that may not cover it" % (sc, " and ".join(pub))
            ctx.ob("R6.must-pass", key, P.where(f.body),
                   "%s: a value below / above the bounds replaces them, the first value becomes both, and after a value too long to keep "
                   "build() publishes no bounds (%d scenarios, abstract execution with hooked comparators)" % (fname, n), bad is None, bad or "")
        except (sem.Inconclusive, KeyError) as ex:
            ctx.inconclusive("R6.must-pass", key, P.where(f.body), "abstract execution of %s" % fname, "%s: %s" % (type(ex).__name__, ex))


def _byte_comparators(ctx):
    """Every (pointer, length, pointer, length) -> int comparator of the statistics code that rests on memcmp, executed on
    concrete byte strings - equal, different at some byte, one a proper prefix of the other, and the empty string against a
    non-empty one: the sign is the lexicographic order in which a proper prefix (the empty string included) sorts first.
    The row-group and page predicates read min / max of BYTE_ARRAY columns through these."""
    from ..rules import sem
    from ..rules.skeleton import Ptr
    P = ctx.P
    n = 0
    S = lambda t: [ord(c) for c in t]
    pairs = [("", ""), ("", "a"), ("a", ""), ("ab", "ab"), ("ab", "abc"), ("abc", "ab"), ("ab", "ac"), ("b", "ab"), ("", "zz"), ("zz", "")]
    for file_ in ("src/reader/statistics.c", "src/metadata/statistics.c", "src/metadata/page_index.c"):
        for fn in P.funcs_in(file_):
            if fn.body is None or len(fn.params) != 4 or (fn.ret or "").strip() != "int":
                continue
            ts = [q.get("t") or "" for q in fn.params]
            if not ("*" in ts[0] and "*" not in ts[1] and "*" in ts[2] and "*" not in ts[3]):
                continue
            if not any(c.callee in ("memcmp", "__builtin_memcmp") for c in fn.calls()):
                continue
            key = "byte-comparator|%s:%s" % (file_, fn.name)
            what = "%s orders byte strings lexicographically with a proper prefix - the empty string included - first" % fn.name
            bad, done = None, 0
            try:
                for a, b in pairs:
                    heap0 = {("a", i): c for i, c in enumerate(S(a) + [0x7E])}
                    heap0.update({("b", i): c for i, c in enumerate(S(b) + [0x21])})
                    ret, ev, heap = sem.run(P, fn, [Ptr("a", 0, 1), len(a), Ptr("b", 0, 1), len(b)], heap0=heap0, hooks={}, single=True, max_forks=8, budget=20000)
                    done += 1
                    if not isinstance(ret, int):
                        raise sem.Inconclusive("returns %r for (%r, %r)" % (ret, a, b))
                    want = (a > b) - (a < b)
                    got = (ret > 0) - (ret < 0)
                    if bad is None and got != want:
                        bad = "%r against %r: returns %d, the order is %s" % (a, b, ret, {-1: "less", 0: "equal", 1: "greater"}[want])
            except (sem.Inconclusive, KeyError) as ex:
                if bad:
                    ctx.ob("R5.optable", key, P.where(fn.body), what, False, bad)
                else:
                    ctx.inconclusive("R5.optable", key, P.where(fn.body), what, "%s: %s" % (type(ex).__name__, ex))
                continue
            n += 1
            ctx.ob("R5.optable", key, P.where(fn.body), what + " (%d pairs)" % done, bad is None, bad or "")
    return n
