"""C13 - Thrift metadata: writer/parser/specification table agreement + compact protocol shape."""
import re

from ..canon import Canon, show, subtrees
from ..extract import AnalysisBroken
from ..facts import src
from ..rules import thrift_tables as tt
from ..rules.flow import find_path_avoiding, describe_path
from ..spec_parquet import THRIFT, LIST_ELEM, NESTED, COMPACT_TYPES
from ..util import switch_table, find_switches, is_assign

EXPLANATION = (
    "Static decision of table clauses of C13: the Thrift struct grammars written by "
    "src/thrift/parquet_types.c (and the page-index writers) and parsed by its parsers are extracted from "
    "the resolved AST (ordered thrift_write_* call sequences; field loops with their switch/if dispatch) "
    "and compared field by field (id, wire type, struct member, presence flag, list element type, nested "
    "struct) with each other and with a frozen parquet.thrift table; every parser loop skips unknown "
    "fields with the field's own type and thrift_skip has an arm for all 13 compact wire types; struct "
    "begin/end are balanced on every non-error path; the field-id delta state (last_field_id) is updated "
    "on every path of both header codecs; the four header codecs (field and list header, encoder and "
    "decoder) are executed abstractly over their whole input space (all 256 header bytes, id deltas "
    "-20..40, counts -4..64) and must produce/accept exactly the compact-protocol short and long forms; the "
    "map header codecs likewise (an empty map is one byte and its reader consumes no types byte); "
    "every field header is read/written inside a field-id frame (helpers are followed to their callers); "
    "field helpers and nested-struct helpers are expanded into the struct-level writer/parser before "
    "comparison; integers go through zigzag on both sides. The LogicalType union is decided by abstract "
    "execution: parse_logical_type run once per union field id 1..17 and write_logical_type once per "
    "logical type id, Thrift primitives hooked - the field id <-> logical type id tables of both are the "
    "specification's (ids agree up to 8 and differ above, 9 is reserved) and each other's inverse. A "
    "`return` guarded by a failed error predicate (a static bool helper whose every false return records "
    "a decoder error) is an error exit of the balance rule. A binary field written from a (pointer member, "
    "length member) pair uses the length member that the parser fills for the same pointer member. Round trip (7): a "
    "fully populated FileMetaData / data page header / dictionary page header is laid out abstractly (a unique "
    "marker per scalar member, every presence flag set, lists of two, a named block per string), the public "
    "writer is executed with the encoder primitives hooked, the tree of (field id, wire type, value) it emits is "
    "replayed into the public parser executed with the decoder primitives hooked, and every member the writer "
    "serialised must come back in the same member - independent of how writer and parser are organised. (8) thrift_write_varint / thrift_read_varint are LEB128 and thrift_write_binary writes LEB128(length) followed by exactly that many bytes, for values and lengths on either side of every 7-bit boundary (R38); the FileMetaData round-trip probe is repeated with every string empty (a zero-length string comes back as a string, not as absent). (9) the two string readers (arena_strdup_thrift, thrift_read_string_alloc) executed with only the lowest allocators hooked - carquet_arena_strdup / carquet_arena_strndup run as written - return a non-NULL NUL-terminated copy for every present string, the empty one included (NULL means `absent` to the writer). Decides these clauses, not value equality for "
    "extreme integers/strings.")

PT = "src/thrift/parquet_types.c"
TE = "src/thrift/thrift_encode.c"
TD = "src/thrift/thrift_decode.c"

PAIRS = [  # (writer fn, parser fn, spec struct)
    ("write_statistics", "parse_statistics", "Statistics"),
    ("write_logical_type", "parse_logical_type", "LogicalType"),
    ("write_schema_element", "parse_schema_element", "SchemaElement"),
    ("write_column_metadata", "parse_column_metadata", "ColumnMetaData"),
    ("write_column_chunk", "parse_column_chunk", "ColumnChunk"),
    ("write_row_group", "parse_row_group", "RowGroup"),
    ("parquet_write_file_metadata", "parquet_parse_file_metadata", "FileMetaData"),
    ("parquet_write_page_header", "parquet_parse_page_header", "PageHeader"),
]
REF_PAIR = {w: p for w, p, _ in PAIRS}

WIRE_OK = {  # writer wire type -> acceptable parser primitive kinds
    "I32": {"I32"}, "I64": {"I64"}, "I16": {"I16"}, "BYTE": {"BYTE"}, "BINARY": {"BINARY"},
    "BOOL": {"BOOL"}, "DOUBLE": {"DOUBLE"}, "UUID": {"UUID"},
}


def fix_shared_structs(S):
    """A struct_begin shared by an if/else chain of field headers belongs to all of them."""
    for fid, fl in S.fields.items():
        for f in fl:
            if f.value and f.value[0] == "struct":
                fix_shared_structs(f.value[1])
            if f.value and f.value[0] == "list" and f.value[2].value and f.value[2].value[0] == "struct":
                fix_shared_structs(f.value[2].value[1])
    last = None
    for fid in sorted(S.fields, reverse=True):
        for f in S.fields[fid]:
            if f.value is not None and f.value[0] == "struct":
                last = f.value
            elif f.value is None and f.wtype == "STRUCT" and last is not None:
                f.value = last


class Cmp:
    def __init__(self, ctx, wfile, pfile):
        self.ctx = ctx
        self.P = ctx.P
        self.rows = 0
        self.wfile = wfile
        self.pfile = pfile

    def compare(self, sname, W, Pst, wfn, pfn, prefix="", outer_conds=()):
        ctx, P = self.ctx, self.P
        spec = THRIFT.get(sname)
        tag = "%s%s" % (prefix, sname)
        if spec is None:
            raise AnalysisBroken("no specification table for struct " + sname)
        # parser: unknown fields are skipped with their own type
        if Pst is not None:
            ctx.ob("R5.skip-unknown", "skip-default|%s:%s|%s" % (self.pfile, pfn, tag),
                   P.where(Pst.node), "parser of %s skips unknown fields with the field's own type" % tag,
                   bool(Pst.default_skips))
        for fid in sorted(W.fields):
            for wf in W.fields[fid]:
                self.rows += 1
                key = "field|%s:%s|%s.%d" % (self.wfile, wfn, tag, fid)
                where = P.where(wf.node)
                if fid not in spec:
                    ctx.bad("R5.spec", key, where,
                            "writer emits field id %d which %s does not have in parquet.thrift" % (fid, sname))
                    continue
                stype, sfield, req = spec[fid]
                ctx.ob("R5.spec", key + "|wire", where,
                       "%s.%d (%s) written with wire type %s" % (sname, fid, sfield, stype),
                       wf.wtype == stype, "writer uses %s" % wf.wtype)
                if Pst is None:
                    continue
                pf = Pst.fields.get(fid)
                if pf is None:
                    ctx.bad("R5.agree", key + "|parsed", where,
                            "field %s.%d (%s) is written but the parser has no case for it" % (sname, fid, sfield))
                    continue
                self.match(sname, fid, sfield, wf, pf, wfn, pfn, key, where, prefix)
        # required fields are written unconditionally
        for fid, (stype, sfield, req) in spec.items():
            if not req:
                continue
            key = "required|%s:%s|%s.%d" % (self.wfile, wfn, tag, fid)
            fl = W.fields.get(fid)
            if not fl:
                ctx.bad("R5.spec", key, P.where(wfn_node(self.P, wfn)),
                        "required field %s.%d (%s) is never written" % (sname, fid, sfield))
                continue
            conds = [c for c in fl[0].conds if not c.startswith("case ") and c not in outer_conds]
            # a plain NULL test of the value itself (e.g. `elem->name`) is the only accepted condition
            v = fl[0].value
            vpath = v[2] if v and v[0] == "prim" and v[2] else None
            okc = all(vpath is not None and
                      re.fullmatch(r"[\w>\-\.\[\]]*(->|\.)" + re.escape(vpath[-1]), c) is not None
                      for c in conds)
            ctx.ob("R5.spec", key, P.where(fl[0].node),
                   "required field %s.%d (%s) is written unconditionally" % (sname, fid, sfield),
                   okc, "conditions: %s" % conds)
        # parser arms must exist in the spec with a compatible type
        if Pst is not None:
            for fid, pf in sorted(Pst.fields.items()):
                key = "parsed|%s:%s|%s.%d" % (self.pfile, pfn, tag, fid)
                if fid not in spec:
                    ctx.bad("R5.spec", key, P.where(pf.node),
                            "parser reads field id %d which %s does not have in parquet.thrift" % (fid, sname))
                    continue
                stype = spec[fid][0]
                prims = [a for a in pf.actions if a[0] == "prim" and a[2] is not None]
                for a in prims:
                    self.rows += 1
                    if stype == "LIST":
                        et = LIST_ELEM.get((sname, fid))
                        ok = a[1] == et
                        what = "list element of %s.%d read as %s" % (sname, fid, et)
                    else:
                        ok = a[1] == stype
                        what = "%s.%d (%s) read as %s" % (sname, fid, spec[fid][1], stype)
                    ctx.ob("R5.spec", key + "|wire", P.where(pf.node), what, ok, "parser uses %s" % a[3])

    def match(self, sname, fid, sfield, wf, pf, wfn, pfn, key, where, prefix):
        ctx = self.ctx
        v = wf.value
        acts = [a for a in pf.actions if not (a[0] == "tag" and a[1] and a[1][-1] == "status")]
        if v is None:
            ctx.inconclusive("R5.agree", key + "|value", where, "no value writer follows the field header")
            return
        # presence flag
        for c in wf.conds:
            for flag in _flags(c):
                has = any(a[0] == "flag" and a[1][-1] == flag for a in acts)
                ctx.ob("R5.agree", key + "|presence", where,
                       "writer conditions %s.%d on %s; the parser sets it when the field is present" % (sname, fid, flag),
                       has)
        if v[0] == "prim":
            prims = [a for a in acts if a[0] == "prim"]
            ok = any(a[1] in WIRE_OK.get(v[1], {v[1]}) and a[2] == v[2] for a in prims)
            if not ok and (v[2] is None or any(a[1] in WIRE_OK.get(v[1], {v[1]}) and a[2] is None for a in prims)
                           or (not prims and not any(a[0] == "skip" for a in acts))):
                # the value is written from / stored through something the extraction cannot name (a
                # pointer selected earlier, a helper's out-parameter): undecided, not a disagreement
                ctx.inconclusive("R5.agree", key + "|member", where,
                                 "%s.%d: the member written/stored is not a direct struct member path" % (sname, fid))
                return
            ctx.ob("R5.agree", key + "|member", where,
                   "%s.%d: writer emits %s as %s, parser stores the same member through a %s reader"
                   % (sname, fid, ".".join(v[2] or ("?",)), v[1], v[1]), ok,
                   "parser actions: %s" % [(a[1], ".".join(a[2] or ("?",))) for a in prims])
        elif v[0] == "ref":
            refs = [a for a in acts if a[0] == "ref"]
            ok = any(a[1] == REF_PAIR.get(v[1]) and a[2] == v[2] for a in refs)
            ctx.ob("R5.agree", key + "|member", where,
                   "%s.%d: nested struct written by %s is parsed by %s into the same member"
                   % (sname, fid, v[1], REF_PAIR.get(v[1])), ok, "parser actions: %s" % refs)
        elif v[0] == "struct":
            sub = NESTED.get((sname, fid))
            subs = [a[1] for a in acts if a[0] == "struct" and a[1] is not None]
            if not v[1].fields:
                # empty struct: parser may skip it, but must record the union arm
                ok = bool(subs) or any(a[0] == "skip" for a in acts)
                ctx.ob("R5.agree", key + "|member", where,
                       "%s.%d: empty struct is consumed by the parser" % (sname, fid), ok)
            elif sub is None or not subs:
                ctx.ob("R5.agree", key + "|member", where,
                       "%s.%d: inline struct has an inline parser" % (sname, fid), False,
                       "spec nested type %s, parser inline structs %d" % (sub, len(subs)))
            else:
                self.compare(sub, v[1], subs[0], wfn, pfn, prefix + "%s.%d>" % (sname, fid), tuple(wf.conds))
        elif v[0] == "list":
            et, le = v[1], v[2]
            set_ = LIST_ELEM.get((sname, fid))
            ctx.ob("R5.spec", key + "|elem", where,
                   "%s.%d: list element wire type is %s" % (sname, fid, set_), et == set_, "writer uses %s" % et)
            has_lb = any(a[0] == "listbegin" for a in acts)
            ctx.ob("R5.agree", key + "|list", where, "%s.%d: parser reads a list header" % (sname, fid), has_lb)
            ev = le.value
            if ev is None:
                ctx.inconclusive("R5.agree", key + "|elemvalue", where, "list element writer not found")
            elif ev[0] == "prim":
                ok = any(a[0] == "prim" and a[1] == ev[1] and a[2] == ev[2] for a in acts)
                ctx.ob("R5.agree", key + "|elemmember", where,
                       "%s.%d: list elements written as %s from %s are parsed into the same member"
                       % (sname, fid, ev[1], ".".join(ev[2] or ("?",))), ok)
            elif ev[0] == "ref":
                ok = any(a[0] == "ref" and a[1] == REF_PAIR.get(ev[1]) and a[2] == ev[2] for a in acts)
                ctx.ob("R5.agree", key + "|elemmember", where,
                       "%s.%d: list elements written by %s are parsed by %s" % (sname, fid, ev[1], REF_PAIR.get(ev[1])), ok)
            elif ev[0] == "struct":
                sub = NESTED.get((sname, fid))
                subs = [a[1] for a in acts if a[0] == "struct" and a[1] is not None]
                if sub and subs:
                    self.compare(sub, ev[1], subs[0], wfn, pfn, prefix + "%s.%d>" % (sname, fid), tuple(wf.conds))
                else:
                    ctx.ob("R5.agree", key + "|elemmember", where,
                           "%s.%d: inline list element struct has an inline parser" % (sname, fid), False)


def wfn_node(P, name):
    f = P.by_name.get(name)
    return f[0].body if f else None


def _flags(cond):
    import re
    return re.findall(r"\b(has_[A-Za-z0-9_]+)\b", cond)


def _eval_tree(t, params):
    """Evaluate a canonical expression tree over integer parameters {index: value}."""
    k = t[0]
    if k == "int":
        return t[1]
    if k == "param":
        if t[1] in params:
            return params[t[1]]
        raise ValueError("free parameter")
    if k == "cast":
        return _eval_tree(t[2], params)
    if k == "un":
        v = _eval_tree(t[2], params)
        return {"!": lambda x: int(not x), "-": lambda x: -x, "~": lambda x: ~x, "+": lambda x: x}[t[1]](v)
    if k == "bin":
        op = t[1]
        if op == "&&":
            return int(bool(_eval_tree(t[2], params)) and bool(_eval_tree(t[3], params)))
        if op == "||":
            return int(bool(_eval_tree(t[2], params)) or bool(_eval_tree(t[3], params)))
        a, b = _eval_tree(t[2], params), _eval_tree(t[3], params)
        import operator as o
        tab = {"<": o.lt, "<=": o.le, ">": o.gt, ">=": o.ge, "==": o.eq, "!=": o.ne, "+": o.add, "-": o.sub,
               "*": o.mul, "&": o.and_, "|": o.or_, "^": o.xor, "<<": o.lshift, ">>": o.rshift}
        if op not in tab:
            raise ValueError(op)
        return int(tab[op](a, b))
    raise ValueError(k)


_ep_cache = {}


def error_predicates(P, file_):
    """Static bool helpers of a file whose every `return false` sits with a store of a failure constant to a
    `status` member: `if (!in_bounds(dec, n, MAX)) return;` is then an error exit of the caller."""
    _ep_cache = P.__dict__.setdefault("_memo", {}).setdefault("error_predicates", {})
    if file_ in _ep_cache:
        return _ep_cache[file_]
    out = set()
    for g in P.functions.values():
        if g.file != file_ or not g.static or (g.ret or "").strip() not in ("_Bool", "bool"):
            continue
        falses = [r for r in g.returns() if r.c and r.c[0] is not None and r.c[0].cv == 0]
        if not falses:
            continue
        ok = True
        for r in falses:
            blk = r.parent
            while blk is not None and blk.k != "CompoundStmt":
                blk = blk.parent
            ok = ok and blk is not None and any(
                is_assign(x) and x.c[0].strip().k == "MemberExpr" and x.c[0].strip().name == "status" and x.c[1].cv not in (0, None)
                or (x.k == "CallExpr" and x.callee == "set_error") for x in blk.walk())
        if ok:
            out.add(g.name)
    _ep_cache[file_] = out
    return out


def _under_failed_predicate(node, preds):
    child = node
    for a in node.ancestors():
        if a.k == "IfStmt":
            kids = [x for x in a.c if x is not None]
            if len(kids) >= 2 and (kids[1] is child or any(x is child for x in kids[1].walk())):
                c = kids[0].strip_casts()
                neg = False
                while c is not None and c.k == "UnaryOperator" and c.op == "!":
                    neg = not neg
                    c = c.c[0].strip_casts()
                if neg and c is not None and c.k == "CallExpr" and c.callee in preds:
                    return True
        child = a
    return False


def balance(ctx, fn, inc, dec, rule, key_prefix):
    """Every path entry -> normal exit has as many `dec` calls as `inc` calls (depth dataflow)."""
    cfg = fn.cfg
    P = ctx.P
    preds = error_predicates(P, fn.file)
    state = {cfg.entry: {0}}
    work = [cfg.entry]
    bad = None
    exits = {}
    it = 0
    while work and it < 20000:
        it += 1
        b = work.pop()
        B = cfg.blocks[b]
        for d0 in list(state[b]):
            d = d0
            errexit = False
            for e in B.elems:
                if e.k == "CallExpr" and e.callee in inc:
                    d += 1
                elif e.k == "CallExpr" and e.callee in dec:
                    d -= 1
                elif e.k == "ReturnStmt":
                    m = e.macro or ""
                    val = e.c[0] if e.c else None
                    if m or (val is not None and val.cv not in (0, None)) or \
                            (val is not None and val.cv is None and "status" in src(val)) or \
                            _under_failed_predicate(e, preds):
                        errexit = True
                    else:
                        exits.setdefault(d, e)
            if errexit:
                continue
            for s in B.succs:
                if s is None:
                    continue
                if s == cfg.exit:
                    if not any(e.k == "ReturnStmt" for e in B.elems):
                        exits.setdefault(d, B.elems[-1] if B.elems else fn.body)
                    continue
                st = state.setdefault(s, set())
                if d not in st:
                    if len(st) >= 6:
                        bad = (s, d)
                        continue
                    st.add(d)
                    work.append(s)
    ok = set(exits.keys()) <= {0} and bad is None
    n = sum(1 for c in fn.calls() if c.callee in inc)
    if n:
        ctx.ob(rule, "%s|%s:%s" % (key_prefix, P.rel(fn.file), fn.name), P.where(fn.body),
               "%s: every non-error path closes each of its %d struct(s)" % (fn.name, n), ok,
               "exit depths %s" % sorted(exits.keys()))
    return n


def _member_path(e):
    x = e.strip_casts() if e is not None else None
    if x is not None and x.k == "UnaryOperator" and x.op == "&":
        x = x.c[0].strip_casts()
    if x is None or x.k != "MemberExpr":
        return None
    return (x.get("rec"), x.name)


def _binary_pairs(ctx):
    """thrift_write_binary(enc, S.a, S.b) <-> the parser's `S.a = reader(..., &S.b)`."""
    P = ctx.P
    parsed = {}
    for fn in P.funcs_in(PT):
        for n in fn.body.walk():
            if is_assign(n) and n.op == "=":
                a = _member_path(n.c[0])
                r = n.c[1].strip_casts()
                if a is None or r is None or r.k != "CallExpr":
                    continue
                outs = [_member_path(x) for x in r.args() if x is not None and x.strip_casts().k == "UnaryOperator" and x.strip_casts().op == "&"]
                outs = [o for o in outs if o is not None and o[0] == a[0]]
                if len(outs) == 1:
                    parsed.setdefault(a, set()).add(outs[0][1])
    n = 0
    seen_sites = set()
    for fn0 in P.funcs_in(PT):
        fn = P.inlined(fn0, 2)      # a field helper that takes (pointer, length) is expanded at its call sites
        for c in fn.calls("thrift_write_binary"):
            if (c.l, src(c)) in seen_sites:
                continue
            seen_sites.add((c.l, src(c)))
            args = c.args()
            if len(args) < 3:
                continue
            a, b = _member_path(args[1]), _member_path(args[2])
            if a is None or b is None:
                continue
            n += 1
            key = "binary-pair|%s:%s|%s.%s" % (PT, fn.name, a[0], a[1])
            what = "%s.%s is written with the length member the parser fills for it" % (a[0], a[1])
            want = parsed.get(a)
            if not want:
                ctx.ok("R5.agree", key, P.where(c), what, "the parser does not keep these bytes (no pair to compare)", nontrivial=False)
            else:
                ctx.ob("R5.agree", key, P.where(c), what, b[0] == a[0] and b[1] in want,
                       "written with %s, parser fills %s" % (b[1], sorted(want)))
    return n


def _run(ctx):
    P = ctx.P
    ctx.clause("C13.1 writer<->parser agreement per field (id, wire type, member, presence, list element)")
    ctx.clause("C13.2 both <-> parquet.thrift frozen table; required fields unconditional")
    ctx.clause("C13.3 compact-protocol header state/short-long forms/zigzag; struct begin/end balance")
    ctx.clause("C13.4 unknown fields skipped; thrift_skip exhaustive over wire types")
    ctx.clause("C13.5 the LogicalType union: field id <-> logical type id tables of parser and writer equal the specification's")
    from ..rules import logicaltype
    nlt = logicaltype.check(ctx)
    nlp, lp_ok = logicaltype.params_roundtrip(ctx)
    ctx.floor("C13 LogicalType parameter round trips", nlp, 20)
    ctx.P.__dict__.setdefault("_memo", {})["logical_params_intact"] = lp_ok
    ctx.floor("C13 logical type table rows", nlt, 30)

    ctx.clause("C13.7 serialise-then-parse of FileMetaData and the page headers on an abstract fully populated object returns every serialised member in the member it came from")
    from ..rules import thriftrt
    nrt = thriftrt.check(ctx)
    ctx.floor("C13 round-trip probes", nrt, 3)
    ctx.clause("C13.8 Thrift varints and binary length prefixes are LEB128 on both sides (values on either side of every 7-bit boundary)")
    from ..rules import varint
    nvw, nvr = varint.check(ctx, files=("src/thrift/thrift_encode.c", "src/thrift/thrift_decode.c"))
    ctx.floor("C13 Thrift varint writers and readers", nvw + nvr, 3)
    ctx.clause("C13.6 a binary field is written with the length member the parser fills for the same bytes")
    nbin = _binary_pairs(ctx)
    ctx.count("binary_pairs_written", nbin)
    ctx.P.__dict__.setdefault("_memo", {})["c13_binary_pairs"] = nbin

    # the struct-level writer/parser functions are compared pairwise; every other static helper of the
    # file (a field helper, a nested-struct helper) is expanded into its callers first
    wnames = {wn for wn, _, _ in PAIRS}
    pnames = {pn for _, pn, _ in PAIRS}
    cmp_ = Cmp(ctx, PT, PT)
    for wn, pn, sname in PAIRS:
        wf = P.inlined(P.fn(wn, PT), 3, wnames | set(tt.W_PRIM))
        pf = P.inlined(P.fn(pn, PT), 3, pnames | set(tt.R_PRIM))
        W, probs = tt.extract_writer(P, wf, wnames)
        for msg, node in probs:
            ctx.inconclusive("R5.shape", "writer-shape|%s:%s|%s" % (PT, wn, msg.split(":")[0]), P.where(node),
                             "the writer's call sequence is not in a form the grammar extraction understands", msg)
        if W is None:
            raise AnalysisBroken("no struct found in writer " + wn)
        fix_shared_structs(W)
        S = tt.extract_parser(P, pf, pnames)
        if S is None:
            raise AnalysisBroken("no field loop found in parser " + pn)
        # statements outside the dispatch (e.g. an unconditional skip after an if-chain)
        _fold_other(S, pnames)
        cmp_.compare(sname, W, S, wn, pn)
    ctx.count("table_rows", cmp_.rows)
    ctx.floor("C13 thrift table rows", cmp_.rows, 120)

    # page-index writers (no parser in carquet): ids / wire types vs specification only
    PI = "src/metadata/page_index.c"
    for f in P.funcs_in(PI):
        if not f.calls("thrift_write_struct_begin"):
            continue
        W, probs = tt.extract_writer(P, P.inlined(f, 3), set())
        if W is None:
            continue
        fix_shared_structs(W)
        ids = set(W.fields)
        sname = None
        for cand in ("ColumnIndex", "OffsetIndex"):
            if cand.lower().replace("index", "_index") in f.name.lower() or cand.lower() in f.name.lower().replace("_", ""):
                sname = cand
        if sname is None:
            continue
        c2 = Cmp(ctx, PI, PI)
        c2.compare(sname, W, None, f.name, None)
        ctx.count("page_index_rows", c2.rows)

    # ---- C13.4: thrift_skip covers every wire type - by abstract execution of the skipper once per wire
    # type value 0..15 (its readers hooked): each of the 13 value types is consumed by the reader calls the
    # compact protocol prescribes, STOP and unknown type values set an error and consume nothing
    from ..rules import sem
    tenum = P.enum("thrift_type")
    for name, val in sorted(tenum.items(), key=lambda kv: kv[1]):
        spec_name = name.replace("THRIFT_TYPE_", "")
        ctx.ob("R5.spec", "wire-type|%s" % name, TD,
               "compact-protocol type id of %s is %s" % (name, COMPACT_TYPES.get(spec_name)),
               COMPACT_TYPES.get(spec_name) == val, "carquet uses %d" % val)
    sk = P.fn("thrift_skip", TD)        # the public entry point: its depth bookkeeping is its own business
    do_ = sem.field_offsets(P, "thrift_decoder")
    T_ = COMPACT_TYPES
    want = {"TRUE": [], "FALSE": [], "BYTE": [("bytes", 1)], "I16": ["varint"], "I32": ["varint"], "I64": ["varint"],
            "DOUBLE": [("bytes", 8)], "BINARY": ["binary"], "UUID": [("bytes", 16)],
            "LIST": ["list", "varint"], "SET": ["list", "varint"], "MAP": ["map", "varint", "varint"],
            "STRUCT": ["sbegin", "field", ("bytes", 1), "field", "send"]}
    byval = {v: k for k, v in T_.items()}
    for val in range(0, 16):
        tname = byval.get(val)
        key = "skip-arm|%s:%s|%s" % (TD, "thrift_skip_at_depth", "THRIFT_TYPE_" + tname if tname else "value %d" % val)
        state = {"fields": 0}

        def h_field(ev, a, it, state=state):
            ev.append("field")
            state["fields"] += 1
            if state["fields"] == 1:
                sem.set_out(it, a[1], T_["BYTE"])
                sem.set_out(it, a[2], 1)
                return 1
            sem.set_out(it, a[1], 0)
            return 0

        def h_list(ev, a, it):
            ev.append("list")
            sem.set_out(it, a[1], T_["I32"])
            sem.set_out(it, a[2], 1)
            return 0

        def h_map(ev, a, it):
            ev.append("map")
            sem.set_out(it, a[1], T_["I32"])
            sem.set_out(it, a[2], T_["I64"])
            sem.set_out(it, a[3], 1)
            return 0
        hooks = {"set_error": lambda ev, a, it: ev.append("error") or 0,
                 "carquet_buffer_reader_skip": lambda ev, a, it: ev.append(("bytes", a[1])) or 1,
                 "thrift_read_varint": lambda ev, a, it: ev.append("varint") or 0,
                 "thrift_read_zigzag": lambda ev, a, it: ev.append("varint") or 0,
                 "thrift_read_i16": lambda ev, a, it: ev.append("varint") or 0,
                 "thrift_read_i32": lambda ev, a, it: ev.append("varint") or 0,
                 "thrift_read_i64": lambda ev, a, it: ev.append("varint") or 0,
                 "thrift_read_byte": lambda ev, a, it: ev.append(("bytes", 1)) or 0,
                 "thrift_read_double": lambda ev, a, it: ev.append(("bytes", 8)) or 0,
                 "thrift_read_binary": lambda ev, a, it: ev.append("binary") or sem.Ptr("bin", 0, 1),
                 "thrift_read_uuid": lambda ev, a, it: ev.append(("bytes", 16)) or 0,
                 "thrift_read_list_begin": h_list, "thrift_read_set_begin": h_list, "thrift_read_map_begin": h_map,
                 "thrift_read_struct_begin": lambda ev, a, it: ev.append("sbegin") or 0,
                 "thrift_read_struct_end": lambda ev, a, it: ev.append("send") or 0,
                 "thrift_read_field_begin": h_field}
        args = [sem.Ptr("dec", 0, 1), val]
        try:
            ret, ev, heap = sem.run(P, sk, args, heap0={("dec", do_["status"]): 0}, hooks=hooks, max_forks=8, inline_depth=6)
        except sem.Inconclusive as ex:
            ctx.inconclusive("R5.exhaustive", key, P.where(sk.body), "abstract execution of the skipper", str(ex))
            continue
        if tname in want:
            ctx.ob("R5.exhaustive", key, P.where(sk.body),
                   "skipping a %s value consumes %s and raises no error" % (tname, want[tname] or "nothing"),
                   ev == want[tname], "skipper does %s" % ev)
        else:
            ctx.ob("R5.exhaustive", key, P.where(sk.body),
                   "type value %d (%s) is not a value type: the skipper sets an error and consumes nothing" % (val, tname or "unassigned"),
                   ev == ["error"], "skipper does %s" % ev)

    # ---- C13.3 struct begin/end balance
    nb = 0
    for f in P.funcs_in(PT, "src/metadata/page_index.c", "src/writer/page_writer.c"):
        nb += balance(ctx, f, {"thrift_write_struct_begin"}, {"thrift_write_struct_end"}, "R6.balance", "wbalance")
        nb += balance(ctx, f, {"thrift_read_struct_begin"}, {"thrift_read_struct_end"}, "R6.balance", "rbalance")
    ctx.floor("C13 struct begin/end pairs", nb, 40)
    # field headers are delta-coded against the enclosing struct's frame: every field loop runs inside
    # a frame pushed by struct_begin in the same function (also when the struct is only skipped)
    nfr = 0
    frame_files = (PT, TD, TE, "src/metadata/page_index.c", "src/writer/page_writer.c", "src/reader/page_reader.c")
    frame_fns = [f for f in P.funcs_in(*frame_files) if f.cfg is not None]
    for side, begin, users in (("read", "thrift_read_struct_begin", ("thrift_read_field_begin",)),
                               ("write", "thrift_write_struct_begin", ("thrift_write_field_header", "thrift_write_field_stop"))):
        # a static function that writes/reads field headers without pushing a frame itself is a field
        # helper: the frame is its callers' obligation (checked at every call site, transitively)
        helpers = {}

        def framed(f, c, begin=begin):
            return any(f.cfg.node_dominates(b, c) for b in f.calls(begin))
        pending = []
        for f in frame_fns:
            if f.name in (begin,) + users or (side == "write" and P.rel(f.file) == TE):
                continue            # the codec's own primitives: the frame is their caller's
            for u in users:
                for c in f.calls(u):
                    pending.append((f, c, u))
        seen = set()
        while pending:
            f, c, u = pending.pop()
            if (f.key(), c.i) in seen:
                continue
            seen.add((f.key(), c.i))
            nfr += 1
            if framed(f, c):
                ctx.ok("R6.balance", "frame|%s:%s|%s" % (P.rel(f.file), f.name, u), P.where(c),
                       "%s runs inside a field-id frame pushed by %s in %s" % (u, begin, f.name))
                continue
            callers = [(g, cc) for g in frame_fns for cc in g.calls(f.name)] if f.static else []
            if callers:
                ctx.ok("R6.balance", "frame|%s:%s|%s" % (P.rel(f.file), f.name, u), P.where(c),
                       "%s is a field helper: the frame is pushed by its %d caller(s)" % (f.name, len(callers)))
                for g, cc in callers:
                    pending.append((g, cc, f.name))
            else:
                ctx.bad("R6.balance", "frame|%s:%s|%s" % (P.rel(f.file), f.name, u), P.where(c),
                        "%s runs inside a field-id frame pushed by %s in %s" % (u, begin, f.name),
                        "no dominating %s, and %s is not a static helper called from a framed context" % (begin, f.name))
    ctx.floor("C13 field headers inside frames", nfr, 25)

    # ---- short/long forms and the field-id delta state, decided by abstract execution of the four
    # header codecs; the syntactic must-pass rule below only runs for a codec the execution left undecided
    decided = _forms(ctx)

    # ---- C13.3 field-id delta state (fallback)
    for fname, file_, rec in (("thrift_read_field_begin", TD, "thrift_decoder"),
                              ("thrift_write_field_header", TE, "thrift_encoder")):
        if fname in decided:
            continue
        f = P.fn(fname, file_)

        slot_ptrs = set()
        for n_ in f.body.walk():
            if n_.k == "DeclStmt":
                for d_, init in zip(n_.get("decls", []), n_.c):
                    if init is not None and "*" in (d_.get("t") or "") and any(
                            x.k == "MemberExpr" and x.name == "last_field_id" for x in init.walk()):
                        slot_ptrs.add(d_["d"])
            elif is_assign(n_) and n_.c[0].strip().k == "DeclRefExpr" and any(
                    x.k == "MemberExpr" and x.name == "last_field_id" for x in n_.c[1].walk()) and "*" in (n_.c[0].t or ""):
                slot_ptrs.add(n_.c[0].strip().get("d"))

        def is_store(e, slot_ptrs=slot_ptrs):
            if is_assign(e) and e.op == "=":
                l = e.c[0].strip()
                if l.k == "ArraySubscriptExpr" and any(x.k == "MemberExpr" and x.name == "last_field_id" for x in l.walk()):
                    return True
                # `*slot = id` through a local pointer to the current frame's slot
                if l.k == "UnaryOperator" and l.op == "*" and l.c[0].strip_casts().k == "DeclRefExpr" and \
                        l.c[0].strip_casts().get("d") in slot_ptrs:
                    return True
            return False

        def cut(B, si):
            # the only accepted way round the store: the false arm of `nesting_level > 0`
            if B.cond is not None and si == 1:
                t = Canon(f)(B.cond)
                return t[0] == "bin" and t[1] == "<" and t[2] == ("int", 0) and \
                    isinstance(t[3], tuple) and t[3][0] == "member" and t[3][2] == "nesting_level"
            return False

        stores = [e for e in f.body.walk() if is_store(e)]
        ctx.floor("%s last_field_id stores" % fname, len(stores), 1)
        if fname == "thrift_read_field_begin":
            targets = [r for r in f.returns() if r.c and r.c[0] is not None and r.c[0].cv == 1]
            if not targets:
                raise AnalysisBroken("thrift_read_field_begin has no `return true`")
            w = find_path_avoiding(f.cfg, is_store, lambda e: e in targets, cut)
        else:
            from ..rules.flow import reaches_exit_avoiding
            w = reaches_exit_avoiding(f.cfg, is_store, cut)
        ctx.ob("R6.must-pass", "field-id-state|%s:%s" % (file_, fname), P.where(f.body),
               "%s records the field id in last_field_id on every path that yields a field "
               "(short and long form)" % fname, w is None,
               "path without the store: %s" % describe_path(f, f.cfg, w) if w else "")
        # the stored value is the field id itself
        for s in stores:
            t = Canon(f)(s.c[1])
            okv = (t[0] == "param" and "field_id" in [p["n"] for p in f.params][t[1]:t[1] + 1]) or \
                  (t[0] == "un" and t[1] == "*" and t[2][0] == "param")
            ctx.ob("R6.must-pass", "field-id-value|%s:%s" % (file_, fname), P.where(s),
                   "last_field_id receives the current field id", okv, show(t))

    # struct_begin resets the delta base and pushes; struct_end pops
    for fname, file_ in (("thrift_read_struct_begin", TD), ("thrift_write_struct_begin", TE)):
        f = P.fn(fname, file_)
        reset = any(is_assign(a) and a.c[1].cv == 0 and
                    any(x.k == "MemberExpr" and x.name == "last_field_id" for x in a.c[0].walk())
                    for a in f.body.walk())
        push = any(a.k == "UnaryOperator" and a.op == "++" and
                   any(x.k == "MemberExpr" and x.name == "nesting_level" for x in a.walk())
                   for a in f.body.walk())
        ctx.ob("R6.state", "struct-begin|%s:%s" % (file_, fname), P.where(f.body),
               "%s resets the delta base to 0 and increments the nesting level" % fname, reset and push)
    for fname, file_ in (("thrift_read_struct_end", TD), ("thrift_write_struct_end", TE)):
        f = P.fn(fname, file_)
        pop = any(a.k == "UnaryOperator" and a.op == "--" and
                  any(x.k == "MemberExpr" and x.name == "nesting_level" for x in a.walk())
                  for a in f.body.walk())
        ctx.ob("R6.state", "struct-end|%s:%s" % (file_, fname), P.where(f.body),
               "%s decrements the nesting level" % fname, pop)
    wse = P.fn("thrift_write_struct_end", TE)
    ctx.ob("R6.state", "struct-end-stop|%s:thrift_write_struct_end" % TE, P.where(wse.body),
           "struct end writes the STOP byte", any(
               c.callee in ("thrift_write_field_stop",) or (c.callee == "thrift_write_byte" and c.args()[1].cv == 0)
               for c in wse.calls()))

    # ---- zigzag on both sides
    for n in ("i16", "i32", "i64"):
        w = P.fn("thrift_write_" + n, TE)
        r = P.fn("thrift_read_" + n, TD)
        ctx.ob("R5.agree", "zigzag|%s" % n, P.where(w.body),
               "thrift_write_%s / thrift_read_%s both go through zigzag varints" % (n, n),
               bool(w.calls("thrift_write_zigzag")) and bool(r.calls("thrift_read_zigzag")))
    wz, rz = P.fn("thrift_write_zigzag", TE), P.fn("thrift_read_zigzag", TD)
    ctx.ob("R5.agree", "zigzag-helpers", P.where(wz.body),
           "zigzag encode64 + varint on write, varint + zigzag decode64 on read",
           bool(wz.calls("carquet_zigzag_encode64")) and bool(wz.calls("thrift_write_varint"))
           and bool(rz.calls("carquet_zigzag_decode64")) and bool(rz.calls("thrift_read_varint")))
    # zigzag helper shapes (endian.h)
    for hn, want in (("carquet_zigzag_encode64", 63), ("carquet_zigzag_decode64", 1)):
        cands = P.by_name.get(hn, [])
        if not cands:
            raise AnalysisBroken(hn + " not found")
        h = cands[0]
        t = Canon(h)(h.returns()[0].c[0])
        consts = sorted(s[1] for s in subtrees(t) if s[0] == "int")
        ok = ("bin", "^") == t[0:2] or any(s[0:2] == ("bin", "^") for s in subtrees(t))
        ctx.ob("R5.spec", "zigzag-shape|%s" % hn, P.rel(h.file),
               "%s is (n << 1) ^ (n >> 63) resp. (n >> 1) ^ -(n & 1)" % hn,
               ok and (consts == [1, 63] if want == 63 else consts == [1, 1]), show(t))


def _fold_other(S, pnames):
    if S is None:
        return
    other = getattr(S, "other", [])
    if other:
        acts = tt._actions(other, pnames, S.typevar)
        if any(a[0] == "skip" and a[1] for a in acts):
            S.default_skips = True
            for pf in S.fields.values():
                pf.actions = pf.actions + [a for a in acts if a[0] == "skip"]
    for pf in S.fields.values():
        for a in pf.actions:
            if a[0] == "struct":
                _fold_other(a[1], pnames)


def _forms(ctx):
    """Short/long header forms of the compact protocol, decided by executing the four header codecs
    abstractly over their whole small input space (the byte source/sink calls are hooked and only
    recorded): robust to how the decision is spelled (operand order, swapped arms, helpers)."""
    from ..rules.skeleton import Interp, Ptr, U, Budget, Stop
    P = ctx.P
    enc_rec, dec_rec = P.record("thrift_encoder"), P.record("thrift_decoder")
    eo = {f["n"]: f["off"] // 8 for f in enc_rec["fields"] if f.get("off") is not None}
    do = {f["n"]: f["off"] // 8 for f in dec_rec["fields"] if f.get("off") is not None}
    for need, o in ((("nesting_level", "last_field_id", "status"), eo), (("nesting_level", "last_field_id", "status"), do)):
        if any(n not in o for n in need):
            raise AnalysisBroken("thrift codec state fields not found")
    L = 40

    def run(fn, args, heap0, hooks):
        it = Interp(P, fn, budget=200000, max_forks=8)
        it.heap0 = heap0
        ev = []
        for name, h in hooks.items():
            it.hooks[name] = (lambda i_, node, a, h=h, name=name: h(ev, a))
        outs = it.run(args)
        if len(outs) != 1:
            raise Stop("control flow of %s depends on unknown data" % fn.name)
        return outs[0][1], ev, it.heap

    def byte_of(v):
        return v & 0xFF if isinstance(v, int) else v

    # ---- encoder field header
    f = P.fn("thrift_write_field_header", TE)
    bad = None
    try:
        for fid in range(L - 20, L + 41):
            for ty in (1, 5, 12):
                heap0 = {("enc", eo["nesting_level"]): 1, ("enc", eo["last_field_id"]): L, ("enc", eo["status"]): 0}
                _, ev, heap = run(f, [Ptr("enc", 0, 1), ty, fid], heap0, {
                    "thrift_write_byte": lambda ev, a: ev.append(("byte", byte_of(a[1]))) or 0,
                    "thrift_write_i16": lambda ev, a: ev.append(("i16", a[1])) or 0,
                    "thrift_write_zigzag": lambda ev, a: ev.append(("i16", a[1])) or 0})
                delta = fid - L
                want = [("byte", (delta << 4) | ty)] if 1 <= delta <= 15 else [("byte", ty), ("i16", fid)]
                if ev != want and bad is None:
                    bad = "previous id %d, field id %d, type %d: writes %s, the compact protocol writes %s" % (L, fid, ty, ev, want)
                if heap.get(("enc", eo["last_field_id"])) != fid and bad is None:
                    bad = "field id %d is not recorded as the previous id" % fid
    except (Budget, Stop) as ex:
        ctx.inconclusive("R5.forms", "short-form|%s:thrift_write_field_header" % TE, P.where(f.body), "abstract execution", str(ex))
        bad = "?"
    decided = set()
    if bad != "?":
        decided.add("thrift_write_field_header")
        ctx.ob("R5.forms", "short-form|%s:thrift_write_field_header" % TE, P.where(f.body),
               "field header: one byte (delta<<4|type) iff 0 < delta <= 15, else type byte + zigzag id; the id becomes the "
               "previous id (all deltas -20..40)", bad is None, bad or "")
    # ---- decoder field header
    g = P.fn("thrift_read_field_begin", TD)
    bad = None
    try:
        for h in range(0, 256):
            heap0 = {("dec", do["nesting_level"]): 1, ("dec", do["last_field_id"]): L, ("dec", do["status"]): 0}
            ret, ev, heap = run(g, [Ptr("dec", 0, 1), Ptr("ty", 0, 4), Ptr("fid", 0, 2)], heap0, {
                "read_byte_raw": lambda ev, a, h=h: h,
                "thrift_read_i16": lambda ev, a: ev.append("i16") or 777,
                "thrift_read_zigzag": lambda ev, a: ev.append("i16") or 777})
            ty, fid = heap.get(("ty", 0)), heap.get(("fid", 0))
            if h == 0:
                ok = ret in (0, False) and ty == 0
            else:
                delta = h >> 4
                ok = ret in (1, True) and ty == (h & 15) and (
                    (delta == 0 and ev == ["i16"] and fid == 777) or (delta != 0 and ev == [] and fid == L + delta)) \
                    and heap.get(("dec", do["last_field_id"])) == fid
            if not ok and bad is None:
                bad = "header byte 0x%02X after id %d: returns %s, type %s, id %s, explicit-id reads %s" % (h, L, ret, ty, fid, ev)
    except (Budget, Stop) as ex:
        ctx.inconclusive("R5.forms", "long-form|%s:thrift_read_field_begin" % TD, P.where(g.body), "abstract execution", str(ex))
        bad = "?"
    if bad != "?":
        decided.add("thrift_read_field_begin")
        ctx.ob("R5.forms", "long-form|%s:thrift_read_field_begin" % TD, P.where(g.body),
               "field header decoding for all 256 header bytes: STOP on 0, type = low nibble, id = previous + delta, or an "
               "explicit zigzag id iff the delta nibble is 0; the id becomes the previous id", bad is None, bad or "")
    # ---- list header
    f = P.fn("thrift_write_list_begin", TE)
    bad = None
    try:
        for count in range(-4, 65):
            for et in (5, 8, 12):
                _, ev, heap = run(f, [Ptr("enc", 0, 1), et, count], {("enc", eo["status"]): 0}, {
                    "thrift_write_byte": lambda ev, a: ev.append(("byte", byte_of(a[1]))) or 0,
                    "thrift_write_varint": lambda ev, a: ev.append(("varint", a[1])) or 0})
                if count < 0:
                    continue        # negative counts are a caller error: either form
                want = [("byte", (count << 4) | et)] if count <= 14 else [("byte", 0xF0 | et), ("varint", count)]
                if ev != want and bad is None:
                    bad = "count %d, element type %d: writes %s, the compact protocol writes %s" % (count, et, ev, want)
    except (Budget, Stop) as ex:
        ctx.inconclusive("R5.forms", "list-short-form|%s:thrift_write_list_begin" % TE, P.where(f.body), "abstract execution", str(ex))
        bad = "?"
    if bad != "?":
        ctx.ob("R5.forms", "list-short-form|%s:thrift_write_list_begin" % TE, P.where(f.body),
               "list header: one byte (count<<4|type) iff count <= 14, else 0xF|type followed by a varint count (counts 0..64)",
               bad is None, bad or "")
    g = P.fn("thrift_read_list_begin", TD)
    bad = None
    try:
        for h in range(0, 256):
            ret, ev, heap = run(g, [Ptr("dec", 0, 1), Ptr("et", 0, 4), Ptr("cnt", 0, 4)], {("dec", do["status"]): 0}, {
                "read_byte_raw": lambda ev, a, h=h: h,
                "thrift_read_varint": lambda ev, a: ev.append("varint") or 33,
                "carquet_buffer_reader_remaining": lambda ev, a: 1 << 20,
                "set_error": lambda ev, a: ev.append("error") or 0})
            nib = h >> 4
            ok = heap.get(("et", 0)) == (h & 15) and ((nib == 15 and ev == ["varint"] and heap.get(("cnt", 0)) == 33) or
                                                     (nib != 15 and ev == [] and heap.get(("cnt", 0)) == nib))
            if not ok and bad is None:
                bad = "header byte 0x%02X: element type %s, count %s, reads %s" % (h, heap.get(("et", 0)), heap.get(("cnt", 0)), ev)
    except (Budget, Stop) as ex:
        ctx.inconclusive("R5.forms", "list-long-form|%s:thrift_read_list_begin" % TD, P.where(g.body), "abstract execution", str(ex))
        bad = "?"
    if bad != "?":
        ctx.ob("R5.forms", "list-long-form|%s:thrift_read_list_begin" % TD, P.where(g.body),
               "list header decoding for all 256 header bytes: type = low nibble, count = high nibble, or a varint iff "
               "the nibble is 0xF", bad is None, bad or "")
    # ---- map header: size varint first; the (key type << 4 | value type) byte exists only when the size is not 0
    f = P.fn("thrift_write_map_begin", TE)
    bad = None
    try:
        for count in (0, 1, 2, 15, 16, 200):
            for kt, vt in ((8, 5), (5, 12), (3, 3)):
                _, ev, heap = run(f, [Ptr("enc", 0, 1), kt, vt, count], {("enc", eo["status"]): 0}, {
                    "thrift_write_byte": lambda ev, a: ev.append(("byte", byte_of(a[1]))) or 0,
                    "thrift_write_varint": lambda ev, a: ev.append(("varint", a[1])) or 0})
                want = [[("byte", 0)], [("varint", 0)]] if count == 0 else [[("varint", count), ("byte", (kt << 4) | vt)]]
                if ev not in want and bad is None:
                    bad = "count %d, types %d/%d: writes %s, the compact protocol writes %s" % (count, kt, vt, ev, want[0])
    except (Budget, Stop) as ex:
        ctx.inconclusive("R5.forms", "map-form|%s:thrift_write_map_begin" % TE, P.where(f.body), "abstract execution", str(ex))
        bad = "?"
    if bad != "?":
        ctx.ob("R5.forms", "map-form|%s:thrift_write_map_begin" % TE, P.where(f.body),
               "map header: the single byte 0 for an empty map, else a varint size followed by (key type<<4|value type)", bad is None, bad or "")
    g = P.fn("thrift_read_map_begin", TD)
    bad = None
    try:
        for count in (0, 1, 7, 300, -1):
            for tb in (0x85, 0x5C, 0x33):
                ret, ev, heap = run(g, [Ptr("dec", 0, 1), Ptr("kt", 0, 4), Ptr("vt", 0, 4), Ptr("cnt", 0, 4)], {("dec", do["status"]): 0}, {
                    "read_byte_raw": lambda ev, a, tb=tb: ev.append("types-byte") or tb,
                    "thrift_read_byte": lambda ev, a, tb=tb: ev.append("types-byte") or tb,
                    "thrift_read_varint": lambda ev, a, count=count: ev.append("varint") or (count & 0xFFFFFFFFFFFFFFFF),
                    "carquet_buffer_reader_remaining": lambda ev, a: 1 << 20,
                    "set_error": lambda ev, a: ev.append("error") or 0})
                got = (heap.get(("cnt", 0)), heap.get(("kt", 0)), heap.get(("vt", 0)))
                if count == 0:
                    ok = ev == ["varint"] and got[0] == 0
                elif count < 0:
                    ok = "error" in ev and "types-byte" not in ev and got[0] == 0
                else:
                    ok = ev == ["varint", "types-byte"] and got == (count, tb >> 4, tb & 15)
                if not ok and bad is None:
                    bad = "size %d, types byte 0x%02X: reads %s and yields count/key/value %s" % (count, tb, ev, got)
    except (Budget, Stop) as ex:
        ctx.inconclusive("R5.forms", "map-form|%s:thrift_read_map_begin" % TD, P.where(g.body), "abstract execution", str(ex))
        bad = "?"
    if bad != "?":
        ctx.ob("R5.forms", "map-form|%s:thrift_read_map_begin" % TD, P.where(g.body),
               "map header decoding: an empty map is the size varint alone (no types byte is consumed); otherwise one types byte follows, "
               "key = high nibble, value = low nibble; a negative size is an error that consumes nothing more", bad is None, bad or "")
    return decided


def _nocast(t):
    if isinstance(t, tuple):
        if t[0] == "cast":
            return _nocast(t[2])
        return tuple(_nocast(x) for x in t)
    return t


def _is_nibble(t):
    """(x >> 4) & 15  or  x >> 4 (of a byte)"""
    if t[0] == "bin" and t[1] == "&" and ("int", 15) in (t[2], t[3]):
        o = t[3] if t[2] == ("int", 15) else t[2]
        return o[0] == "bin" and o[1] == ">>" and o[3] == ("int", 4)
    return t[0] == "bin" and t[1] == ">>" and t[3] == ("int", 4)


def _string_readers(ctx):
    """The two routines that turn a Thrift string into a C string - arena_strdup_thrift (parquet_types.c) and
    thrift_read_string_alloc (thrift_decode.c) - executed with thrift_read_binary hooked to hand out (pointer, length) and
    only the lowest allocators hooked, so the arena's own string functions run as written: a present string of length 0
    comes back as a non-NULL pointer to a NUL byte (NULL means `field absent` to the writer and to every consumer), a
    string of length n as its n bytes followed by NUL."""
    from ..rules import sem
    from ..rules.skeleton import Ptr
    P = ctx.P
    n = 0
    for fname, file_, nargs in (("arena_strdup_thrift", "src/thrift/parquet_types.c", 2), ("thrift_read_string_alloc", "src/thrift/thrift_decode.c", 1)):
        fn = P.fn_opt(fname, file_)
        if fn is None:
            continue
        key = "string-reader|%s:%s" % (file_, fname)
        what = "%s returns a present string as a non-NULL, NUL-terminated copy of its bytes - the empty string included" % fname
        bad, done = None, 0
        try:
            for label, ptr, ln, text in (("a string of length 0 whose bytes pointer is valid", Ptr("in", 7, 1), 0, []),
                                         ("a string of length 0 handed out as (NULL, 0)", 0, 0, []),
                                         ("the string `abc`", Ptr("in", 7, 1), 3, [97, 98, 99]),
                                         ("the one-byte string `z`", Ptr("in", 7, 1), 1, [122])):
                k = [0]

                def alloc(ev, a, it, k=k):
                    k[0] += 1
                    return Ptr("blk%d" % k[0], 0, 1)

                def rbin(ev, a, it, ptr=ptr, ln=ln):
                    sem.set_out(it, a[1], ln)
                    return ptr
                heap0 = {("in", 7 + i): b for i, b in enumerate(text + [0x55])}
                do = sem.field_offsets(P, "thrift_decoder") if "thrift_decoder" in P.records else {}
                if "status" in do:
                    heap0[("dec", do["status"])] = 0
                args = [Ptr("arena", 0, 1), Ptr("dec", 0, 1)] if nargs == 2 else [Ptr("dec", 0, 1)]
                ret, ev, heap = sem.run(P, fn, args, heap0=heap0, single=True, max_forks=8, budget=200000, inline_depth=6,
                                        hooks={"thrift_read_binary": rbin, "carquet_arena_alloc_aligned": alloc, "carquet_arena_alloc": alloc,
                                               "carquet_arena_calloc": alloc, "malloc": alloc, "calloc": alloc})
                done += 1
                if bad is not None:
                    continue
                if not isinstance(ret, Ptr):
                    bad = "%s: returns %s" % (label, "NULL - the field reads as absent" if ret == 0 else repr(ret)[:40])
                    continue
                got = [heap.get((ret.base, ret.off + i)) for i in range(len(text) + 1)]
                if any(not isinstance(g, int) for g in got):
                    raise sem.Inconclusive("%s: the bytes of the copy are %r" % (label, got))
                if [g & 0xFF for g in got] != text + [0]:
                    bad = "%s: the copy holds %r" % (label, bytes(g & 0xFF for g in got))
        except (sem.Inconclusive, KeyError) as ex:
            if bad:
                ctx.ob("R5.string-reader", key, P.where(fn.body), what, False, bad)
            else:
                ctx.inconclusive("R5.string-reader", key, P.where(fn.body), what, "%s: %s" % (type(ex).__name__, ex))
            continue
        n += done
        ctx.ob("R5.string-reader", key, P.where(fn.body), what + " (%d strings, the arena's string functions executed as written)" % done, bad is None, bad or "")
    return n


def run(ctx):
    _run(ctx)
    ctx.clause("C13.9 a present string - the empty one included - is parsed into a non-NULL NUL-terminated copy (the arena's string functions executed as written under the two string readers)")
    nsr = _string_readers(ctx)
    ctx.floor("C13 strings through the string readers", nsr, 6)
    from ..rules import thriftrt
    from .. import report
    probes = [o for o in ctx.obs if o.key.startswith(("spec|", "roundtrip|"))]
    decided = len(probes) >= 6 and not any(o.status == report.INCONCLUSIVE for o in probes)
    if not decided:
        # the pair rule reads call arguments; when the round-trip probes decide (unique markers for every pointer and
        # every length member) a writer that hands its binaries over through a table of members is not a gap
        ctx.floor("C13 binary (pointer, length) pairs written", ctx.P.__dict__.get("_memo", {}).get("c13_binary_pairs", 0), 4)
    ctx.count("extraction_gaps_settled_by_probe", thriftrt.settle_extraction(
        ctx, decided, logical_ok=ctx.P.__dict__.get("_memo", {}).get("logical_params_intact", False)))
