"""C07 - parallel reading independent of thread count/schedule (R7 effect analysis)."""
from .. import callgraph
from ..canon import Canon, subtrees
from ..extract import AnalysisBroken
from ..facts import src
from ..rules.results import lvalue_text
from ..rules.flow import after_reaches
from ..util import is_assign

EXPLANATION = (
    "Static effect analysis of the OpenMP parallel regions of carquet_batch_reader_next and of "
    "concurrent use of independent handles: (1) every write inside a parallel region goes to a "
    "region-local variable, to an object selected by the loop index (col_readers[i], columns[i]), or "
    "is a monotone flag (only one constant is ever stored), or sits in an omp critical/atomic "
    "construct; (2) every mutable file-scope or static-local variable of the library is thread-local "
    "or belongs to the accepted idempotent lazy-initialisation set, whose members are written only by "
    "their initialiser, with the 'initialised' flag stored after the table (stated assumption: x86-TSO "
    "and no compiler reordering across the flag store); (3) in every function reachable from a "
    "parallel region through the call graph (dispatch slots resolved) every positioned stdio call "
    "(fseek/fread/ftell/...) on a stream lies inside an omp critical construct and each read is "
    "preceded by its seek inside the same construct; (4) every pointer handed inside a region to a callee "
    "that writes through the corresponding parameter (transitively; memcpy/memset/fread destinations "
    "included) is null, selected by the loop index, or private to the iteration (allocated or declared "
    "inside the region) - a scratch buffer allocated once before the region and written by every worker "
    "is reported; (5) a descriptor, stream, mapping or block that a reader / writer handle releases outside its "
    "destructor is overwritten in the handle before the function returns (otherwise the destructor releases it "
    "again - for a descriptor that closes whatever another handle or thread was given under the same number). (6) the thread count only selects a schedule: a value coming from the configured thread count or the OpenMP runtime may be defaulted, clamped, handed on and named in OpenMP clauses, but no branch on it skips or adds effectful statements (R37). Decides these clauses, not equality of batches "
    "across thread counts nor races inside zlib/zstd/libgomp.")

BR = "src/reader/batch_reader.c"
POSITIONED = {"fseek", "fread", "ftell", "fwrite", "rewind", "fgetpos", "fsetpos", "fgetc", "getc",
              "fgets", "fflush", "fseeko", "ftello", "fscanf", "ungetc"}

# accepted idempotent lazy initialisers: variable -> (file, functions allowed to write it, flag var)
LAZY = {
    "g_dispatch": ("src/simd/dispatch.c", {"carquet_simd_dispatch_init"}, "g_dispatch_initialized"),
    "g_dispatch_initialized": ("src/simd/dispatch.c", {"carquet_simd_dispatch_init"}, None),
    "crc32_tables": ("src/util/crc32.c", {"crc32_init_tables"}, "crc32_tables_initialized"),
    "crc32_tables_initialized": ("src/util/crc32.c", {"crc32_init_tables"}, None),
    "g_cpu_info": ("src/simd/detect.c", {"carquet_detect_cpu", "detect_cpu_features", "carquet_init",
                                          "detect_x86_features", "carquet_get_cpu_info"}, "g_initialized"),
    "g_initialized": ("src/simd/detect.c", {"carquet_init", "carquet_get_cpu_info", "carquet_detect_cpu"}, None),
}


def _omp_regions(fn):
    return [n for n in fn.body.walk() if n.get("omp") and "parallel" in n.get("omp")]


def _inside(n, root):
    x = n
    while x is not None:
        if x is root:
            return True
        x = x.parent
    return False


def _in_critical(n, stop=None):
    for a in n.ancestors():
        if a is stop:
            return False
        if a.get("omp") and (a.get("omp").startswith("critical") or a.get("omp").startswith("atomic")):
            return True
    return False


def _region_setup(reg, ri):
    body = reg.kids()[-1]
    # loop variable of the associated for
    loop = body if body.k == "ForStmt" else None
    if loop is None:
        raise AnalysisBroken("parallel region %d is not a for loop" % ri)
    lv = None
    init = loop.c[0]
    if init is not None:
        for a in init.walk():
            if is_assign(a) and a.c[0].strip().k == "DeclRefExpr":
                lv = a.c[0].strip().get("d")
            if a.k == "DeclStmt" and a.get("decls"):
                lv = a.get("decls")[0].get("d")
    if lv is None:
        raise AnalysisBroken("cannot identify the loop variable of region %d" % ri)
    local_decls = set()
    for n in body.walk():
        if n.k == "DeclStmt":
            for d in n.get("decls", []):
                if "d" in d:
                    local_decls.add(d["d"])
    return body, lv, local_decls


def _per_iteration(lv):
    def per_iteration(expr):
        for x in expr.walk():
            if x.k == "ArraySubscriptExpr":
                for y in x.c[1].walk():
                    if y.k == "DeclRefExpr" and y.get("d") == lv:
                        return True
        return False
    return per_iteration


def control_region_args(ctx, P, fname, relfile):
    """Run the region-argument rule on one function of a control program."""
    f = P.fn(fname)
    cg = callgraph.get(P)
    n = 0
    for ri, reg in enumerate(_omp_regions(f)):
        body, lv, local_decls = _region_setup(reg, ri)
        na, nall = region_args(ctx, P, cg, f, reg, ri, body, local_decls, lv, _per_iteration(lv), relfile)
        n += nall
    return n


def run(ctx):
    P = ctx.P
    ctx.clause("C07.1 writes inside parallel regions are private, per-iteration, monotone or protected")
    ctx.clause("C07.2 mutable file-scope state is thread-local or accepted idempotent lazy init (writer-restricted)")
    ctx.clause("C07.3 positioned I/O reachable from a region is inside omp critical, seek+read together")
    ctx.clause("C07.4 memory handed to a callee inside a region for writing is private to the iteration")
    ctx.clause("C07.5 a descriptor, stream or mapping released before its handle dies is forgotten by the handle (a second close would hit whoever got the number next)")
    from ..rules import stalefield
    nst = stalefield.check(ctx, P.funcs_under("src/reader/", "src/writer/"), rule="R27.stale-member", key_prefix="stale-handle")
    ctx.clause("C07.6 the thread count selects a schedule, never the work: no branch on it skips or adds effectful statements")
    from ..rules import threadcount
    ntc = threadcount.check(ctx, [f for f in P.lib_functions() if P.rel(f.file).startswith("src/")])
    ctx.floor("C07 branches on a thread count", ntc, 1)
    ctx.floor("C07 member releases outside destructors", nst, 15)
    f = P.fn("carquet_batch_reader_next", BR)
    regions = _omp_regions(f)
    ctx.floor("C07 parallel regions", len(regions), 2)
    cg = callgraph.get(P)
    reach_all = set()
    nargs_total = 0

    for ri, reg in enumerate(regions):
        body, lv, local_decls = _region_setup(reg, ri)
        cz = Canon(f)

        def per_iteration(expr):
            """Does the pointer/lvalue expression select an object by the loop index?"""
            for x in expr.walk():
                if x.k == "ArraySubscriptExpr":
                    for y in x.c[1].walk():
                        if y.k == "DeclRefExpr" and y.get("d") == lv:
                            return True
            return False

        def root_local_def(expr):
            """Follow a region-local pointer to its (single) definition inside the region."""
            b = expr
            while b is not None:
                b = b.strip_casts()
                if b.k in ("MemberExpr", "ArraySubscriptExpr"):
                    b = b.c[0]
                elif b.k == "UnaryOperator" and b.op in ("*", "&"):
                    b = b.c[0]
                else:
                    break
            if b is not None and b.k == "DeclRefExpr" and b.get("d") in local_decls:
                # find its initialiser in the region
                for n in body.walk():
                    if n.k == "DeclStmt":
                        for d, init_ in zip(n.get("decls", []), n.c):
                            if d.get("d") == b.get("d") and init_ is not None:
                                return init_, b
                return None, b
            return None, b

        flags = {}
        nw = 0
        for n in body.walk():
            tgt = None
            if is_assign(n):
                tgt = n.c[0]
            elif n.k == "UnaryOperator" and n.op in ("++", "--"):
                tgt = n.c[0]
            if tgt is None:
                continue
            t = tgt.strip()
            nw += 1
            where = P.where(n)
            key = "region-write|%s:%s|region%d|%s" % (BR, f.name, ri, lvalue_text(t) or src(t))
            what = "write `%s` inside parallel region %d" % (src(n)[:80], ri)
            if t.k == "DeclRefExpr":
                if t.get("d") in local_decls or t.get("d") == lv:
                    ctx.ok("R7.region-write", key, where, what, "region-local variable", nontrivial=False)
                    continue
                # shared scalar
                if _in_critical(n, reg):
                    ctx.ok("R7.region-write", key, where, what, "inside omp critical/atomic")
                    continue
                if is_assign(n) and n.op == "=" and n.c[1].cv is not None:
                    flags.setdefault((t.get("d"), t.name), set()).add(n.c[1].cv)
                    continue
                ctx.bad("R7.region-write", key, where, what, "unprotected write to a shared variable")
                continue
            init_, base = root_local_def(t)
            if per_iteration(t):
                ctx.ok("R7.region-write", key, where, what, "object selected by the loop index")
            elif init_ is not None and per_iteration(init_):
                ctx.ok("R7.region-write", key, where, what,
                       "through `%s`, which points to an object selected by the loop index" % base.name)
            elif _in_critical(n, reg):
                ctx.ok("R7.region-write", key, where, what, "inside omp critical/atomic")
            elif base is not None and base.k == "DeclRefExpr" and base.get("d") in local_decls and \
                    base.get("dk") == "local" and "*" not in (base.t or ""):
                ctx.ok("R7.region-write", key, where, what, "member of a region-local object", nontrivial=False)
            elif base is not None and base.k == "DeclRefExpr" and _arg_class(base, body, local_decls, lv, per_iteration)[0] in ("private", "iteration"):
                ctx.ok("R7.region-write", key, where, what,
                       "through `%s`, which (followed through the region's locals) points to %s" % (
                           base.name, _arg_class(base, body, local_decls, lv, per_iteration)[1]))
            else:
                ctx.bad("R7.region-write", key, where, what,
                        "write through `%s` is not per-iteration, not region-local and not protected" % src(t)[:60])
        na, nall = region_args(ctx, P, cg, f, reg, ri, body, local_decls, lv, per_iteration, BR)
        ctx.count("region%d_pointer_args_classified" % ri, nall)
        ctx.count("region%d_shared_pointer_args" % ri, na)
        nargs_total += nall
        for (d, name), vals in flags.items():
            ctx.ob("R7.region-write", "region-flag|%s:%s|region%d|%s" % (BR, f.name, ri, name), P.where(reg),
                   "shared flag `%s` only ever receives one constant inside region %d (monotone)" % (name, ri),
                   len(vals) == 1, "values %s" % sorted(vals))
        ctx.count("region%d_writes" % ri, nw)
        # functions reachable from the region
        roots = set()
        for c in body.walk():
            if c.k == "CallExpr" and c.callee:
                tgt = cg.resolve(c.callee, f)
                if tgt is not None:
                    roots.add(tgt.key())
        reach = cg.reachable(roots)
        reach_all |= reach
        ctx.count("region%d_reachable_functions" % ri, len(reach))
    ctx.floor("C07 functions reachable from the regions", len(reach_all), 40)
    ctx.floor("C07 writable pointer arguments classified inside the regions", nargs_total, 6)

    # ---- (3) positioned I/O reachable from the regions
    nio = 0
    for key_ in sorted(reach_all):
        g = P.functions[key_]
        for c in g.calls():
            if c.callee in POSITIONED:
                nio += 1
                k = "region-io|%s:%s|%s" % (P.rel(g.file), g.name, c.callee)
                ctx.ob("R7.shared-stream", k, P.where(c),
                       "%s on a stream shared by the workers of a parallel region is inside omp critical" % c.callee,
                       _in_critical(c), "reachable from carquet_batch_reader_next's parallel regions")
        # each fread is preceded by its fseek within the same critical construct
        for c in g.calls("fread"):
            crit = None
            for a in c.ancestors():
                if a.get("omp") and a.get("omp").startswith("critical"):
                    crit = a
                    break
            if crit is None:
                continue
            seeks = [s for s in crit.walk() if s.k == "CallExpr" and s.callee in ("fseek", "fseeko")]
            ok = any(g.cfg.node_dominates(s, c) or _guards(s, c) for s in seeks)
            ctx.ob("R7.shared-stream", "region-seekread|%s:%s" % (P.rel(g.file), g.name), P.where(c),
                   "the positioned read is preceded by its seek inside the same critical construct", ok)
    ctx.floor("C07 positioned I/O sites reachable from the regions", nio, 2)

    # writes to objects shared by all workers (the file-level reader, its metadata and schema)
    SHARED_RECS = {"carquet_reader", "carquet_batch_reader", "carquet_schema", "parquet_file_metadata",
                   "parquet_row_group", "parquet_column_chunk", "parquet_column_metadata",
                   "parquet_schema_element", "carquet_mmap_info", "carquet_reader_options"}
    nsw = 0
    for key_ in sorted(reach_all):
        g = P.functions[key_]
        for n in g.body.walk():
            tgt = None
            if is_assign(n):
                tgt = n.c[0]
            elif n.k == "UnaryOperator" and n.op in ("++", "--"):
                tgt = n.c[0]
            if tgt is None:
                continue
            t = tgt.strip()
            hit = None
            x = t
            while x is not None and x.k in ("MemberExpr", "ArraySubscriptExpr"):
                if x.k == "MemberExpr" and x.get("rec") in SHARED_RECS:
                    hit = x
                x = x.c[0].strip_casts() if x.c else None
            nsw += 1
            if hit is None:
                continue
            # writes to a *local* struct of that type (by value) are private
            base = t
            while base is not None and base.k in ("MemberExpr", "ArraySubscriptExpr"):
                if base.k == "MemberExpr" and base.get("arrow"):
                    break
                base = base.c[0].strip_casts() if base.c else None
            private = base is not None and base.k == "DeclRefExpr" and base.get("dk") == "local"
            ctx.ob("R7.shared-object", "shared-write|%s:%s|%s.%s" % (P.rel(g.file), g.name, hit.get("rec"), hit.name),
                   P.where(n), "store to %s.%s (shared by all workers) from a function reachable from a "
                   "parallel region is protected" % (hit.get("rec"), hit.name), private or _in_critical(n),
                   "private copy" if private else "")
    ctx.count("stores_in_reachable_functions", nsw)

    ng = global_state(ctx)
    ctx.floor("C07 mutable file-scope variables examined", ng, 6)
    ctx.assume("accepted lazy-initialisation idiom (g_dispatch, crc32_tables, g_cpu_info): concurrent first "
               "use stores identical values; assumes x86-TSO and no compiler reordering across the flag store")


def global_state(ctx, scope="src/", rule="R7.global"):
    """Mutable file-scope and static-local state under `scope`: thread-local, never written, or an accepted idempotent lazy
    initialiser - anything else is state shared by every caller and every thread. Returns the number of variables examined."""
    P = ctx.P
    # ---- (2) mutable file-scope state of the whole library
    seen = set()
    ng = 0
    for unit, g in P.globals:
        name = g["name"]
        file_ = P.rel(g["file"])
        if not file_.startswith(scope) or not g["def"] or (name, file_) in seen:
            continue
        seen.add((name, file_))
        if g["const"]:
            continue
        ng += 1
        key = "global|%s|%s" % (file_, name)
        writers = _writers(P, name, file_)
        if g["tls"]:
            ctx.ok(rule, key, file_, "file-scope `%s` is thread-local" % name, "__thread/_Thread_local")
            continue
        if not writers:
            ctx.ok(rule, key, file_, "file-scope `%s` is never written after static initialisation" % name,
                   "no writer in the library")
            continue
        if name in LAZY and LAZY[name][0] == file_:
            allowed = LAZY[name][1]
            from ..rules import whomay
            extra = sorted(w for w in writers if not any(
                whomay.allowed(P, g, lambda h: h.name in allowed) for g in P.by_name.get(w, []) if P.rel(g.file) == file_))
            ctx.ob(rule, key, file_,
                   "lazy-initialised `%s` is written only by its initialiser(s)" % name, not extra,
                   "writers: %s" % sorted(writers))
            flag = LAZY[name][2]
            nflag = 0
            if flag is not None:
                for wn in sorted(writers & allowed):
                    wf = [x for x in P.by_name.get(wn, []) if P.rel(x.file) == file_]
                    if not wf:
                        continue
                    wf = wf[0]
                    fl_stores = [a for a in wf.body.walk() if is_assign(a) and a.c[0].strip().k == "DeclRefExpr"
                                 and a.c[0].strip().name == flag and a.c[1].cv not in (0, None)]
                    # __atomic_store_n/exchange/... (&flag, ...) publish the flag as well
                    fl_stores += [a for a in wf.body.walk() if a.k == "AtomicExpr" and a.get("atomic") != "load"
                                  and a.c and _addr_of_global(a.c[0]) == flag]
                    if not fl_stores:
                        continue
                    nflag += 1

                    def is_tab_store(e, name=name):
                        if not is_assign(e):
                            return False
                        for x in e.c[0].walk():
                            if x.k == "DeclRefExpr" and x.name == name and x.get("dk") == "global":
                                return True
                        return False
                    late = any(after_reaches(wf.cfg, s, is_tab_store) is not None for s in fl_stores)
                    ctx.ob(rule, key + "|flag-last", P.where(fl_stores[0]),
                           "`%s` is published (flag `%s` set) only after its last store in %s" % (name, flag, wn),
                           not late)
                ctx.ob(rule, key + "|flag-set", file_,
                       "an initialiser of `%s` publishes the flag `%s` (plain or atomic store)" % (name, flag),
                       nflag > 0)
            continue
        ctx.bad(rule, key, "%s:%d" % (file_, g["line"]),
                "mutable file-scope variable `%s` is neither thread-local nor an accepted idempotent "
                "lazy initialiser; it is written by %s and shared by all threads" % (name, sorted(writers)))
    # static locals
    for fn in P.lib_functions():
        if not P.rel(fn.file).startswith(scope):
            continue
        for n in fn.body.walk():
            if n.k == "DeclStmt":
                for d in n.get("decls", []):
                    if d.get("static") and not d.get("tls") and "const" not in d.get("t", ""):
                        ng += 1
                        ctx.bad(rule, "static-local|%s:%s|%s" % (P.rel(fn.file), fn.name, d["n"]),
                                P.where(n), "mutable static local `%s` is shared by all threads" % d["n"])
    return ng


def region_args(ctx, P, cg, f, reg, ri, body, local_decls, lv, per_iteration, relfile):
    """Writes through pointers handed to callees inside a parallel region. Returns (shared, classified)."""
    na = nall = 0
    for c in body.walk():
        if c.k != "CallExpr" or not c.callee:
            continue
        g = cg.resolve(c.callee, f)
        for ai, a in enumerate(c.args()):
            if a is None or "*" not in (a.t or "") or a.cv == 0:
                continue
            pointee_const = _pointee_const(g.params[ai]["t"]) if g is not None and ai < len(g.params) else _pointee_const(a.t)
            if pointee_const:
                continue
            nall += 1
            cls, why = _arg_class(a, body, local_decls, lv, per_iteration)
            if cls != "shared":
                continue
            w = _writes_through(P, cg, g, ai) if g is not None else ("%s()" % c.callee if c.callee in LIB_WRITES_ARG0 and ai == 0 else "")
            na += 1
            key = "region-arg|%s:%s|region%d|%s#%d" % (relfile, f.name, ri, c.callee, ai)
            what = ("argument %d (`%s`) of %s inside parallel region %d points to memory shared by the workers; the callee "
                    "does not write through it, or the call is protected" % (ai, src(a)[:50], c.callee, ri))
            if not w or _in_critical(c, reg):
                ctx.ok("R7.region-arg", key, P.where(c), what, "inside omp critical" if w else "read-only in the callee")
            else:
                ctx.bad("R7.region-arg", key, P.where(c), what,
                        "%s; %s writes through parameter %d (%s)" % (why, c.callee, ai, w))
    return na, nall


LIB_WRITES_ARG0 = {"memcpy", "memset", "memmove", "fread", "strcpy", "strncpy", "snprintf", "sprintf"}
ALLOCATORS = {"malloc", "calloc", "realloc", "aligned_alloc", "strdup"}


def _pointee_const(t):
    t = (t or "").strip()
    if "*" not in t:
        return False
    head = t[:t.rindex("*")]
    # the innermost pointee: `const T *` / `T const *`
    return "const" in head.split("*")[-1]


def _arg_class(a, body, local_decls, lv, per_iteration, depth=0):
    """('private'|'iteration'|'shared', reason) of a pointer expression used inside the region."""
    x = a.strip_casts()
    if x is None or x.cv == 0:
        return "private", "null"
    if per_iteration(x):
        return "iteration", "selected by the loop index"
    if x.k == "ConditionalOperator":
        r = [_arg_class(y, body, local_decls, lv, per_iteration, depth) for y in x.c[1:]]
        bad = [z for z in r if z[0] == "shared"]
        return bad[0] if bad else r[0]
    if x.k == "CallExpr":
        return ("private", "fresh allocation") if x.callee in ALLOCATORS else ("shared", "result of %s()" % x.callee)
    if x.k == "UnaryOperator" and x.op == "&":
        return _arg_class(x.c[0], body, local_decls, lv, per_iteration, depth)
    if x.k == "BinaryOperator" and x.op in ("+", "-"):
        return _arg_class(x.c[0], body, local_decls, lv, per_iteration, depth)
    b = x
    while b is not None and b.k in ("MemberExpr", "ArraySubscriptExpr"):
        b = b.c[0].strip_casts() if b.c else None
    if b is not None and b.k == "UnaryOperator" and b.op == "*":
        b = b.c[0].strip_casts()
    if b is None or b.k != "DeclRefExpr":
        return "shared", "`%s`" % src(x)[:40]
    if b.get("d") == lv:
        return "iteration", "the loop variable"
    if b.get("d") not in local_decls:
        return "shared", "`%s` is declared outside the region" % b.name
    if "*" not in (b.t or "") and "[" not in (b.t or "") or b is x and "[" in (b.t or ""):
        return "private", "region-local object"
    if depth > 4:
        return "shared", "`%s`" % b.name
    # a region-local pointer: every value it receives inside the region
    vals = []
    for n in body.walk():
        if n.k == "DeclStmt":
            for d, init_ in zip(n.get("decls", []), n.c):
                if d.get("d") == b.get("d") and init_ is not None:
                    vals.append(init_)
        elif is_assign(n) and n.op == "=" and n.c[0].strip().k == "DeclRefExpr" and n.c[0].strip().get("d") == b.get("d"):
            vals.append(n.c[1])
    if not vals:
        return "shared", "`%s` has no value inside the region" % b.name
    for v in vals:
        r = _arg_class(v, body, local_decls, lv, per_iteration, depth + 1)
        if r[0] == "shared":
            return "shared", "`%s` <- %s" % (b.name, r[1])
    return "private", "region-local pointer"


def _writes_through(P, cg, g, pi, seen=None):
    """A short description of a write through parameter pi of g (directly or in a callee), or ''."""
    seen = set() if seen is None else seen
    if (g.key(), pi) in seen or pi >= len(g.params):
        return ""
    seen.add((g.key(), pi))
    roots = {g.params[pi]["d"]}
    # locals that alias the parameter (p2 = p + k, q = p->member is a different object: not followed)
    changed = True
    while changed:
        changed = False
        for n in g.body.walk():
            if n.k == "DeclStmt":
                for d, init_ in zip(n.get("decls", []), n.c):
                    if init_ is not None and "*" in (d.get("t") or "") and d.get("d") not in roots and _rooted(init_, roots):
                        roots.add(d.get("d"))
                        changed = True
            elif is_assign(n) and n.op == "=" and n.c[0].strip().k == "DeclRefExpr" and "*" in (n.c[0].t or "") \
                    and n.c[0].strip().get("d") not in roots and _rooted(n.c[1], roots):
                roots.add(n.c[0].strip().get("d"))
                changed = True
    # `*flag = true` and nothing else: every worker stores the same constant into a scalar (the monotone flag of
    # C07.1, reached through a pointer because the loop body became a helper) - not a conflicting write
    flag_consts = set()
    other = None
    for n in g.body.walk():
        tgt = None
        if is_assign(n):
            tgt = n.c[0]
        elif n.k == "UnaryOperator" and n.op in ("++", "--"):
            tgt = n.c[0]
        if tgt is not None:
            t = tgt.strip()
            if t.k in ("ArraySubscriptExpr", "MemberExpr") or (t.k == "UnaryOperator" and t.op == "*"):
                if t.k == "MemberExpr" and not t.get("arrow"):
                    inner = t.c[0].strip_casts()
                    if inner.k == "DeclRefExpr":
                        continue
                if _rooted(t.c[0], roots):
                    if t.k == "UnaryOperator" and t.op == "*" and is_assign(n) and n.op == "=" and n.c[1].cv is not None \
                            and t.c[0].strip_casts().k == "DeclRefExpr" and "*" not in (t.t or ""):
                        flag_consts.add(n.c[1].cv)
                        continue
                    other = other or "%s:%d `%s`" % (P.rel(g.file), n.l, src(n)[:50])
    if other:
        return other
    if len(flag_consts) > 1:
        return "%s: stores different constants %s through the pointer" % (P.rel(g.file), sorted(flag_consts))
    for c in g.calls():
        for ai, a in enumerate(c.args()):
            if a is None or "*" not in (a.t or "") or not _rooted(a, roots):
                continue
            h = cg.resolve(c.callee, g) if c.callee else None
            if h is None:
                if c.callee in LIB_WRITES_ARG0 and ai == 0:
                    return "%s:%d %s()" % (P.rel(g.file), c.l, c.callee)
                continue
            if ai < len(h.params) and _pointee_const(h.params[ai]["t"]):
                continue
            w = _writes_through(P, cg, h, ai, seen)
            if w:
                return w
    return ""


def _rooted(e, roots):
    """The pointer expression is the parameter (or an alias) itself, possibly offset - not a member loaded from it."""
    x = e.strip_casts() if e is not None else None
    while x is not None:
        if x.k == "DeclRefExpr":
            return x.get("d") in roots
        if x.k == "BinaryOperator" and x.op in ("+", "-"):
            x = x.c[0].strip_casts()
        elif x.k == "UnaryOperator" and x.op == "&":
            y = x.c[0].strip_casts()
            if y.k == "ArraySubscriptExpr":
                x = y.c[0].strip_casts()
            elif y.k == "UnaryOperator" and y.op == "*":
                x = y.c[0].strip_casts()
            else:
                return False
        elif x.k == "ConditionalOperator":
            return any(_rooted(y, roots) for y in x.c[1:])
        else:
            return False
    return False


def _guards(seek, read):
    """`if (fseek(...) != 0) {...} else { fread }` : the read is in the else/continuation of the seek test."""
    for a in read.ancestors():
        if a.k == "IfStmt":
            cond = [x for x in a.c if x is not None][0]
            if any(x is seek for x in cond.walk()):
                return True
    return False


def _addr_of_global(e):
    x = e.strip_casts()
    if x.k == "UnaryOperator" and x.op == "&":
        y = x.c[0].strip_casts()
        if y.k == "DeclRefExpr" and y.get("dk") == "global":
            return y.name
    return None


def _writers(P, name, file_):
    out = set()
    for fn in P.functions.values():
        if P.rel(fn.file) != file_ and not any(True for _ in ()):
            # static variables are only visible in their file; externs elsewhere are rare
            pass
        for n in fn.body.walk():
            tgt = None
            if is_assign(n):
                tgt = n.c[0]
            elif n.k == "UnaryOperator" and n.op in ("++", "--"):
                tgt = n.c[0]
            elif n.k == "CallExpr" and n.callee in ("memset", "memcpy") and n.args():
                tgt = n.args()[0]
            elif n.k == "AtomicExpr":
                if n.get("atomic") != "load" and n.c and _addr_of_global(n.c[0]) == name and P.rel(fn.file) == file_:
                    out.add(fn.name)
                continue
            elif n.k == "UnaryOperator" and n.op == "&":
                # address taken (passed as an out-parameter)
                x = n.c[0].strip_casts()
                if x.k == "DeclRefExpr" and x.name == name and x.get("dk") == "global" and P.rel(fn.file) == file_:
                    p = n.parent
                    while p is not None and p.k in ("ImplicitCastExpr", "ParenExpr", "CStyleCastExpr"):
                        p = p.parent
                    if p is not None and p.k == "CallExpr":
                        out.add(fn.name)
                continue
            if tgt is None:
                continue
            for x in tgt.walk():
                if x.k == "DeclRefExpr" and x.name == name and x.get("dk") == "global" and P.rel(fn.file) == file_:
                    # only when the global is the base of the written lvalue
                    out.add(fn.name)
                    break
    return out
