"""R23: a scalar is taken out of a vector at the width of the vector's lanes.

x86 vector registers are untyped (__m128i / __m256i / __m512i); the lane width lives in the names of
the intrinsics. A kernel over 64-bit elements that pulls a lane out with a 32-bit extraction
(`_mm_cvtsi128_si32`, `_mm_extract_epi32`, ...) silently keeps the low half of the element: correct for
small values, wrong as soon as a partial result needs more than 32 bits.

The rule: for every scalar extraction of width We whose operand is (a local defined only by / directly)
the result of lane-typed intrinsics of width Wl, We >= Wl. Width-agnostic producers (loads, casts,
byte shifts, 128-bit half extraction, shuffles of bytes) say nothing and yield no obligation."""
import re

from ..facts import src
from ..util import is_assign

EXTRACT = [(re.compile(r"^_mm(256|512)?_cvtsi(128|256|512)_si32$"), 32), (re.compile(r"^_mm(256|512)?_cvtsi(128|256|512)_si64x?$"), 64),
           (re.compile(r"^_mm(256|512)?_extract_epi8$"), 8), (re.compile(r"^_mm(256|512)?_extract_epi16$"), 16),
           (re.compile(r"^_mm(256|512)?_extract_epi32$"), 32), (re.compile(r"^_mm(256|512)?_extract_epi64$"), 64),
           (re.compile(r"^_mm(256|512)?_cvtss_f32$"), 32), (re.compile(r"^_mm(256|512)?_cvtsd_f64$"), 64)]
LANE = [(re.compile(r"_epi64x?$|_epu64$|_pd$"), 64), (re.compile(r"_epi32$|_epu32$|_ps$"), 32),
        (re.compile(r"_epi16$|_epu16$"), 16), (re.compile(r"_epi8$|_epu8$"), 8)]
AGNOSTIC = re.compile(r"_si(128|256|512)$|^_mm(256|512)?_(load|loadu|lddqu|stream_load|cast|extracti|extractf|inserti|insertf|permute2|"
                      r"and|or|xor|andnot|setzero|undefined|shuffle_epi8|alignr|bslli|bsrli|broadcastsi)")


def extract_width(name):
    for rx, w in EXTRACT:
        if rx.match(name or ""):
            return w
    return None


def lane_width(name):
    """lane width a vector-producing intrinsic gives its result, None when width-agnostic / unknown"""
    if not name or not name.startswith("_mm") or extract_width(name) is not None:
        return None
    if AGNOSTIC.search(name):
        return None
    # conversions name source and destination: the result has the last width (cvtepi32_epi64 -> 64)
    for rx, w in LANE:
        if rx.search(name):
            return w
    return None


def iname(c):
    """the intrinsic a call stands for: macro intrinsics expand to __builtin_ia32_* calls"""
    n = c.callee or ""
    if n.startswith("__builtin_ia32") and (c.get("mi") or "").startswith("_mm"):
        return c.get("mi")
    return n


def _producers(fn, node, depth=0):
    """intrinsic calls that define the vector value of `node` (through parens/casts and locals)"""
    x = node.strip_casts()
    if x is None:
        return []
    if x.k == "CallExpr" and x.callee:
        w = lane_width(iname(x))
        if w is None and depth < 3 and AGNOSTIC.search(iname(x) or "") and x.args():
            # width-agnostic wrapper (cast, half extraction, byte shift): look through to the vector operand
            out = []
            for a in x.args():
                if "__m" in (a.strip().t or "") or "__v" in (a.strip().t or "") or "vector" in (a.strip().t or ""):
                    out += _producers(fn, a, depth + 1)
            return out
        return [x]
    if x.k == "DeclRefExpr" and x.get("dk") == "local" and depth < 3:
        out = []
        d = x.get("d")
        for n in fn.body.walk():
            if n.k == "DeclStmt":
                for dd, init in zip(n.get("decls", []), n.c):
                    if dd.get("d") == d and init is not None:
                        out += _producers(fn, init, depth + 1)
            elif n.k == "BinaryOperator" and n.op == "=" and n.c[0].strip().k == "DeclRefExpr" and n.c[0].strip().get("d") == d:
                out += _producers(fn, n.c[1], depth + 1)
        return out
    return []


def check(ctx, fns, rule="R23.lanes", key_prefix="lane-width"):
    P = ctx.P
    n = 0
    for fn in fns:
        seen = {}
        for c in fn.body.walk():
            if c.k != "CallExpr" or not c.callee:
                continue
            we = extract_width(iname(c))
            if we is None or not c.args():
                continue
            prods = _producers(fn, c.args()[0])
            widths = sorted(set(w for w in (lane_width(iname(p)) for p in prods) if w is not None))
            if not widths:
                continue
            n += 1
            k0 = "%s|%s:%s|%s" % (key_prefix, P.rel(fn.file), fn.name, iname(c))
            seen[k0] = seen.get(k0, 0) + 1
            key = k0 + ("#%d" % (seen[k0] - 1) if seen[k0] > 1 else "")
            what = "`%s` takes %d bits out of a vector whose lanes are %s bits wide" % (src(c)[:70], we, "/".join(map(str, widths)))
            ctx.ob(rule, key, P.where(c), what, we >= min(widths),
                   "operand produced by %s" % sorted(set(iname(p) for p in prods if lane_width(iname(p))))[:4])
    return n


# ---- R23b: a bit test is not decided by a signed compare that the tested bit makes negative
CMP = re.compile(r"^_mm(256|512)?_cmp(gt|lt)_epi(8|16|32|64)$")
SETC = re.compile(r"^_mm(256|512)?_set(r|1)?_epi(8|16|32|64)x?$")
ANDI = re.compile(r"^_mm(256|512)?_and_si(128|256|512)$")
ZERO = re.compile(r"^_mm(256|512)?_setzero_si(128|256|512)$")


def _single_def(fn, node, depth=0):
    """the expression that defines the vector value of node (through casts and single-definition locals)"""
    x = node.strip_casts()
    if x is None:
        return None
    if x.k == "DeclRefExpr" and x.get("dk") == "local" and depth < 4:
        d = x.get("d")
        defs = []
        for n in fn.body.walk():
            if n.k == "DeclStmt":
                for dd, init in zip(n.get("decls", []), n.c):
                    if dd.get("d") == d and init is not None:
                        defs.append(init)
            elif n.k == "BinaryOperator" and n.op == "=" and n.c[0].strip().k == "DeclRefExpr" and n.c[0].strip().get("d") == d:
                defs.append(n.c[1])
        if len(defs) != 1:
            return None
        return _single_def(fn, defs[0], depth + 1)
    return x


def _const_lanes(fn, node):
    """(lane width, [lane constants]) of a vector built from constants, or None"""
    x = _single_def(fn, node)
    if x is None or x.k != "CallExpr":
        return None
    nm = iname(x) or ""
    if ZERO.match(nm):
        return (8, [0])
    m = SETC.match(nm)
    if not m:
        return None
    vals = [a.cv if a is not None else None for a in x.args()]
    if any(v is None for v in vals):
        return None
    w = int(m.group(3))
    return (w, [v & ((1 << w) - 1) for v in vals])


def check_signed_bit_test(ctx, fns, rule="R23.signed-bit-test", key_prefix="signed-bit-test"):
    """`cmpgt(and(x, M), 0)` / `cmplt(0, and(x, M))` with single-bit lanes in the constant M is a test for
    'bit set'; a lane of M that is the sign bit of the compared width makes the masked value negative, so the
    signed compare answers 'clear' for a set bit."""
    P = ctx.P
    n = 0
    for fn in fns:
        idx = 0
        for c in fn.body.walk():
            if c.k != "CallExpr" or not c.callee:
                continue
            m = CMP.match(iname(c) or "")
            if not m or len(c.args()) < 2:
                continue
            w = int(m.group(3))
            a, b = c.args()[0], c.args()[1]
            if m.group(2) == "lt":
                a, b = b, a
            zb = _const_lanes(fn, b)
            if zb is None or any(v != 0 for v in zb[1]):
                continue
            av = _single_def(fn, a)
            if av is None or av.k != "CallExpr" or not ANDI.match(iname(av) or ""):
                continue
            masks = [ml for ml in (_const_lanes(fn, x) for x in av.args()) if ml is not None]
            if not masks:
                continue
            mw, lanes = masks[0]
            if mw != w or not all(v == 0 or (v & (v - 1)) == 0 for v in lanes):
                continue        # not a per-lane single-bit mask of the compared width
            n += 1
            key = "%s|%s:%s|L%d" % (key_prefix, P.rel(fn.file), fn.name, idx)
            idx += 1
            sign = 1 << (w - 1)
            hit = [v for v in lanes if v == sign]
            ctx.ob(rule, key, P.where(c),
                   "`%s` tests single mask bits with a signed %d-bit compare; no mask lane is the sign bit" % (src(c)[:70], w),
                   not hit, "a lane of the mask is %#x: the masked value is negative when that bit is set" % sign if hit else "")
    return n


# ---- R23c: a per-lane counter cannot outgrow its lanes before it is flushed
ACC = re.compile(r"^_mm(256|512)?_(add|sub)_epi(8|16|32)$")
CMPR = re.compile(r"^_mm(256|512)?_cmp(eq|gt|lt)_epi(8|16|32)$")
SIGNED_USE = re.compile(r"^_mm(256|512)?_(madd_epi16|cvtepi(8|16)_epi(16|32|64)|hadd_epi16|hadds_epi16|maddubs_epi16)$")
UNSIGNED_USE = re.compile(r"^_mm(256|512)?_(sad_epu8|cvtepu(8|16)_epi(16|32|64))$")


def _const_of(fn, e, depth=0):
    x = e.strip_casts() if e is not None else None
    if x is None:
        return None
    if x.cv is not None:
        return x.cv
    if x.k == "BinaryOperator" and x.op in ("*", "+", "-"):
        a, b = _const_of(fn, x.c[0], depth), _const_of(fn, x.c[1], depth)
        if a is not None and b is not None:
            return a * b if x.op == "*" else a + b if x.op == "+" else a - b
    return None


def check_lane_counters(ctx, fns, rule="R23.lane-counter", key_prefix="lane-counter"):
    """`acc = sub/add_epiN(acc, cmp(...))` counts matches per lane, one per iteration. When the counter is flushed by
    an operation that reads the lanes as signed N-bit numbers it may hold at most 2^(N-1)-1, as unsigned 2^N-1; the
    number of iterations between two resets of acc (a block bound `end = i + K*step` with the loop stepping by
    `step`) must not exceed that."""
    P = ctx.P
    n = 0
    for fn in fns:
        idx = 0
        for a in fn.body.walk():
            if not (a.k == "BinaryOperator" and a.op == "=" and a.c[0].strip().k == "DeclRefExpr"):
                continue
            rhs = a.c[1].strip_casts()
            if rhs is None or rhs.k != "CallExpr":
                continue
            m = ACC.match(iname(rhs) or "")
            if not m or len(rhs.args()) != 2:
                continue
            d = a.c[0].strip().get("d")
            ops = [x.strip_casts() for x in rhs.args()]
            selfop = [x for x in ops if x.k == "DeclRefExpr" and x.get("d") == d]
            incs = [x for x in ops if not (x.k == "DeclRefExpr" and x.get("d") == d)]
            if len(selfop) != 1 or len(incs) != 1:
                continue
            inc = _single_def(fn, incs[0])
            if inc is None or inc.k != "CallExpr" or not CMPR.match(iname(inc) or ""):
                continue
            bits = int(m.group(3))
            # the loop the update sits in, and how the counter is used after it
            loop = next((x for x in a.ancestors() if x.k in ("ForStmt", "WhileStmt")), None)
            if loop is None:
                continue
            uses = [c for c in fn.body.walk() if c.k == "CallExpr" and c is not rhs and any(
                y.k == "DeclRefExpr" and y.get("d") == d for z in c.args() for y in [z.strip_casts()] if y is not None)]
            signed = any(SIGNED_USE.match(iname(c) or "") for c in uses)
            unsigned = any(UNSIGNED_USE.match(iname(c) or "") for c in uses)
            if not signed and not unsigned:
                continue
            limit = (1 << (bits - 1)) - 1 if signed else (1 << bits) - 1
            # iterations between resets: loop condition `i + S <= E` (or `i < E`) with step S, and `E = i + K` set before the loop
            cond = loop.c[2] if loop.k == "ForStmt" else loop.c[-2]
            step = None
            for x in loop.walk():
                if x.k == "CompoundAssignOperator" and x.op == "+=" and x.c[1].cv is not None:
                    step = x.c[1].cv
            bound = None
            if cond is not None:
                c_ = cond.strip_casts()
                if c_.k == "BinaryOperator" and c_.op in ("<", "<="):
                    E = c_.c[1].strip_casts()
                    if E.k == "DeclRefExpr" and E.get("dk") == "local":
                        for y in fn.body.walk():
                            init = None
                            if y.k == "DeclStmt":
                                for dd, i_ in zip(y.get("decls", []), y.c):
                                    if dd.get("d") == E.get("d") and i_ is not None:
                                        init = i_
                            elif y.k == "BinaryOperator" and y.op == "=" and y.c[0].strip().k == "DeclRefExpr" and y.c[0].strip().get("d") == E.get("d"):
                                init = y.c[1]
                            if init is not None:
                                z = init.strip_casts()
                                if z.k == "BinaryOperator" and z.op == "+":
                                    k = _const_of(fn, z.c[1]) if _const_of(fn, z.c[1]) is not None else _const_of(fn, z.c[0])
                                    if k is not None:
                                        bound = k if bound is None else max(bound, k)
            n += 1
            key = "%s|%s:%s|L%d" % (key_prefix, P.rel(fn.file), fn.name, idx)
            idx += 1
            what = ("the %d-bit lane counters updated by `%s` are flushed (%s) before a lane can exceed %d" % (
                bits, src(a)[:50], "read as signed" if signed else "read as unsigned", limit))
            if bound is None or not step:
                ctx.inconclusive(rule, key, P.where(a), what, "the number of iterations between two resets of the counter was not found")
                continue
            iters = bound // step
            ctx.ob(rule, key, P.where(a), what, iters <= limit, "up to %d iterations between resets" % iters)
    return n


# ---------------------------------------------------------------------------------------------- masked tails
CMP_MASK = ("cmpeq", "cmpneq", "cmpgt", "cmpge", "cmplt", "cmple", "cmp_ep")


def check_masked_tail(ctx, fns, rule="R23.masked-tail", key_prefix="masked-tail"):
    """A vector filled by a zero-masking load (`_mm512_maskz_loadu_*(k, p)`) holds zeros in the lanes outside k. An
    unmasked comparison of that vector with another one therefore answers for those lanes as well - with "equal"
    whenever the other operand's lane is 0. Such a comparison result may only be used after `& k` (or the comparison
    must be the masked form `_mm512_mask_cmp*_mask(k, ..)`); a use of the raw result lets the tail lanes decide,
    and the input that shows it is the one whose compared value is 0 (all-zero run, zero key, zero threshold).
    Tests of the vector against itself (`test_ep*_mask(v, v)`) are zero for the zero lanes and need no mask."""
    P = ctx.P
    n = 0
    for fn in fns:
        if fn.body is None:
            continue
        loads = {}      # decl id -> (name, mask text, node)
        for s_ in fn.body.walk():
            pairs = []
            if s_.k == "DeclStmt":
                pairs = [(dd.get("d"), dd.get("n"), i_) for dd, i_ in zip(s_.get("decls", []), s_.c) if i_ is not None]
            elif is_assign(s_) and s_.op == "=" and s_.c[0].strip().k == "DeclRefExpr":
                pairs = [(s_.c[0].strip().get("d"), s_.c[0].strip().name, s_.c[1])]
            for d, nm, e in pairs:
                c = e.strip_casts()
                if c.k == "CallExpr" and "maskz_loadu" in iname(c) and c.args():
                    loads[d] = (nm, src(c.args()[0].strip_casts()), c)
        if not loads:
            continue
        for c in fn.calls():
            nm = iname(c)
            if not nm.startswith("_mm") or not nm.endswith("_mask") or not any(k in nm for k in CMP_MASK):
                continue
            if "_mask_cmp" in nm:
                continue        # the masked form: lanes outside its mask answer 0
            ops = [a.strip_casts() for a in c.args() if a is not None]
            hit = [loads[a.get("d")] for a in ops if a.k == "DeclRefExpr" and a.get("d") in loads]
            if not hit or (len(ops) >= 2 and src(ops[0]) == src(ops[1])):
                continue
            n += 1
            lname, ktxt, lnode = hit[0]
            key = "%s|%s:%s|%s" % (key_prefix, P.rel(fn.file), fn.name, lname)
            what = "the result of `%s` on the zero-masked vector `%s` is used only after `& %s`" % (nm, lname, ktxt)
            # where does the result go?
            p = c.parent
            while p is not None and p.k in ("ParenExpr", "ImplicitCastExpr", "CStyleCastExpr"):
                p = p.parent
            bad = None
            if p is not None and p.k == "BinaryOperator" and p.op == "&" and any(src(x.strip_casts()) == ktxt for x in p.c):
                pass
            else:
                rd = None
                if p is not None and p.k == "DeclStmt":
                    for dd, i_ in zip(p.get("decls", []), p.c):
                        if i_ is not None and any(y is c for y in i_.walk()):
                            rd = dd.get("d")
                elif p is not None and is_assign(p) and p.c[0].strip().k == "DeclRefExpr":
                    rd = p.c[0].strip().get("d")
                if rd is None:
                    bad = "the raw comparison result is used directly (`%s`)" % src(p if p is not None else c)[:60]
                else:
                    for u in fn.body.walk():
                        if u.k == "DeclRefExpr" and u.get("d") == rd and u.i > c.i:
                            q = u.parent
                            while q is not None and q.k in ("ParenExpr", "ImplicitCastExpr", "CStyleCastExpr"):
                                q = q.parent
                            if q is not None and q.k == "BinaryOperator" and q.op == "&" and any(src(x.strip_casts()) == ktxt for x in q.c):
                                continue
                            if q is not None and q.k == "CompoundAssignOperator" and q.op == "&=" and src(q.c[1].strip_casts()) == ktxt:
                                continue
                            bad = "its result `%s` is used unmasked in `%s`: lanes outside `%s` hold 0 and compare as such" % (u.name, src(q if q is not None else u)[:50], ktxt)
                            break
            ctx.ob(rule, key, P.where(c), what, bad is None, bad or "")
    return n
